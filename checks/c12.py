"""C12 - node trees stay structurally sound; pooled nodes are never aliased (DESIGN.md 5/C12)."""
import os
import vlib
from vlib import log

LEVEL = "model_checking"


def handle(rep, recs):
    for x in recs:
        if x.get("kind") == "violation":
            rep.violation(x)
        elif x.get("kind") == "summary":
            rep.add_summary(x)


def run(tier, rep):
    thorough = tier == "thorough"
    rep.assumptions += [
        "sync.Pool itself (hand-out of each pooled object to one getter) is trusted; the ownership protocol around it is observed through the verif get/put hook",
        "AddChild is exercised on detached roots that are not ancestors of the parent (the way every caller in the repository uses it)",
    ]
    # 1. design: all reachable arena configurations
    for name, cfg, consts in ([("MC_IDR(K=4,pooling)", "MC_IDR.cfg", {"K": "4", "Pooling": "TRUE"}),
                               ("MC_IDR(K=4,no pooling)", "MC_IDR.cfg", {"K": "4", "Pooling": "FALSE"}),
                               ("MC_IDR(K=3,ids explicit)", "MC_IDR_ids.cfg", {})] +
                              ([("MC_IDR(K=5,pooling)", "MC_IDR.cfg", {"K": "5", "Pooling": "TRUE"})] if thorough else [])):
        r = vlib.tlc("MC_IDR", cfg, consts=consts, timeout=3000)
        rep.add_tlc(name, r)
        if not vlib.tlc_ok(r, name):
            log(r.out[-3000:])
            raise vlib.Inconclusive("the IDR model violates %s: specification problem, no verdict on the code" % r.violated)
    # 2. operation words on the real package, every step validated with the full pointer structure
    for pooling in ("1", "0"):
        tr = os.path.join(vlib.scratch(), "c12.words.%s.ndjson" % pooling)
        args = ["c12-words", tr] + (["6", "3", pooling, "400", "120"] if thorough else ["5", "3", pooling, "60", "60"])
        recs, _ = vlib.run_vh(args)
        handle(rep, recs)
        os.environ["VERIF_DUMMY"] = "1"
        cfgname = "Trace_IDR.cfg" if pooling == "1" else "Trace_IDR_nopool.cfg"
        for rj in vlib.validate_traces(rep, "Trace_IDR", cfgname, tr, name="Trace_IDR(pooling=%s)" % pooling, timeout=3000):
            ev = dict(rj["failing_event"])
            rep.violation({"property": "C12", "key": "opword-rejected", "kind": "b2",
                           "summary": "after %s (pooling=%s) the real pointer structure is not the one IDR.tla specifies, or an invariant (%s) fails" % (
                               ev.get("ev"), pooling, rj["tlc"]),
                           "event": ev, "word": [{k: e.get(k) for k in ("ev", "c", "p", "n", "t", "f")} for e in rj["events"][: rj["failing_index"] + 1]]})
    # 2b. who releases what, and when: the Read / Release calls the ingester makes on the real readers follow Ingester.tla
    # (every node handed out is released exactly once, before the next Read) - independent of what the allocator then does
    vlib.ingester_protocol(rep, "C12", thorough)
    # 3. trees handed out by the seven readers + pool ownership events
    tr = os.path.join(vlib.scratch(), "c12.audit.ndjson")
    recs, _ = vlib.run_vh(["c12-readers", tr, "12" if thorough else "3"])
    handle(rep, recs)
    for rj in vlib.validate_traces(rep, "Trace_IDRAudit", "Trace_IDRAudit.cfg", tr, timeout=3000):
        ev = rj["failing_event"]
        rep.violation({"property": "C12", "key": "reader-tree-unsound", "kind": "b2",
                       "summary": "tree handed out by a reader (%s) is not structurally sound or contains a released node" % ev.get("sample"),
                       "dump": ev})
    rep.cov["rule"] = ("all reachable arena states with K cells (TLC); every legal CreateNode/AddChild/RemoveAndReleaseTree word up to "
                       "length 5/6 over <=3 live nodes plus random words, executed on the real idr package with pooling on and off, each "
                       "step compared with the specified pointer structure; pointer-structure dumps after every Read of the 7 readers "
                       "on samples and damaged inputs and on random declaration hierarchies (csv2 / fixedlength2 / edi); the ingester's Read / Release calls on the real readers validated against Ingester.tla; pool get/put ownership events. non-trivial: a word that removes after attaching "
                       "or re-acquires a released cell; a dumped tree with >=3 nodes")
