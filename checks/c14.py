"""C14 - schemas and process-wide state are safe to share between goroutines (DESIGN.md 5/C14)."""
import glob, os
import vlib
from vlib import log

LEVEL = "exploration"


def run(tier, rep):
    thorough = tier == "thorough"
    rep.assumptions += [
        "the Go scheduler's interleavings cannot be enumerated: TLC enumerates those of Conc.tla (pool hand-over, ID counter) and JSVM.tla (VM pool); "
        "the race detector (-race build of the harness) and ownership traces observe the real ones",
        "pool events carry a global atomic sequence number taken inside the hook; put is logged before the real Put, get after the real Get",
    ]
    r = vlib.tlc("Conc", "MC_Conc.cfg", consts={"G": "3" if thorough else "2", "Rounds": "2", "AtomicID": "TRUE"}, timeout=3000)
    rep.add_tlc("Conc(pool + atomic ID counter)", r)
    if not vlib.tlc_ok(r, "Conc"):
        raise vlib.Inconclusive("Conc.tla violates %s: specification problem" % r.violated)
    r = vlib.tlc("MC_JSVM", "MC_JSVM.cfg", consts={"G": "2", "DeleteArgs": "TRUE", "CacheNodeJSON": "TRUE", "WithAncestor": "FALSE"}, timeout=3000, want_cases=False)
    rep.add_tlc("MC_JSVM(VM pool, 2 goroutines)", r)
    if not vlib.tlc_ok(r, "MC_JSVM"):
        raise vlib.Inconclusive("JSVM.tla violates %s: specification problem" % r.violated)
    # "running alone": a process of its own per item (plain build), for the items that come with an Extension of their
    # own or use the functions an Extension may re-bind, and for a sample (quick) / all (thorough) of the others
    recs, _ = vlib.run_vh(["c13-names"])
    names = next(x["names"] for x in recs if x.get("kind") == "names")
    pick = [n for n in names if n.startswith("c13/ext-") or n.startswith("c13/builtin-")]
    pick += [n for n in names if n not in pick][:: 1 if thorough else 8]
    alone = os.path.join(vlib.scratch(), "c14.alone.ndjson")
    lines = []
    for i, name in enumerate(pick):
        out = os.path.join(vlib.scratch(), "c14.single%d.ndjson" % i)
        vlib.run_vh(["c15-run", out, "900", "only=" + name])
        got = vlib.read_ndjson(out)
        if not got:
            raise vlib.Inconclusive("no transcript from the single-item process of " + name)
        lines.append({"item": name, "results": got[0]["results"]})
        os.remove(out)
    vlib.write_ndjson(alone, lines)
    rep.notes.append("%d of %d goldens come from a process that ran nothing but the item" % (len(lines), len(names)))
    procs = ["1", "2", "4", "16"] if thorough else ["1", "4", "16"]
    for gi, gmp in enumerate(procs):
        G = {"1": 4, "2": 8, "4": 8, "16": 32}[gmp]
        tr = os.path.join(vlib.scratch(), "c14.%s.ndjson" % gmp)
        pool = os.path.join(vlib.scratch(), "c14.pool.%s.ndjson" % gmp)
        racelog = os.path.join(vlib.scratch(), "race.%s" % gmp)
        died = None
        try:
            recs, _ = vlib.run_vh(["c14-drive", tr, pool, str(G), "4" if thorough else "2", alone], race=True, timeout=3400,
                                  env={"GOMAXPROCS": gmp, "GORACE": "exitcode=0 halt_on_error=0 log_path=" + racelog})
        except (vlib.Inconclusive, vlib.RepoCrash) as e:
            # the process may die of what the race detector has just reported (e.g. "concurrent map writes"): the report decides
            died, recs = e, []
        for x in recs:
            if x.get("kind") == "violation":
                rep.violation(x)
            elif x.get("kind") == "summary":
                rep.add_summary(x)
        for f in glob.glob(racelog + "*"):
            txt = open(f, errors="replace").read()
            if "DATA RACE" in txt:
                first = txt[txt.index("WARNING: DATA RACE"):][:3000]
                # classify by the first repository frame
                frame = next((ln.strip() for ln in first.splitlines() if "/repo/" in ln or "omniparser" in ln), "unknown")
                rep.violation({"property": "C14", "key": "data-race:" + frame.split("/")[-1][:80], "kind": "race",
                               "summary": "the race detector reports a data race (GOMAXPROCS=%s, %d goroutines): %s" % (gmp, G, frame), "report": first})
                if died is not None:
                    died = "reported"
        if died == "reported":
            continue          # no transcripts to validate: the process died after the race had been reported
        if died is not None:
            raise died
        for rj in vlib.validate_traces(rep, "Trace_Runs", "Trace_Runs.cfg", tr, name="Trace_Runs(GOMAXPROCS=%s)" % gmp, timeout=3000):
            ev = rj["failing_event"]
            rep.violation({"property": "C14", "key": "concurrent-result-differs:" + str(ev.get("item")), "kind": "b3",
                           "summary": "%s: goroutine %s (%s, GOMAXPROCS=%s) obtained results different from those of the run alone (a process of its own where available, else the serial run)" % (ev.get("item"), ev.get("goroutine"), ev.get("phase"), gmp),
                           "results": ev.get("results"), "alone": rj["events"][0].get("results")})
        # ownership protocol on (a prefix of) the real pool events
        evs = vlib.read_ndjson(pool)[:12000]
        # cut at a point where nothing is owned would be ideal; a prefix is fine for a safety check
        vlib.write_ndjson(pool, evs)
        for rj in vlib.validate_traces(rep, "Trace_Pool", "Trace_Pool.cfg", pool, name="Trace_Pool(GOMAXPROCS=%s)" % gmp, timeout=3000, max_reject=1):
            ev = rj["failing_event"]
            rep.violation({"property": "C14", "key": "pool-ownership-" + str(ev.get("ev")), "kind": "b2",
                           "summary": "node pool event %s of pointer #%s (node ID %s) breaks single ownership / ID uniqueness" % (ev.get("ev"), ev.get("p"), ev.get("id")),
                           "event": ev})
    rep.cov["rule"] = ("per GOMAXPROCS in %s: 4-32 goroutines, phases 'same schema at once' and 'mixed schemas', over the whole corpus (all formats, "
                       "javascript / javascript_with_context, templates, xpath_dynamic), harness built with -race; every transcript compared by TLC with "
                       "the serial one; node-pool get/put events checked for single ownership and ID uniqueness by TLC (Trace_Pool). "
                       "non-trivial: every concurrent run (>=4 goroutines overlap on shared schemas and process-wide state)" % procs)
