"""C10 - records are transformed independently; a failing record affects only itself (DESIGN.md 5/C10)."""
import os
import vlib

LEVEL = "exploration"


def run(tier, rep):
    thorough = tier == "thorough"
    rep.assumptions += [
        "schemas address only the target record's own data (the property's quantifier); results are compared on (class, output bytes) because "
        "error messages carry line/segment positions that move when records move",
        "record pools are checked first: every 'ok' record transforms alone and every failing record fails alone (otherwise exit 2)",
    ]
    tr = os.path.join(vlib.scratch(), "c10.trace.ndjson")
    recs, _ = vlib.run_vh(["c10-drive", tr, "4000" if thorough else "40"], timeout=3000)
    for x in recs:
        if x.get("kind") == "violation":
            rep.violation(x)
        elif x.get("kind") == "summary":
            rep.add_summary(x)
    for rj in vlib.validate_traces(rep, "Trace_Runs", "Trace_Runs.cfg", tr, timeout=3000):
        ev = rj["failing_event"]
        law = {"concat": "results(A.B) = results(A).results(B)", "perm": "permuting records permutes the results",
               "replace": "replacing one record by a failing one (%s) changes exactly that position into a per-record failure" % ev.get("kind")}.get(ev.get("ev"), ev.get("ev"))
        rep.violation({"property": "C10", "key": "%s-%s" % (ev.get("ev"), ev.get("format")), "kind": "b3",
                       "summary": "%s: law violated: %s" % (ev.get("format"), law), "event": ev})
    rep.cov["rule"] = ("per format (csv, csv2, fixed-length, fixedlength2, edi, json, xml): record pools with ok records and failing records "
                       "(type cast, several xpath matches, custom function error); seeded rounds of A, B, A.B (concatenation law), permutations, "
                       "and replacement of one position by every failing record; laws evaluated by TLC (Trace_Runs.tla Concat/Perm/Replace). "
                       "non-trivial: >=3 records or a failing record in the composite run")
