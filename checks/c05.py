"""C05 - hierarchical segment/record structure is matched greedily and completely (DESIGN.md 5/C05)."""
import os
import vlib
from vlib import log

LEVEL = "model_checking"


def handle(rep, recs):
    for x in recs:
        if x.get("kind") == "violation":
            rep.violation(x)
        elif x.get("kind") == "summary":
            rep.add_summary(x)


def mc(rep, name, consts, timeout=3000):
    r = vlib.tlc("MC_Hierarchy", "MC_Hierarchy.cfg", consts=consts, timeout=timeout)
    rep.add_tlc(name, r)
    if not vlib.tlc_ok(r, name):
        log(r.out[-3000:])
        raise vlib.Inconclusive("the Hierarchy model violates %s: the stack-machine model and the reference matcher disagree "
                                "inside the specification; no verdict on the code" % r.violated)
    return r


def run(tier, rep):
    thorough = tier == "thorough"
    rep.assumptions += [
        "a non-group declaration takes one named unit, or (csv2 / fixedlength2 / scripted reader) two units of any name (rows = 2) or a "
        "named header through the first footer unit 'Z'; column extraction inside multi-line records is FlatLines / C06",
        "EDI: the top-level declarations repeat while the first of them matches again (intended; repository test 'multiple root level segments, success')",
        "the target filter is exercised as 'first unit of a leaf target has an odd index' (an xpath on the instance's own column); a filtered-out instance has occurred (counts towards min / max) but is not delivered",
        "max = 0 is outside the property's quantifier and not generated",
    ]
    configs = []
    if thorough:
        configs += [("N<=2,in<=4", dict(NMin=1, NMax=2, MaxIn=4, EmitMod=1)),
                    ("N=3,in<=3", dict(NMin=3, NMax=3, MaxIn=3, EmitMod=25))]
    else:
        configs += [("N<=2,in<=3", dict(NMin=1, NMax=2, MaxIn=3, EmitMod=1))]
    ncase = 0
    shapes = '{"name", "rows2", "hf"}'
    runs = [("FALSE", nm, c) for nm, c in configs] + [("TRUE", nm, c) for nm, c in configs]
    # record shapes of csv2 / fixedlength2 (not EDI): the footer unit joins the alphabet and every leaf has 3 shapes,
    # so the scope is N <= 2 (N = 3 does not finish in 20 min); measured: 373k / 1.27M / 1.89M states
    if thorough:
        runs += [("FALSE", "shapes,N<=2,in<=4,1name", dict(NMin=1, NMax=2, MaxIn=4, EmitMod=2, Shapes=shapes, Names='{"A"}')),
                 ("FALSE", "shapes,N<=2,in<=3", dict(NMin=1, NMax=2, MaxIn=3, EmitMod=2, Shapes=shapes))]
    else:
        runs += [("FALSE", "shapes,N<=2,in<=3,1name", dict(NMin=1, NMax=2, MaxIn=3, EmitMod=1, Shapes=shapes, Names='{"A"}'))]
    # the target filter (FINAL_OUTPUT xpath on the target instance): filtered-out instances still count
    runs += [(edi, "filter," + nm, dict(c, Filter="TRUE", EmitMod=c["EmitMod"] * 2)) for edi in ("FALSE", "TRUE") for nm, c in configs[:1]]
    for edi, nm, c in runs:
        if True:
            consts = dict(c, Edi=edi, EmitCases="TRUE")
            r = mc(rep, "MC_Hierarchy(%s,edi=%s)" % (nm, edi), {k: str(v) for k, v in consts.items()})
            if not r.cases:
                raise vlib.Inconclusive("TLC emitted no cases")
            p = os.path.join(vlib.scratch(), "c05.cases.%d.ndjson" % ncase)
            ncase += 1
            vlib.write_ndjson(p, r.cases)
            del r.cases[:]
            impls = "edi" if edi == "TRUE" else "recreader,csv2,fixedlength2"
            recs, _ = vlib.run_vh(["c05-replay", p, impls], timeout=3000)
            handle(rep, recs)
            os.remove(p)
    # B2: randomized larger hierarchies / longer inputs, validated by TLC against Ref and the stack machine
    tr = os.path.join(vlib.scratch(), "c05.trace.ndjson")
    recs, _ = vlib.run_vh(["c05-drive", tr] + (["4000", "8", "40"] if thorough else ["400", "6", "24"]))
    handle(rep, recs)
    for rj in vlib.validate_traces(rep, "Trace_Hierarchy", "Trace_Hierarchy.cfg", tr, timeout=3000):
        ev = rj["failing_event"]
        rep.violation({"property": "C05", "key": "trace-mismatch-" + str(ev.get("impl")), "kind": "b2",
                       "summary": "%s: delivered instances / terminal result differ from the reference matcher: status=%s err=%s out=%s" % (
                           ev.get("impl"), ev.get("status"), ev.get("errname"), ev.get("out")),
                       "case": {"h": ev.get("h"), "input": ev.get("input")}, "observed": ev})
    rep.cov["rule"] = ("B1: every well-formed hierarchy (N declarations, groups, min 0..2, max 1/2/unbounded, every target) x every unit "
                       "sequence over {A,B,X} up to MaxIn, expectations from the reference matcher in Hierarchy.tla, replayed on "
                       "flatfile.HierarchyReader (scripted RecReader), csv2, fixedlength2 and edi (inputs with and without final "
                       "terminator, blank lines, non-UTF-8 segment names); B2: random hierarchies (<=6/8 declarations) and unit "
                       "sequences (<=24/40) checked by TLC against Ref. non-trivial: >=2 units, a delivery or fatal end, a group or max>1")
    rep.cov["exhaustive"] = True
