"""C02 - emitted JSON equals the documented evaluation of FINAL_OUTPUT (DESIGN.md 5/C02)."""
import os
from concurrent.futures import ThreadPoolExecutor
import vlib
from vlib import log

LEVEL = "model_checking"


def handle(rep, recs):
    for x in recs:
        k = x.get("kind")
        if k == "violation":
            if x.get("property") == "C02":
                rep.violation(x)
            else:
                rep.notes.append("observed a %s violation while exercising C02: %s" % (x.get("property"), x.get("summary")))
        elif k == "summary":
            rep.add_summary(x)
            if (x.get("extra") or {}).get("schema_rejected", 0) and rep.violations:
                # the library already refuses template renderings whose inlined form it accepts (reported above): further
                # refusals by a random / stream driver are the same behaviour, not a generator fault
                rep.notes.append("%d more schemas were rejected by NewSchema after violations had been established" % x["extra"]["schema_rejected"])
            elif (x.get("extra") or {}).get("schema_rejected", 0):
                raise vlib.Inconclusive("NewSchema rejected %d schemas rendered from well-formed declaration trees: the generator "
                                        "does not match the schema grammar" % x["extra"]["schema_rejected"])
        elif k == "schema_rejected":
            log("schema_rejected:", str(x)[:600])


def run(tier, rep):
    thorough = tier == "thorough"
    rep.assumptions += [
        "xpaths of declarations: a, b, *, a/b, .., ../a, ../b and the positional forms a[1], a[2], a[last()], *[last()], *[2], a/b[last()] (XPath 1.0 2.4: rank among the nodes the step selects from the same context node; text siblings neither count nor interrupt)",
        "declaration kinds: field, const, external, object, array, custom_func (concat, coalesce, upper, and a user function with the typed signature (string, int64, float64, bool) registered by an Extension), field with computed xpath (xpath_dynamic: field or const; only computed values that denote an existing path name, nothing, or a failure); "
        "template and constant xpath_dynamic are also exercised as alternative renderings of the same tree (inlined = referenced; constant xpath_dynamic = xpath)",
        "streams (Stream.tla) are replayed as XML only: the documents have equally named siblings, which JSON objects cannot express",
        "types: none/int/float/boolean/string over the alphabet {1,2,x,y,space} for texts, and the full conversion matrix over typed sources (script results int 7, float 1.5, bool true, strings '1' '1.5' 'x' 'true'); calls are well-typed (ill-typed custom_func arguments are C03's concern)",
        "a kept empty object/array/null is compared modulo rendering ({} = [] = null): the statement fixes omission, not rendering",
    ]
    jobs = [("collide", dict(Family='"collide"', M=5, Part=0, Parts=1, EmitMod=1, DocN=3)),
            ("order", dict(Family='"order"', M=13, Part=0, Parts=1, EmitMod=1, DocN=2)),
            ("cast", dict(Family='"cast"', M=3, Part=0, Parts=1, EmitMod=1 if thorough else 3, DocN=2)),
            ("ietwin", dict(Family='"ietwin"', M=4, Part=0, Parts=1, EmitMod=1, DocN=1)),
            ("sig", dict(Family='"sig"', M=6, Part=0, Parts=1, EmitMod=1 if thorough else 2, DocN=3 if thorough else 2)),
            ("dyn", dict(Family='"dyn"', M=5, Part=0, Parts=1, EmitMod=1 if thorough else 2, DocN=3)),
            ("pos", dict(Family='"pos"', M=4, Part=0, Parts=1, EmitMod=16 if thorough else 12, DocN=5 if thorough else 4)),
            ("tplshare", dict(Family='"tplshare"', M=6, Part=0, Parts=1, EmitMod=1, DocN=3)),
            ("all M=2", dict(Family='"all"', M=2, Part=0, Parts=1, EmitMod=1, DocN=3))]
    if thorough:
        jobs += [("all M=3", dict(Family='"all"', M=3, Part=0, Parts=1, EmitMod=1, DocN=3))]
        jobs += [("all M=4 part %d/5" % p, dict(Family='"all"', M=4, Part=p, Parts=5, EmitMod=40, DocN=2)) for p in range(5)]
    else:
        jobs += [("all M=3 part %d/2" % p, dict(Family='"all"', M=3, Part=p, Parts=2, EmitMod=3, DocN=2)) for p in range(2)]

    def one(job):
        name, c = job
        if name == "stream":
            return name, vlib.tlc("MC_Stream", "MC_Stream.cfg", consts=c, timeout=6000, workers=4)
        consts = {k: str(v) for k, v in c.items()}
        consts.update(KeyHasAnchor="TRUE", SortByFqdn="FALSE", EmitCases="TRUE")
        return name, vlib.tlc("MC_Eval", "MC_Eval.cfg", consts=consts, timeout=6000, workers=4)

    # Stream.tla: whole inputs of several records, declarations that leave the record; the design with one ParseCtx per
    # record (Shared = FALSE) satisfies StreamCacheInvisible, its cases are replayed on the real Transform
    stream_job = ("stream", dict(MaxKids="4" if thorough else "3", Shared="FALSE", EmitCases="TRUE", EmitMod="4" if thorough else "1"))
    with ThreadPoolExecutor(max_workers=4) as ex:
        results = list(ex.map(one, [stream_job] + jobs))
    _, sr = results.pop(0)
    k = 0
    for name, r in results:
        rep.add_tlc("MC_Eval(%s)" % name, r)
        if not vlib.tlc_ok(r, name):
            log(r.out[-3000:])
            raise vlib.Inconclusive("the Eval model violates %s (cached evaluator vs documented evaluation): specification problem" % r.violated)
        p = os.path.join(vlib.scratch(), "c02.cases.%d.ndjson" % k)
        k += 1
        vlib.write_ndjson(p, r.cases)
        del r.cases[:]
        recs, _ = vlib.run_vh(["c02-replay", p], timeout=6000)
        handle(rep, recs)
        os.remove(p)
    r = sr
    rep.add_tlc("MC_Stream", r)
    if not vlib.tlc_ok(r, "MC_Stream"):
        log(r.out[-3000:])
        raise vlib.Inconclusive("Stream.tla violates %s: specification problem" % r.violated)
    p = os.path.join(vlib.scratch(), "c02.stream.ndjson")
    vlib.write_ndjson(p, r.cases)
    del r.cases[:]
    recs, _ = vlib.run_vh(["c02-stream", p], timeout=6000)
    handle(rep, recs)
    os.remove(p)
    if thorough:   # sensitivity of the specification itself: the shared-context design must be refuted
        r = vlib.tlc("MC_Stream", "MC_Stream.cfg", consts=dict(MaxKids="3", Shared="TRUE"), timeout=3000)
        if r.violated != "StreamCacheInvisible":
            raise vlib.Inconclusive("Stream.tla does not refute the design with one result cache for the whole stream (got %s)" % r.violated)
        rep.notes.append("MC_Stream with Shared = TRUE is refuted (StreamCacheInvisible), as it must be")
    tr = os.path.join(vlib.scratch(), "c02.trace.ndjson")
    recs, _ = vlib.run_vh(["c02-drive", tr] + (["2500", "10", "10"] if thorough else ["250", "8", "8"]))
    handle(rep, recs)
    for rj in vlib.validate_traces(rep, "Trace_Eval", "Trace_Eval.cfg", tr, timeout=3000):
        ev = rj["failing_event"]
        rep.violation({"property": "C02", "key": "eval-mismatch-random", "kind": "b2",
                       "summary": "emitted JSON differs from the documented evaluation: input %s got %s" % (ev.get("input"), ev.get("got")),
                       "schema": ev.get("schema"), "input": ev.get("input"), "format": ev.get("format"), "actual": ev.get("got")})
    rep.cov["rule"] = ("B1: declaration trees (M nodes over 34 node variants: field/const/object/array/concat x xpath x type x no_trim x keep) "
                       "x records (<=3 nodes), plus the directed families 'collide' (identical declarations in anchoring and non-anchoring "
                       "position), 'order' (array with 11 elements) and 'dyn' (xpath_dynamic whose computation succeeds, is empty or fails, next to a "
                       "declaration with the same text), 'tplshare' (two objects with equal bodies, the first anchored and the second not: in the template rendering one template referenced from two sites - declarations with equal bodies share a template), 'pos' (fields, array elements and object anchors whose xpath carries a positional predicate - n[1], n[2], n[last()], *[last()], *[2], a/b[last()] - over records of <=4 (thorough: <=5, 2 033 984 states) nodes with equally named siblings separated by text), 'cast' (every typed source x every result type), 'ietwin' (script calls differing only in ignore_error, one throwing), 'sig' (a call of a user function (string, int64, float64, bool) with every argument present, absent or empty: absent ones arrive as their own parameter's zero value); Stream.tla: every input of <=3/4 records and persistent siblings x targets /*/b, /*/* x declaration "
                       "trees that read outside the record (`..`-anchored objects, ../a, ../b), expected value per record from the partial tree at "
                       "delivery time; each rendered three ways (inline, every subtree as a template, "
                       "xpath_dynamic) for XML and JSON input; expectations from RefEval in Eval.tla. B2: random trees (<=8/10 nodes) and "
                       "records checked by TLC. non-trivial: >=3 declarations, an anchoring xpath, result neither null nor a failure")
