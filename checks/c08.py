"""C08 - JSON and XML documents are represented faithfully in the node tree (DESIGN.md 5/C08)."""
import os
import vlib
from vlib import log

LEVEL = "model_checking"


def handle(rep, recs):
    for x in recs:
        if x.get("kind") == "violation":
            rep.violation(x)
        elif x.get("kind") == "summary":
            rep.add_summary(x)


def run(tier, rep):
    thorough = tier == "thorough"
    rep.assumptions += [
        "JSON values have unique keys within an object (the property's quantifier); numbers are compared at float64 precision via encoding/json",
        "XML reference DOM = encoding/xml events with one prefix per namespace URI (the decoder reports URIs only); comments and processing instructions are not represented in either tree",
    ]
    r = vlib.tlc("MC_DocTree", "MC_DocTree.cfg", consts={"Depth": "1", "Width": "3" if thorough else "2", "InferArrays": "FALSE", "EmitCases": "TRUE", "EmitMod": "1"},
                 timeout=3000, workers=4)
    rep.add_tlc("MC_DocTree(depth 1)", r)
    if not vlib.tlc_ok(r, "MC_DocTree"):
        log(r.out[-3000:])
        raise vlib.Inconclusive("the DocTree model violates %s: specification problem" % r.violated)
    p = os.path.join(vlib.scratch(), "c08.cases.ndjson")
    vlib.write_ndjson(p, r.cases)
    recs, _ = vlib.run_vh(["c08-replay", p], timeout=3000)
    handle(rep, recs)
    tr = os.path.join(vlib.scratch(), "c08.trace.ndjson")
    recs, _ = vlib.run_vh(["c08-drive", tr, "30000" if thorough else "400"], timeout=3000)
    handle(rep, recs)
    for rj in vlib.validate_traces(rep, "Trace_DocTree", "Trace_DocTree.cfg", tr, timeout=3000):
        ev = rj["failing_event"]
        rep.violation({"property": "C08", "key": "json-roundtrip-random", "kind": "b2",
                       "summary": "JSON %s does not convert back to an equal value" % ev.get("json"), "json": ev.get("json"), "back": ev.get("back")})
    recs, _ = vlib.run_vh(["c08-xml", "40000" if thorough else "400"], timeout=3000)
    handle(rep, recs)
    # XML namespaces (XMLTree.tla): every document of N elements with declarations, re-declarations and shadowing in which
    # each used URI is bound by exactly one prefix in scope; the declaration-stack design of the code must report the
    # prefixes as written; replayed on the real reader
    for n, mod in ((("2", "1"), ("3", "1")) if thorough else (("2", "1"), ("3", "4"))):
        r = vlib.tlc("MC_XMLTree", "MC_XMLTree.cfg", consts={"N": n, "Variant": '"stack"', "EmitCases": "TRUE", "EmitMod": mod}, timeout=3000)
        rep.add_tlc("MC_XMLTree(N=%s)" % n, r)
        if not vlib.tlc_ok(r, "MC_XMLTree"):
            log(r.out[-3000:])
            raise vlib.Inconclusive("XMLTree.tla: the declaration-stack design violates %s: specification problem" % r.violated)
        p = os.path.join(vlib.scratch(), "c08.ns.%s.ndjson" % n)
        vlib.write_ndjson(p, r.cases)
        del r.cases[:]
        recs, _ = vlib.run_vh(["c08-ns", p], timeout=3000)
        handle(rep, recs)
    if thorough:   # the two map-based designs the code had before must be refuted by the specification
        for variant, n in (('"map-leaky"', "2"), ('"map-restore"', "3")):
            r = vlib.tlc("MC_XMLTree", "MC_XMLTree.cfg", consts={"N": n, "Variant": variant}, timeout=3000)
            if not r.violated:
                raise vlib.Inconclusive("XMLTree.tla does not refute the %s design" % variant)
            rep.notes.append("MC_XMLTree refutes the %s design at N=%s (%s)" % (variant, n, r.violated))
    rep.cov["rule"] = ("JSON: every value of depth<=1 (width<=2/3, keys {'',a,b}, scalars null/true/0/1.5/''/x) as token stream; TLC checks "
                       "ToTokens(Build(v)) = v on the reader/marshal model; each replayed on the real JSONStreamReader + J2NodeToInterface/JSONify2 + "
                       "the copy function through a Transform, in a plain and a payload-substituted rendering (unicode, escapes, -0, 1e3, 2^53+1, 1e308); "
                       "random values up to depth 4 re-built by TLC. XML: hand-written and random documents (attributes, default/prefixed namespaces, "
                       "mixed content, CDATA, entities, comments, PIs) compared with an independent DOM; namespaces: every document of 2 (3: sampled 1/4 quick, all thorough) "
                       "elements over prefixes {none,p,q}, URIs {u,v}, declarations on any element (XMLTree.tla), prefixes as written expected. non-trivial: depth>=2 / empty key / namespace prefix")
    rep.cov["exhaustive"] = True
