"""C01 - Read/RawRecord result-stream contract (DESIGN.md 5/C01)."""
import os
import vlib
from vlib import log

LEVEL = "model_checking"


def run(tier, rep):
    thorough = tier == "thorough"
    rep.assumptions += [
        "scripted ingester results are limited to ok/continuable/fatal/eof with 2 distinguishable values each",
        "error identity in traces of the built-in formats is (class, message text)",
        "the record a RawRecord describes is identified in format traces by its checksum (exact identity is checked on the scripted ingester)",
    ]
    # 1. the design: all scripts x all call words
    consts = {"MaxLen": 4 if thorough else 3, "MaxCalls": 8 if thorough else 6, "EmitCases": "TRUE"}
    r = vlib.tlc("MC_Transform", "MC_Transform.cfg", consts=consts, timeout=3000, coverage=False)
    rep.add_tlc("MC_Transform(MaxLen=%s,MaxCalls=%s)" % (consts["MaxLen"], consts["MaxCalls"]), r)
    if not vlib.tlc_ok(r, "MC_Transform"):
        log(r.out[-3000:])
        raise vlib.Inconclusive("the Transform model violates %s: the specification is wrong, no verdict on the code" % r.violated)
    if not r.cases:
        raise vlib.Inconclusive("TLC emitted no cases")
    if thorough:   # the same contract for scripts and call words of any length: inductive invariant, TLA+ proof system
        ok, n, out = vlib.tlaps("Transform_proof")
        if not ok:
            log(out[-2000:])
            raise vlib.Inconclusive("tlapm could not prove Transform_proof.tla")
        rep.notes.append("Transform_proof.tla: all %d proof obligations discharged by tlapm (Shape, TerminalSticky, RawGate for unbounded histories)" % n)
        log("[tlaps] Transform_proof: all %d obligations proved" % n)
    # 2. B1: replay on the real omniparser.Transform through a scripted Extension
    cases = os.path.join(vlib.scratch(), "c01.cases.ndjson")
    vlib.write_ndjson(cases, r.cases)
    recs, _ = vlib.run_vh(["c01-replay", cases])
    handle(rep, recs)
    # 3. B2: traces of the seven built-in formats
    tr = os.path.join(vlib.scratch(), "c01.trace.ndjson")
    recs, _ = vlib.run_vh(["c01-drive", tr, "60" if thorough else "8"])
    handle(rep, recs)
    for rj in vlib.validate_traces(rep, "Trace_Transform", "Trace_Transform.cfg", tr):
        rep.violation({"property": "C01", "key": "trace-rejected", "kind": "b2",
                       "summary": "Trace_Transform rejects event %d of trace %s (%s): %s" % (
                           rj["failing_index"], rj["trace"], rj["tlc"], rj["failing_event"]),
                       "trace": rj["events"][: rj["failing_index"] + 3]})
    # the Release / Read discipline between ingester and FormatReader, on recorded call sequences of all seven readers
    vlib.ingester_protocol(rep, "C01", thorough)
    rep.cov["rule"] = ("B1: every ingester script (<=MaxLen results over ok/cont/fatal/eof x 2 values, junk bytes) x every call word "
                       "over {Read,RawRecord} of length MaxCalls, expectations from Transform.tla; B2: read loops over repo samples + "
                       "harness schemas with intact/truncated/flipped/spliced/doubled/empty inputs and random call words that keep "
                       "calling after the terminal result. non-trivial: a call after a terminal result or RawRecord after a failed Read")
    rep.cov["exhaustive"] = True


def handle(rep, recs):
    for x in recs:
        if x.get("kind") == "violation":
            rep.violation(x)
        elif x.get("kind") == "summary":
            rep.add_summary(x)


def replay(path):
    import json
    v = json.load(open(path))
    print(json.dumps(v, indent=1)[:4000])
    return 0
