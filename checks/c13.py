"""C13 - caches and pools are semantically invisible (DESIGN.md 5/C13)."""
import os
import vlib
from vlib import log

LEVEL = "model_checking"


def run(tier, rep):
    thorough = tier == "thorough"
    rep.assumptions += [
        "configurations: node pool on/off x transform result cache on/off x JS caches (program cache, VM pool, node-JSON cache) on/off/capacity-1 "
        "x compiled-xpath cache default/capacity-1 = 24, each run twice (cold, warm) over the whole corpus in one process; golden = everything off",
        "pool history: every compact item right after transforms of another format (namespaced XML, typed JSON) with garbage collection held off, pool on vs pool off",
        "lru and sync.Pool themselves are trusted; what is checked is that the keys/reset obligations the code uses make them invisible",
    ]
    # design level: the cached evaluator equals the cache-free reference for every declaration tree (shared with C02),
    # with the cache key as the code has it (KeyHasAnchor = TRUE after fix 2699cfa)
    consts = dict(Family='"collide"', M="5", Part="0", Parts="1", EmitMod="1", DocN="3" if thorough else "2",
                  KeyHasAnchor="TRUE", SortByFqdn="FALSE", EmitCases="FALSE")
    if thorough:
        consts.update(Family='"all"', M="3")
        r = vlib.tlc("MC_Eval", "MC_Eval.cfg", consts=consts, timeout=3000, workers=4)
        rep.add_tlc("MC_Eval(all M=3: cache on = cache off)", r)
        if not vlib.tlc_ok(r, "MC_Eval"):
            raise vlib.Inconclusive("the Eval model violates %s: specification problem" % r.violated)
    # B1: the cases of the families in which the cached evaluator was compared with the cache-free one, on the real
    # Transform with every cache off and with every cache on
    fams = [("collide", dict(Family='"collide"', M="5", DocN="3" if thorough else "2")), ("ietwin", dict(Family='"ietwin"', M="4", DocN="1")),
            ("dyn", dict(Family='"dyn"', M="5", DocN="3", EmitMod="1" if thorough else "2")),
            ("sig", dict(Family='"sig"', M="6", DocN="2", EmitMod="1" if thorough else "4"))]
    recs = []
    for k, (name, fc) in enumerate(fams):
        cc = dict(consts, EmitCases="TRUE", **fc)
        r = vlib.tlc("MC_Eval", "MC_Eval.cfg", consts=cc, timeout=3000, workers=4)
        rep.add_tlc("MC_Eval(%s: cases for the cache on/off replay)" % name, r)
        if not vlib.tlc_ok(r, "MC_Eval") or not r.cases:
            raise vlib.Inconclusive("the Eval model violates %s or emitted no cases: specification problem" % r.violated)
        p = os.path.join(vlib.scratch(), "c13.cases.%d.ndjson" % k)
        vlib.write_ndjson(p, r.cases)
        del r.cases[:]
        rr, _ = vlib.run_vh(["c13-replay", p], timeout=3000)
        recs += rr
        os.remove(p)
    tr = os.path.join(vlib.scratch(), "c13.trace.ndjson")
    rr, _ = vlib.run_vh(["c13-drive", tr], timeout=3000)
    recs += rr
    for x in recs:
        if x.get("kind") == "violation":
            rep.violation(x)
        elif x.get("kind") == "summary":
            rep.add_summary(x)
    for rj in vlib.validate_traces(rep, "Trace_Runs", "Trace_Runs.cfg", tr, timeout=3000, max_reject=12):
        bad = [e for e in rj["events"] if e.get("ev") == "same" and e.get("results") != rj["events"][0].get("results")]
        cfgs = [e.get("config") for e in bad]
        item = rj["failing_event"].get("item")
        if cfgs and all("right after" in c for c in cfgs):
            key = "pool-history-visible:%s:%s" % (item, cfgs[0].split("right after ")[-1])
        elif cfgs and all("js=off" not in c for c in cfgs):
            key = "js-caches-visible:" + str(item)
        else:
            key = "cache-visible:%s:%s" % (item, cfgs[:3])
        rep.violation({"property": "C13", "key": key, "kind": "b3",
                       "summary": "%s: results differ from the all-caches-off run under %d configuration(s), e.g. %s" % (item, len(cfgs), cfgs[:2]),
                       "item": item, "configs": cfgs, "all_off": rj["events"][0].get("results"), "example": bad[0].get("results") if bad else None})
    rep.cov["rule"] = ("B1: the (declaration tree, record) cases of MC_Eval's families collide / ietwin / dyn / sig, each on the real Transform with all caches off and all caches on (inline and template rendering, XML and JSON); B3: 24 cache/pool configurations x (repo samples, harness schemas for all formats/encodings, schemas with textually identical "
                       "declarations at anchoring and non-anchoring positions, shared templates, xpath_dynamic, javascript_with_context on the record "
                       "and on an ancestor), cold and warm; TLC requires every transcript to equal the all-off transcript. non-trivial: a run with >=2 records")
    rep.cov["exhaustive"] = True
