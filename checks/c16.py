"""C16 - input reader failures end the transform with a fatal error (DESIGN.md 5/C16)."""
import os
import vlib
from vlib import log

LEVEL = "fault_enumeration"


def handle(rep, recs):
    for x in recs:
        if x.get("kind") == "violation":
            rep.violation(x)
        elif x.get("kind") == "summary":
            rep.add_summary(x)


def run(tier, rep):
    thorough = tier == "thorough"
    rep.assumptions += [
        "faults: the io.Reader returns a non-EOF error once byte position p is reached and on every later call (same error, or a 'temporary' one first); "
        "positions: every byte for inputs up to 500 (thorough 4200) bytes, sampled beyond; delivery whole-buffer and 1-byte",
        "results before the fault are compared on (class, output bytes); messages carry positions that legitimately differ",
    ]
    # design level: with the reader's failure classified as non-continuable the latch makes it terminal at once;
    # classified as continuable (what the legacy csv reader did) TLC exhibits the endless run of per-record failures
    r = vlib.tlc("MC_Transform", "MC_Transform.cfg", consts={"MaxLen": "3", "MaxCalls": "6", "EmitCases": "FALSE", "FaultClass": '"fatal"'}, timeout=3000)
    rep.add_tlc("MC_Transform(iofail classified fatal)", r)
    if not vlib.tlc_ok(r, "MC_Transform"):
        raise vlib.Inconclusive("Transform.tla violates %s: specification problem" % r.violated)
    r2 = vlib.tlc("MC_Transform", "MC_Transform.cfg", consts={"MaxLen": "2", "MaxCalls": "5", "EmitCases": "FALSE", "FaultClass": '"cont"'}, timeout=3000)
    rep.add_tlc("MC_Transform(iofail classified continuable)", r2)
    rep.notes.append("latch model with a reader failure classified continuable: FaultIsTerminal %s" % ("violated, as expected" if r2.violated else "holds"))
    tr = os.path.join(vlib.scratch(), "c16.trace.ndjson")
    recs, _ = vlib.run_vh(["c16-drive", tr] + (["4200", "300", "big"] if thorough else ["500", "40"]), timeout=3400)
    handle(rep, recs)
    for rj in vlib.validate_traces(rep, "Trace_Runs", "Trace_Runs.cfg", tr, timeout=3000, max_reject=12):
        ev = rj["failing_event"]
        d = ev.get("desc", {})
        what = "never surfaces a fatal error (endless per-record failures)" if ev.get("lastclass") == "failed" else \
               "reports EOF although records of the fault-free run are missing" if ev.get("lastclass") == "eof" else \
               "terminal error not sticky" if ev.get("sticky") is False else "results before the failure differ from the fault-free run"
        rep.violation({"property": "C16", "key": "fault-%s-%s" % (ev.get("format"), ev.get("lastclass")), "kind": "b3",
                       "summary": "%s: reader failure at byte %s (%s, one_byte=%s): %s; classes=%s" % (
                           d.get("item"), d.get("pos"), d.get("mode"), d.get("one_byte"), what, ev.get("classes")),
                       "item": d.get("item"), "pos": d.get("pos"), "mode": d.get("mode"), "one_byte": d.get("one_byte"),
                       "faulted": ev.get("faulted"), "fault_free": ev.get("base"), "last_error": ev.get("lasterr")})
    rep.cov["rule"] = ("per corpus input (7 formats, encodings, BOM, generated multi-row inputs, csv with skipped header rows): fault-free run, "
                       "then a run per (fault position, persistent | temporary-then-persistent, whole-buffer | 1-byte delivery); TLC checks each "
                       "against Trace_Runs!Fault (bounded reads to a fatal sticky error; prefix equality; EOF only if nothing is missing). "
                       "non-trivial: the fault falls strictly inside the input")
