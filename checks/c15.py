"""C15 - results and checksums are a deterministic function of schema and input (DESIGN.md 5/C15)."""
import json, os, subprocess
import vlib
from vlib import log

LEVEL = "exploration"


def run(tier, rep):
    thorough = tier == "thorough"
    rep.assumptions += [
        "histories: N fresh processes, each running the whole corpus twice in its own seeded order (so every item runs after a different set of "
        "earlier transforms, with pools/caches warm and the ID counter advanced), plus fresh processes that run a single item only",
        "the `now` function and randomness-drawing scripts are excluded (not in the corpus)",
        "every process runs under another TZ / locale environment (UTC, Asia/Tokyo, America/St_Johns, ...): the process environment is not an argument of the function",
    ]
    vh = vlib.build_harness()
    nproc = 16 if thorough else 3
    runs = []  # (proc, item, occ, results)
    # the environment of the process is not an argument of the function either: every process gets another local zone / locale
    envs = [{"TZ": "UTC"}, {"TZ": "Asia/Tokyo", "LANG": "ja_JP.UTF-8"}, {"TZ": "America/St_Johns", "LC_ALL": "C"},
            {"TZ": "Pacific/Chatham"}, {"TZ": "Europe/Berlin", "LANG": "de_DE.ISO-8859-1"}, {"TZ": "America/Los_Angeles"}]
    for k in range(nproc):
        out = os.path.join(vlib.scratch(), "c15.proc%d.ndjson" % k)
        recs, _ = vlib.run_vh(["c15-run", out, str(k)], env=envs[k % len(envs)])
        for x in recs:
            if x.get("kind") == "summary":
                rep.add_summary(x)
        runs += vlib.read_ndjson(out)
    items = sorted({r["item"] for r in runs})
    singles = items[:: max(1, len(items) // (40 if thorough else 5))]
    # and the items that come with an Extension of their own or use the functions an Extension may re-bind
    singles += [n for n in items if (n.startswith("c13/ext-") or n.startswith("c13/builtin-")) and n not in singles]
    for i, name in enumerate(singles):
        out = os.path.join(vlib.scratch(), "c15.single%d.ndjson" % i)
        recs, _ = vlib.run_vh(["c15-run", out, str(100 + i), "only=" + name], env=envs[(i + 1) % len(envs)])
        for x in recs:
            if x.get("kind") == "summary":
                rep.add_summary(x)
        for r in vlib.read_ndjson(out):
            r["proc"] = "fresh-single"
            runs.insert(0, r)   # a fresh process running only this item is the purest golden
    events = []
    for t, name in enumerate(items):
        fam = [r for r in runs if r["item"] == name]
        events.append({"ev": "golden", "tr": t + 1, "item": name, "results": fam[0]["results"], "proc": fam[0]["proc"]})
        for r in fam[1:]:
            events.append({"ev": "same", "tr": t + 1, "item": name, "results": r["results"], "proc": r["proc"], "pos": r.get("pos"), "occ": r.get("occ")})
    tr = os.path.join(vlib.scratch(), "c15.trace.ndjson")
    vlib.write_ndjson(tr, events)
    rep.cov["traces_validated_against_impl"] += len(events)
    for rj in vlib.validate_traces(rep, "Trace_Runs", "Trace_Runs.cfg", tr, name="Trace_Runs(histories)", timeout=3000):
        ev = rj["failing_event"]
        rep.violation({"property": "C15", "key": "history-dependent:" + str(ev.get("item")), "kind": "b3",
                       "summary": "%s: run no. %s in process %s (position %s of its history) differs from the golden run" % (
                           ev.get("item"), ev.get("occ"), ev.get("proc"), ev.get("pos")),
                       "item": ev.get("item"), "results": ev.get("results"), "golden": rj["events"][0].get("results")})
    # checksum sensitivity
    st = os.path.join(vlib.scratch(), "c15.sums.ndjson")
    recs, _ = vlib.run_vh(["c15-sums", st])
    for x in recs:
        if x.get("kind") == "summary":
            rep.add_summary(x)
    for rj in vlib.validate_traces(rep, "Trace_Runs", "Trace_Runs.cfg", st, name="Trace_Runs(checksums)", timeout=3000, max_reject=20):
        ev = rj["failing_event"]
        if ev.get("ev") == "distinct":
            rep.violation({"property": "C15", "key": "checksum-insensitive:%s:%s" % (ev.get("format"), ev.get("what")), "kind": "b3",
                           "summary": "%s raw records that differ in %s have the same checksum %s" % (ev.get("format"), ev.get("what"), ev.get("x")),
                           "a": ev.get("a"), "b": ev.get("b"), "checksum": ev.get("x")})
        else:
            rep.violation({"property": "C15", "key": "checksum-unstable:%s" % ev.get("format"), "kind": "b3",
                           "summary": "the same raw record has two checksums", "rec": ev.get("rec"), "x": ev.get("x"), "y": ev.get("y")})
    rep.cov["rule"] = ("histories: %d fresh processes x (corpus twice, seeded order) + fresh single-item processes; every transcript "
                       "(class, output, error text, checksum) must equal the item's golden one (TLC, Trace_Runs Same). checksums: per format, "
                       "equal raw records => equal checksum; pairs differing in exactly one ingested value => distinct checksum. "
                       "non-trivial: a run that has at least one earlier transform in its process" % nproc)
