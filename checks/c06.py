"""C06 - delimited and fixed-length fields carry exactly the input text (DESIGN.md 5/C06)."""
import os
import vlib
from vlib import log

LEVEL = "model_checking"


def handle(rep, recs):
    for x in recs:
        if x.get("kind") == "violation":
            rep.violation(x)
        elif x.get("kind") == "summary":
            rep.add_summary(x)


def run(tier, rep):
    thorough = tier == "thorough"
    rep.assumptions += [
        "RFC 4180 text is produced by the harness's 15-line encoder and decoded by encoding/csv inside the readers; where RFC 4180 and the decoder's documented rules differ the generator stays inside their intersection (no CR LF inside quoted fields, quotes only at field start)",
        "the order of column nodes inside a record is not compared (the statement is about each column's text)",
        "one record declaration repeated; hierarchies of declarations are C05's subject",
    ]
    r = vlib.tlc("MC_FlatLines", "MC_FlatLines.cfg", consts={"MaxLines": "4" if thorough else "3", "EmitCases": "TRUE", "EmitMod": "12" if thorough else "1"},
                 timeout=6000, workers=8)
    rep.add_tlc("MC_FlatLines", r)
    if not vlib.tlc_ok(r, "MC_FlatLines"):
        log(r.out[-3000:])
        raise vlib.Inconclusive("FlatLines.tla: the buffer model and the reference disagree (%s): specification problem" % r.violated)
    p = os.path.join(vlib.scratch(), "c06.cases.ndjson")
    vlib.write_ndjson(p, r.cases)
    del r.cases[:]
    recs, _ = vlib.run_vh(["c06-replay", p], timeout=6000)
    handle(rep, recs)
    # legacy fixed-length, by_header_footer envelopes (FixedLegacy.tla): declaration order, repetition, not_target, end of reading
    r = vlib.tlc("MC_FixedLegacy", "MC_FixedLegacy.cfg", consts={"MaxLines": "4" if thorough else "3", "EmitCases": "TRUE", "EmitMod": "40" if thorough else "6"}, timeout=3000)
    rep.add_tlc("MC_FixedLegacy", r)
    if not vlib.tlc_ok(r, "MC_FixedLegacy"):
        raise vlib.Inconclusive("FixedLegacy.tla violates %s: specification problem" % r.violated)
    p = os.path.join(vlib.scratch(), "c06.legacy.ndjson")
    vlib.write_ndjson(p, r.cases)
    del r.cases[:]
    recs, _ = vlib.run_vh(["c06-legacy", p], timeout=3000)
    handle(rep, recs)
    recs, _ = vlib.run_vh(["c06-boundary"], timeout=3000)
    handle(rep, recs)
    tr = os.path.join(vlib.scratch(), "c06.trace.ndjson")
    recs, _ = vlib.run_vh(["c06-drive", tr, "400" if thorough else "50"], timeout=3000)
    handle(rep, recs)
    for rj in vlib.validate_traces(rep, "Trace_FlatLines", "Trace_FlatLines.cfg", tr, timeout=3000):
        ev = rj["failing_event"]
        rep.violation({"property": "C06", "key": "csv2-table-mismatch", "kind": "b2",
                       "summary": "csv2 table (decl %s, cols %s, delimiter %r): observed records / end (%s %s) differ from the reference" % (
                           ev.get("decl"), ev.get("cols"), ev.get("delim"), ev.get("end"), ev.get("detail")),
                       "event": {k: ev.get(k) for k in ("decl", "cols", "end", "detail", "delim")}, "first_lines": ev.get("lines", [])[:6], "first_obs": ev.get("obs", [])[:3]})
    # legacy csv: header_row_index / data_row_index are physical line numbers (CsvSkip.tla): the code's loop against the fold
    # over records, the design that counts one line per record refuted, every case on the real reader
    r = vlib.tlc("MC_CsvSkip", "MC_CsvSkip.cfg", consts={"MaxLen": "5" if thorough else "4", "MaxRow": "5" if thorough else "4", "EmitCases": "TRUE", "PerRead": "FALSE"}, timeout=3000)
    rep.add_tlc("MC_CsvSkip", r)
    if not vlib.tlc_ok(r, "MC_CsvSkip") or not r.cases:
        raise vlib.Inconclusive("CsvSkip.tla: the loop and the fold disagree (%s) or no cases: specification problem" % r.violated)
    p = os.path.join(vlib.scratch(), "c06.csvskip.ndjson")
    vlib.write_ndjson(p, r.cases)
    del r.cases[:]
    recs, _ = vlib.run_vh(["c06-csvskip", p], timeout=3000)
    handle(rep, recs)
    os.remove(p)
    if thorough:
        r = vlib.tlc("MC_CsvSkip", "MC_CsvSkip.cfg", consts={"MaxLen": "3", "MaxRow": "4", "EmitCases": "FALSE", "PerRead": "TRUE"}, timeout=3000)
        if r.violated != "Agree":
            raise vlib.Inconclusive("CsvSkip.tla does not refute the design that counts one line per record read (got %s)" % r.violated)
        rep.notes.append("MC_CsvSkip with PerRead = TRUE is refuted (Agree), as it must be")
    rep.cov["rule"] = ("B1: every table of <=3/4 lines over 13 line forms (blank, 1-2 fields, header/footer markers) x 4 record declarations (rows 1/2, "
                       "header only, header+footer) x 5 column sets (plain, line_index, line_pattern, beyond the row, duplicates); TLC checks the csv2 buffer "
                       "model = reference; each case replayed on csv2, fixedlength2, legacy fixed-length and legacy csv with seeded delimiter "
                       "(, | tab ; and 2-/3-byte runes), payload family (plain / quotes+delimiter+newline+blanks / >4 KiB / >64 KiB), CRLF and final terminator. "
                       "Legacy fixed-length by_header_footer: tables of <=3/4 lines x 1-2 envelope declarations (header/footer markers, footer on the header line, not_target) x 3 column sets, "
                       "expectations from FixedLegacy.tla. Boundary sweep: 3-row records whose rows are 4090..4100, 8190..8193 and 65534..65537 bytes long, LF and CRLF, rows-based and "
                       "header/footer, fixedlength2 and legacy fixed-length, head and tail columns of every row against the generated line. "
                       "B2: random tables of 20-80 lines with per-table payload dictionaries, re-evaluated by TLC. non-trivial: multi-line records or rich payloads")
    rep.cov["exhaustive"] = True
