"""C11 - xpath queries over the node tree agree with a reference XML DOM (DESIGN.md 5/C11)."""
import os
from concurrent.futures import ThreadPoolExecutor
import vlib
from vlib import log

LEVEL = "model_checking"


def run(tier, rep):
    thorough = tier == "thorough"
    rep.assumptions += [
        "reduction: the engine reaches a document only through xpath.NodeNavigator; equal answers of both navigators from every position imply equal query results",
        "quirks of the *reference* (xmlquery v1.3.1) are excluded from the observations: Value() of character data is \"\" there, NamespaceURL() on attributes reports the element's URI, and Parse adds a DeclarationNode under the document",
        "DomStep of Nav.tla is itself bound to the real reference navigator by the replay (a deviation is exit 2, not an alarm)",
    ]
    ns = [2, 3, 4] + ([5] if thorough else [])

    def one(n):
        return n, vlib.tlc("MC_Nav", "MC_Nav.cfg", consts={"N": str(n), "EmitCases": "TRUE"}, timeout=3000, workers=4)

    with ThreadPoolExecutor(max_workers=3) as ex:
        results = list(ex.map(one, ns))
    for n, r in results:
        rep.add_tlc("MC_Nav(N=%d)" % n, r)
        if not vlib.tlc_ok(r, "MC_Nav"):
            log(r.out[-3000:])
            raise vlib.Inconclusive("Nav.tla: the two navigator models are not bisimilar (%s): specification problem or a modelled defect" % r.violated)
        p = os.path.join(vlib.scratch(), "c11.cases.%d.ndjson" % n)
        vlib.write_ndjson(p, r.cases)
        recs, _ = vlib.run_vh(["c11-replay", p], timeout=3000)
        for x in recs:
            if x.get("kind") == "violation":
                rep.violation(x)
            elif x.get("kind") == "spec_mismatch":
                log("spec_mismatch:", str(x)[:400])
            elif x.get("kind") == "summary":
                rep.add_summary(x)
                if (x.get("extra") or {}).get("spec_mismatch", 0):
                    raise vlib.Inconclusive("the reference navigator deviates from Nav.tla's DomStep on %d steps" % x["extra"]["spec_mismatch"])
    tr = os.path.join(vlib.scratch(), "c11.trace.ndjson")
    recs, _ = vlib.run_vh(["c11-drive", tr, "25000" if thorough else "250"], timeout=3000)
    for x in recs:
        if x.get("kind") == "violation":
            rep.violation(x)
        elif x.get("kind") == "summary":
            rep.add_summary(x)
    for rj in vlib.validate_traces(rep, "Trace_Runs", "Trace_Runs.cfg", tr, timeout=3000):
        ev = rj["failing_event"]
        rep.violation({"property": "C11", "key": "expression-differs", "kind": "b2",
                       "summary": "xpath %s from %s: node tree returns %s, reference DOM %s" % (ev.get("expr"), ev.get("ctx"), str(ev.get("x"))[:200], str(ev.get("y"))[:200]),
                       "xml": ev.get("xml"), "expr": ev.get("expr"), "context": ev.get("ctx"), "idr": ev.get("x"), "dom": ev.get("y")})
    rep.cov["rule"] = ("B1: every XML-shaped tree with N nodes (N<=4/5), 0..2 attributes per element, every position (document, elements, texts, "
                       "attributes) x 6 move methods; expectations from Nav.tla replayed on both real navigators. B2: random documents (namespaces, "
                       "attributes, mixed content) x random expressions over 12 axes, 7 node tests, 20 predicate forms, from the document and inner "
                       "context nodes; result lists (name, string value, depth, sibling index) compared by TLC. non-trivial: attribute/text position or "
                       "a refused move; >=2 axes and a non-empty result")
    rep.cov["exhaustive"] = True
