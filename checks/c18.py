"""C18 - declared input encodings and byte-order marks are handled transparently (DESIGN.md 5/C18)."""
import os
import vlib
from vlib import log

LEVEL = "exploration"


def run(tier, rep):
    thorough = tier == "thorough"
    rep.assumptions += [
        "the code-page tables of Encoding.tla are what x/text v0.3.8 implements; all 512 (byte, encoding) pairs are replayed on the real decoder on every run (disagreement = exit 2, not an alarm)",
        "for the single-byte code pages the bytes EF BB BF are three characters of data (the BOM is a UTF-8 notion); BOM transparency is checked for declared/default utf-8",
    ]
    r = vlib.tlc("MC_Encoding", "MC_Encoding.cfg", timeout=1200, workers=4)
    rep.add_tlc("MC_Encoding(BOM machine over all chunkings; table ASSUMEs)", r)
    if not vlib.tlc_ok(r, "MC_Encoding"):
        raise vlib.Inconclusive("the Encoding model violates %s: specification problem" % r.violated)
    if len(r.cases) != 2:
        raise vlib.Inconclusive("TLC did not emit the two code-page tables")
    tables = os.path.join(vlib.scratch(), "c18.tables.ndjson")
    vlib.write_ndjson(tables, r.cases)
    tr = os.path.join(vlib.scratch(), "c18.trace.ndjson")
    recs, _ = vlib.run_vh(["c18-drive", tables, tr, "4000" if thorough else "25"], timeout=3000)
    for x in recs:
        if x.get("kind") == "violation":
            rep.violation(x)
        elif x.get("kind") == "spec_mismatch":
            log("spec_mismatch:", x)
        elif x.get("kind") == "summary":
            rep.add_summary(x)
            if (x.get("extra") or {}).get("spec_mismatch", 0):
                raise vlib.Inconclusive("the specification's code-page table disagrees with the real decoder on %d bytes" % x["extra"]["spec_mismatch"])
    for rj in vlib.validate_traces(rep, "Trace_Runs", "Trace_Runs.cfg", tr, timeout=3000):
        ev = rj["failing_event"]
        rep.violation({"property": "C18", "key": "encoding-visible:%s:%s" % (ev.get("item"), ev.get("enc") or "bom"), "kind": "b3",
                       "summary": "%s: %s gives results different from the utf-8 reference run; input %s" % (ev.get("item"), ev.get("desc"), ev.get("input")),
                       "item": ev.get("item"), "desc": ev.get("desc"), "input": ev.get("input"), "results": ev.get("results"),
                       "reference": rj["events"][0].get("results")})
    rep.cov["rule"] = ("per format: payloads covering every byte value 0..255 (8 consecutive values per input) + random byte strings, with and without "
                       "leading EF BB BF, under iso-8859-1 and windows-1252; golden = the same bytes converted to UTF-8 by Encoding.tla's table with utf-8 "
                       "declared; BOM / no BOM / BOM under 1-byte delivery for utf-8. TLC (Trace_Runs Same) requires identical transcripts. "
                       "non-trivial: a payload byte >= 0x80 or a BOM")
    rep.cov["exhaustive"] = True
