"""C20 - JavaScript calls are isolated from each other and map values faithfully (DESIGN.md 5/C20)."""
import os
import vlib
from vlib import log

LEVEL = "model_checking"


def run(tier, rep):
    thorough = tier == "thorough"
    rep.assumptions += [
        "scripts that themselves assign global variables are excluded (the property says so); probe scripts only read",
        "goja's VM is trusted; what is checked is the pool protocol around it (set / run / delete / put) and the node-JSON cache",
    ]
    r = vlib.tlc("MC_JSVM", "MC_JSVM.cfg", consts={"G": "2", "DeleteArgs": "TRUE", "CacheNodeJSON": "TRUE", "WithAncestor": "FALSE"}, timeout=3000)
    rep.add_tlc("MC_JSVM(2 goroutines x 2 calls, 2 VMs, record nodes)", r)
    if not vlib.tlc_ok(r, "MC_JSVM"):
        raise vlib.Inconclusive("the JSVM model violates %s: specification problem" % r.violated)
    if not r.cases:
        raise vlib.Inconclusive("TLC did not emit the value-mapping table")
    table = os.path.join(vlib.scratch(), "c20.table.ndjson")
    vlib.write_ndjson(table, r.cases[:1])
    # the model with calls on an ancestor node exhibits the stale _node (design-level counterpart of the known finding)
    r2 = vlib.tlc("MC_JSVM", "MC_JSVM.cfg", consts={"G": "1", "DeleteArgs": "TRUE", "CacheNodeJSON": "TRUE", "WithAncestor": "TRUE"}, timeout=3000)
    rep.add_tlc("MC_JSVM(with calls on an ancestor)", r2)
    rep.notes.append("model with javascript_with_context on an ancestor and the node-JSON cache on: Isolated %s" % ("violated (NodeCurrent)" if r2.violated else "holds"))
    tr = os.path.join(vlib.scratch(), "c20.trace.ndjson")
    recs, _ = vlib.run_vh(["c20-drive", tr, "30000" if thorough else "400", table], timeout=3000)
    for x in recs:
        if x.get("kind") == "violation":
            rep.violation(x)
        elif x.get("kind") == "summary":
            rep.add_summary(x)
            if (x.get("extra") or {}).get("vm_reuses", 0) < 10:
                raise vlib.Inconclusive("the driver did not observe VM reuse; the isolation clauses were not exercised")
    for rj in vlib.validate_traces(rep, "Trace_JSVM", "Trace_JSVM.cfg", tr, timeout=3000, max_reject=15):
        ev = rj["failing_event"]
        kind = ev.get("ev")
        if kind == "node":
            key, what = "node-json-stale:" + str(ev.get("on")), "_node shows %s but the node is now %s (round %s)" % (ev.get("seen"), ev.get("now"), ev.get("round"))
        elif kind == "value":
            key, what = "value-mapping:" + str(ev.get("kind")), "script %s: expected %s got %s" % (ev.get("script"), ev.get("expected"), ev.get("got"))
        elif kind == "call":
            key, what = "foreign-globals-visible", "a call with arguments %s saw %s" % (ev.get("args"), ev.get("visible"))
        else:
            key, what = "vm-protocol-" + str(kind), "VM %s: args %s globals %s" % (ev.get("vm"), ev.get("args"), ev.get("globals"))
        rep.violation({"property": "C20", "key": key, "kind": "b2", "summary": what, "event": ev})
    rep.cov["rule"] = ("model: all interleavings of 2 goroutines x 2 calls (argument sets over {x,y}, with/without record node) on 2 pooled VMs. code: "
                       "400/3000 sequential + 8-goroutine concurrent calls of the exported javascript function with random argument sets (string/int/"
                       "float/bool) and a probe script; every get/run/put of a pooled VM observed through the verif hook and checked by TLC (single owner, "
                       "globals at run = arguments, none left at put); _node on a recreated record node and on a mutating ancestor; the value-mapping "
                       "table of JSVM.tla replayed with several scripts per result kind. non-trivial: a reused VM")
