"""C19 - date-time functions preserve the instant and invert each other (DESIGN.md 5/C19)."""
import os
import vlib
from vlib import log

LEVEL = "exploration"


def run(tier, rep):
    thorough = tier == "thorough"
    rep.assumptions += [
        "zone offsets come from the tz database through Go's time package (trusted base); the calendar arithmetic and the overwrite/convert decision are the specification's own (DateTime.tla)",
        "RFC 3339 cannot express second-granular offsets (local mean time before standard time) and renderings outside years 1..9999: such zone/instant combinations are not generated",
        "sub-second inputs are compared at second resolution for RFC 3339 output and at millisecond resolution for MILLISECOND epochs; smart-parser layouts used: 5 date forms x T/space x 6 time forms x Z/offset/IANA suffixes",
    ]
    r = vlib.tlc("MC_DateTime", "MC_DateTime.cfg", timeout=600, workers=1)
    rep.add_tlc("MC_DateTime(decision table + calendar ASSUMEs)", r)
    if not vlib.tlc_ok(r, "MC_DateTime"):
        raise vlib.Inconclusive("DateTime.tla: %s" % r.violated)
    if len(r.cases) != 16:
        raise vlib.Inconclusive("TLC emitted %d decision-table rows instead of 16" % len(r.cases))
    rows = os.path.join(vlib.scratch(), "c19.rows.ndjson")
    vlib.write_ndjson(rows, r.cases)
    tr = os.path.join(vlib.scratch(), "c19.trace.ndjson")
    recs, _ = vlib.run_vh(["c19-drive", rows, tr, "20000" if thorough else "200"], timeout=3000)
    for x in recs:
        if x.get("kind") == "violation":
            rep.violation(x)
        elif x.get("kind") == "summary":
            rep.add_summary(x)
    for rj in vlib.validate_traces(rep, "Trace_DateTime", "Trace_DateTime.cfg", tr, timeout=3000):
        ev = rj["failing_event"]
        kind = ev.get("ev")
        key = {"conv": "instant-not-preserved", "epoch": "epoch-wrong-" + str(ev.get("unit")), "inv": "epoch-inverse-wrong-" + str(ev.get("unit")),
               "empty": "empty-not-empty", "bad": "unparsable-accepted"}.get(kind, kind)
        rep.violation({"property": "C19", "key": key, "kind": "b2",
                       "summary": "%s: %s -> %s" % (kind, ev.get("desc") or ev.get("epoch") or ev.get("in_text"), ev.get("result") or ev.get("out")),
                       "event": ev})
    rep.cov["rule"] = ("every row of the 16-row decision table (text has zone / layout given / fromTZ / toTZ) concretised for every instant of a grid "
                       "(years 1..9999 incl. 1677/1678, 1969/1970, 2038, 2262/2263, 9999-12-31, leap days, DST transition readings) plus random instants, "
                       "38 IANA zones from -12:00 to +14:00; RFC3339 conversion, epoch in both units and its inverse in a third zone; TLC checks instant "
                       "equality / wall-clock equality / offsets / epoch values with its own calendar. non-trivial: year outside 1970-2038 or a non-zero offset")
