"""C07 - EDI segments are tokenized exactly at unescaped delimiters (DESIGN.md 5/C07)."""
import os
from concurrent.futures import ThreadPoolExecutor
import vlib
from vlib import log

LEVEL = "model_checking"


def handle(rep, recs):
    for x in recs:
        if x.get("kind") == "violation":
            rep.violation(x)
        elif x.get("kind") == "summary":
            rep.add_summary(x)


def run(tier, rep):
    thorough = tier == "thorough"
    rep.assumptions += [
        "each delimiter is one abstract symbol; concretised as ASCII, as multi-byte runes, and (without a release character) as two-character strings",
        "an escaped invalid UTF-8 byte / U+FFFD truncates the value inside go-corelib's ByteUnescape (a dependency, not modelled, not generated)",
        "the segment name is matched raw; element lookups are replayed for names without release characters",
    ]
    jobs = [("len<=3", dict(MaxLen=3, EmitMod=1 if thorough else 2)), ("len<=4", dict(MaxLen=4, EmitMod=30 if not thorough else 3))]
    if thorough:
        jobs.append(("len<=5", dict(MaxLen=5, EmitMod=60)))

    def one(job):
        name, c = job
        consts = {k: str(v) for k, v in c.items()}
        consts["EmitCases"] = "TRUE"
        return name, vlib.tlc("MC_EDITokens", "MC_EDITokens.cfg", consts=consts, timeout=6000, workers=6)

    with ThreadPoolExecutor(max_workers=3) as ex:
        results = list(ex.map(one, jobs))
    k = 0
    for name, r in results:
        rep.add_tlc("MC_EDITokens(%s)" % name, r)
        if not vlib.tlc_ok(r, name):
            log(r.out[-3000:])
            raise vlib.Inconclusive("the EDITokens model violates %s (code-style scanner vs left-to-right reference): specification problem" % r.violated)
        p = os.path.join(vlib.scratch(), "c07.cases.%d.ndjson" % k)
        k += 1
        vlib.write_ndjson(p, r.cases)
        del r.cases[:]
        recs, _ = vlib.run_vh(["c07-replay", p], timeout=6000)
        handle(rep, recs)
        os.remove(p)
    tr = os.path.join(vlib.scratch(), "c07.trace.ndjson")
    recs, _ = vlib.run_vh(["c07-drive", tr, "3000" if thorough else "300"], timeout=3000)
    handle(rep, recs)
    for rj in vlib.validate_traces(rep, "Trace_EDITokens", "Trace_EDITokens.cfg", tr, timeout=3000):
        ev = rj["failing_event"]
        rep.violation({"property": "C07", "key": "tokenizer-mismatch-random", "kind": "b2",
                       "summary": "the real tokenizer's pieces differ from the reference scanner on %s" % ("".join(ev.get("str", []))[:200]),
                       "event": ev})
    rep.cov["rule"] = ("B1: every symbol string up to MaxLen over {a,b,SEG,ELEM,COMP,REP,REL,CR,LF} x 24 configurations (component/repetition/release "
                       "configured or not, ignore_crlf, LF as segment delimiter); expectations from the left-to-right reference in EDITokens.tla; replayed on "
                       "edi.NonValidatingReader in three renderings and, for the first segment, through the full reader with 6 element-declaration sets "
                       "(same element twice, component index, default, missing). B2: random logical segments (unicode, delimiter-only values, elements up to "
                       "3000 runes, chunked delivery) round-tripped and re-tokenized by TLC. non-trivial: contains a release character or an element/"
                       "component/repetition delimiter")
    rep.cov["exhaustive"] = True
