"""C04 - streaming target selection equals whole-document selection (DESIGN.md 5/C04)."""
import os
from concurrent.futures import ThreadPoolExecutor
import vlib
from vlib import log

LEVEL = "model_checking"


def handle(rep, recs):
    for x in recs:
        if x.get("kind") == "violation":
            rep.violation(x)
        elif x.get("kind") == "summary":
            rep.add_summary(x)
            sm = (x.get("extra") or {}).get("spec_mismatch", 0)
            if sm:
                raise vlib.Inconclusive("the specification's xpath-lite disagrees with the real engine on %d whole-document selections; "
                                        "no verdict can be derived from a wrong oracle" % sm)
        elif x.get("kind") == "spec_mismatch":
            log("spec_mismatch:", x)


def run(tier, rep):
    thorough = tier == "thorough"
    rep.assumptions += [
        "xpath class: child / descendant steps with name or * tests and a final-step predicate [c='v'] [.='v'] [@k='v'] [c]; "
        "the specification's semantics for it is cross-checked against the real engine on every replayed case (antchfx evaluates x//n as descendant-or-self)",
        "JSON documents in the exhaustive part are objects with unique keys and string scalars (arrays appear in C08)",
    ]
    jobs = [("N=2", dict(N=2, MaxSteps=2, Part=0, Parts=1, EmitMod=1)), ("N=3", dict(N=3, MaxSteps=2, Part=0, Parts=1, EmitMod=1)),
            # a candidate that may be rejected, followed by a container whose candidates lie deeper (8 nodes, every naming)
            ("nested", dict(N=8, MaxSteps=2, Part=0 if thorough else 1, Parts=1, EmitMod=1, Family='"nested"')),
            # an element whose string value is spread over several text nodes (its own and a descendant's)
            ("mixed", dict(N=6, MaxSteps=2, Part=0, Parts=1, EmitMod=1, Family='"mixed"'))]
    if thorough:
        jobs += [("N=4 part %d/5" % p, dict(N=4, MaxSteps=2, Part=p, Parts=5, EmitMod=8)) for p in range(5)]
        jobs += [("N=3,steps<=3", dict(N=3, MaxSteps=3, Part=0, Parts=1, EmitMod=6))]

    def one(job):
        name, c = job
        consts = {k: str(v) for k, v in c.items()}
        consts.update(AnyNode="FALSE", EmitCases="TRUE")
        consts.setdefault("Family", '"all"')
        return name, vlib.tlc("MC_StreamSelect", "MC_StreamSelect.cfg", consts=consts, timeout=3400, workers=4 if thorough else 8)

    with ThreadPoolExecutor(max_workers=4) as ex:
        results = list(ex.map(one, jobs))
    k = 0
    for name, r in results:
        rep.add_tlc("MC_StreamSelect(%s)" % name, r)
        if not vlib.tlc_ok(r, name):
            log(r.out[-3000:])
            raise vlib.Inconclusive("the StreamSelect model violates %s (reader model vs whole-document reference): specification problem" % r.violated)
        p = os.path.join(vlib.scratch(), "c04.cases.%d.ndjson" % k)
        k += 1
        vlib.write_ndjson(p, r.cases)
        del r.cases[:]
        recs, _ = vlib.run_vh(["c04-replay", p], timeout=3000)
        handle(rep, recs)
        os.remove(p)
    # the filter splitter: backward scan of the code vs. forward lexer, then the real function on every string
    r = vlib.tlc("MC_XPathSplit", "MC_XPathSplit.cfg", consts={"MaxLen": "7" if thorough else "6", "EmitCases": "TRUE"}, timeout=3000)
    rep.add_tlc("MC_XPathSplit", r)
    if not vlib.tlc_ok(r, "MC_XPathSplit"):
        raise vlib.Inconclusive("XPathSplit.tla: backward scan and forward lexer disagree on a well-formed xpath (%s): specification problem" % r.violated)
    p = os.path.join(vlib.scratch(), "c04.split.ndjson")
    vlib.write_ndjson(p, r.cases)
    del r.cases[:]
    recs, _ = vlib.run_vh(["c04-split", p], timeout=3000)
    handle(rep, recs)
    tr = os.path.join(vlib.scratch(), "c04.trace.ndjson")
    recs, _ = vlib.run_vh(["c04-drive", tr] + (["1500", "40"] if thorough else ["150", "30"]))
    handle(rep, recs)
    for rj in vlib.validate_traces(rep, "Trace_StreamSelect", "Trace_StreamSelect.cfg", tr, timeout=3000):
        ev = rj["failing_event"]
        rep.violation({"property": "C04", "key": str(ev.get("format")) + "-stream-mismatch", "kind": "b2",
                       "summary": "%s: streamed records differ from whole-document selection for xpath %s on %s: delivered %s" % (
                           ev.get("format"), ev.get("xpath"), ev.get("doc"), ev.get("delivered")),
                       "doc": ev.get("doc"), "xpath": ev.get("xpath"), "delivered": ev.get("delivered")})
    rep.cov["rule"] = ("B1: every XML-shaped document with N nodes (elements a/b, text 1/2, attribute k) x every xpath of <=2/3 steps "
                       "(child/descendant, name/*) x 7 predicate forms; expectations = outermost whole-document selection (StreamSelect.tla); "
                       "replayed on the real XML and (where representable) JSON stream readers in a plain rendering and in one with quote characters "
                       "inside values (literals written with the other quote) and whitespace-padded target xpaths; the engine's own whole-document result "
                       "cross-checks the oracle. removeLastFilterInXPath: every string <=6/7 over {a [ ] ' \" /} (XPathSplit.tla) on the real function. B2: random documents (<=30/40 nodes) and xpaths, TLC evaluates the reference on the logged case. "
                       "non-trivial: >=2 nodes on the path or a candidate rejected/nested")
    rep.cov["exhaustive"] = True
