"""C03 - no panic, no hang: schemas and inputs are untrusted data (DESIGN.md 5/C03)."""
import os
import vlib
from vlib import log

LEVEL = "exploration"


def run(tier, rep):
    thorough = tier == "thorough"
    rep.assumptions += [
        "panics inside third-party libraries (goja, xpath, gojsonschema) are observed, not modelled; user JavaScript that loops and caller-registered functions are outside the claim",
        "bound on reads: a transform must reach eof/fatal within len(input)+3 Reads; every call runs under recover and a 3-5 s watchdog",
        "(a) model level: the panic guards of the hierarchical matcher and of the line buffer are unreachable and the matcher's loop is bounded (TLC); (b) code level: spec-independent mutation of schemas and inputs",
    ]
    # (a) guard invariants and progress on the state-machine models
    r = vlib.tlc("MC_Hierarchy", "MC_Hierarchy.cfg", consts={"NMin": "1", "NMax": "2", "MaxIn": "3", "Edi": "FALSE", "EmitCases": "FALSE", "EmitMod": "1"}, timeout=3000)
    rep.add_tlc("MC_Hierarchy(Guards, Bounded)", r)
    if not vlib.tlc_ok(r, "MC_Hierarchy"):
        raise vlib.Inconclusive("Hierarchy.tla violates %s: specification problem" % r.violated)
    r = vlib.tlc("MC_FlatLines", "MC_FlatLines.cfg", consts={"MaxLines": "2", "EmitCases": "FALSE", "EmitMod": "1"}, timeout=3000)
    rep.add_tlc("MC_FlatLines(NoPanic)", r)
    if not vlib.tlc_ok(r, "MC_FlatLines"):
        raise vlib.Inconclusive("FlatLines.tla violates %s: specification problem" % r.violated)
    r = vlib.tlc("MC_Transform", "MC_Transform.cfg", consts={"MaxLen": "3", "MaxCalls": "6", "EmitCases": "FALSE"}, timeout=3000)
    rep.add_tlc("MC_Transform(BoundedIngesterCalls)", r)
    if not vlib.tlc_ok(r, "MC_Transform"):
        raise vlib.Inconclusive("Transform.tla violates %s: specification problem" % r.violated)
    # template expansion during validation (Templates.tla): the recursion never re-enters a template, ends, and its verdict is
    # "circular" exactly for reference cycles reachable from FINAL_OUTPUT; every reference graph over 3 templates replayed
    r = vlib.tlc("MC_Templates", "MC_Templates.cfg", consts={"ForgetAtDyn": "FALSE", "EmitCases": "TRUE"}, timeout=3000)
    rep.add_tlc("MC_Templates(NoReentry, Verdict, Terminates)", r)
    if not vlib.tlc_ok(r, "MC_Templates"):
        raise vlib.Inconclusive("Templates.tla violates %s: specification problem" % r.violated)
    p = os.path.join(vlib.scratch(), "c03.templates.ndjson")
    vlib.write_ndjson(p, r.cases)
    del r.cases[:]
    recs, _ = vlib.run_vh(["c03-templates", p], timeout=3000)
    for x in recs:
        if x.get("kind") == "violation":
            rep.violation(x)
        elif x.get("kind") == "summary":
            rep.add_summary(x)
    if thorough:
        r = vlib.tlc("MC_Templates", "MC_Templates.cfg", consts={"ForgetAtDyn": "TRUE"}, timeout=3000)
        if not r.violated:
            raise vlib.Inconclusive("Templates.tla does not refute the design that forgets the reference stack at xpath_dynamic")
        rep.notes.append("MC_Templates refutes ForgetAtDyn = TRUE (%s)" % r.violated)
    # (b) mutation driver
    tr = os.path.join(vlib.scratch(), "c03.trace.ndjson")
    recs, _ = vlib.run_vh(["c03-drive", tr] + (["1200", "400"] if thorough else ["120", "50"]), timeout=3400)
    for x in recs:
        if x.get("kind") == "violation":
            rep.violation(x)
        elif x.get("kind") == "summary":
            rep.add_summary(x)
    # every distinct failing site carries its first reproducer; later events of the same site are folded into it
    events = vlib.read_ndjson(tr)
    repro = {e["key"]: e for e in events if e.get("key") and "schema" in e}
    counts = {}
    for e in events:
        if e.get("key"):
            counts[e["key"]] = counts.get(e["key"], 0) + 1
    # TLC decides on the recorded outcomes
    rejected = vlib.validate_traces(rep, "Trace_Robust", "Trace_Robust.cfg", tr, timeout=3000, max_reject=60)
    seen = set()
    for rj in rejected:
        ev = rj["failing_event"]
        key = ev.get("key") or "outcome:" + str(ev.get("end"))
        if key in seen:
            continue
        seen.add(key)
        rp = repro.get(key, ev)
        what = "panic: " + str(rp.get("panic_text")) if ev.get("panic") else ("a call did not return (watchdog)" if ev.get("timeout") else "no terminal result within len(input)+3 Reads")
        rep.violation({"property": "C03", "key": key, "kind": "b2",
                       "summary": "%s [%s on %s: %s] (%d occurrence(s))" % (what, ev.get("kind"), ev.get("item"), rp.get("mutation"), counts.get(key, 1)),
                       "stage": ev.get("stage"), "schema": rp.get("schema"), "input": rp.get("input"), "mutation": rp.get("mutation")})
    rep.cov["rule"] = ("template expansion: every reference graph over 3 templates x 4 hop kinds (direct, child position, xpath_dynamic) in 6 renderings; "
                       "every corpus schema (7 formats; harness, generated and repo samples): 120/1200 single structural mutations (delete key, wrong JSON "
                       "type or odd value incl. null under xpath_dynamic, number/string extremes incl. delimiter metacharacters, subtree copies giving cyclic or "
                       "misplaced templates, custom_func arity/name changes, occurrence bounds) and 50/400 input mutations (truncate, flip, concatenate, noise, "
                       "splice); NewSchema/NewTransform/Read under recover + watchdog; TLC (Trace_Robust) checks every outcome. non-trivial: an accepted "
                       "schema with >=1 Read, or a one-mutation neighbour of an accepted schema")
