"""C17 - memory retained while streaming does not grow with records delivered (DESIGN.md 5/C17)."""
import os
import vlib
from vlib import log

LEVEL = "model_checking"


def run(tier, rep):
    thorough = tier == "thorough"
    rep.assumptions += [
        "retention is measured as the number of nodes reachable from the root of the k-th delivered record (RawRecord().Raw() and exported links), and as the live heap of the process after a collection at two points of a long stream (what readers and caches hold besides the tree)",
        "cases repeat identical records (period 1, or 2 with records failing the FINAL_OUTPUT filter or failing their transform) under fixed ancestors, with blank lines / whitespace separators",
    ]
    for sep, filt in (("FALSE", "FALSE"), ("FALSE", "TRUE")):
        r = vlib.tlc("MC_Retention", "MC_Retention.cfg", consts={"K": "8" if thorough else "6", "Sep": sep, "Filtered": filt}, workers=1, timeout=600)
        rep.add_tlc("MC_Retention(sep=%s,filtered=%s)" % (sep, filt), r)
        if not vlib.tlc_ok(r, "MC_Retention"):
            raise vlib.Inconclusive("the stream-reader model is not stationary without separators (%s): specification problem" % r.violated)
    # with separators attached outside the records the *model* accumulates them (design-level counterpart of the known XML finding)
    r = vlib.tlc("MC_Retention", "MC_Retention.cfg", consts={"K": "6", "Sep": "TRUE", "Filtered": "FALSE"}, workers=1, timeout=600)
    rep.add_tlc("MC_Retention(sep=TRUE)", r)
    rep.notes.append("reader model with character data between records: Stationary %s" % ("violated (separators accumulate under the ancestor)" if r.violated else "holds"))
    tr = os.path.join(vlib.scratch(), "c17.trace.ndjson")
    recs, _ = vlib.run_vh(["c17-drive", tr, "200000" if thorough else "3000"], timeout=3400)
    for x in recs:
        if x.get("kind") == "violation":
            rep.violation(x)
        elif x.get("kind") == "summary":
            rep.add_summary(x)
    for rj in vlib.validate_traces(rep, "Trace_Retention", "Trace_Retention.cfg", tr, timeout=3000):
        ev = rj["failing_event"]
        if ev.get("ev") == "heap":
            per = (ev.get("live2", 0) - ev.get("live", 0)) // max(1, ev.get("at2", 1) - ev.get("at", 0))
            rep.violation({"property": "C17", "key": "retained-heap-grows:" + str(ev.get("case")), "kind": "b2",
                           "summary": "%s: the live heap grows with the number of records delivered although the record's tree does not: %s bytes after %s records, %s after %s (%s bytes per record)" % (
                               ev.get("case"), ev.get("live"), ev.get("at"), ev.get("live2"), ev.get("at2"), per), "case": ev.get("case"), "event": ev})
            continue
        sizes = [(e.get("k"), e.get("size")) for e in rj["events"] if e.get("ev") == "size"]
        rep.violation({"property": "C17", "key": "retention-grows:" + str(ev.get("case")), "kind": "b2",
                       "summary": "%s: the tree reachable from the k-th record grows with k: %s" % (ev.get("case"), sizes[:4] + sizes[-3:]),
                       "case": ev.get("case"), "sizes": sizes})
    # the Release / Read discipline between ingester and FormatReader, on recorded call sequences of all seven readers
    vlib.ingester_protocol(rep, "C17", thorough)
    rep.cov["rule"] = ("26 cases over all formats (compact, whitespace/blank-line separators, nested groups, records failing the filter, records whose transform fails), k = 3000 / "
                       "200000 records streamed through the real Transform; sizes probed at k<=16, powers of two, every 1000th; TLC (Trace_Retention) "
                       "requires size_k <= max(size_1..size_8); per case also the live heap (after a collection) after 10 000 and after 40 000 records, growth <= 1 MiB or < 8 bytes per record. non-trivial: >=100 deliveries with separators or filtered-out records")
