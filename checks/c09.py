"""C09 - results do not depend on how the input reader delivers its bytes (DESIGN.md 5/C09)."""
import os
import vlib
from vlib import log

LEVEL = "exploration"


def handle(rep, recs):
    for x in recs:
        if x.get("kind") == "violation":
            rep.violation(x)
        elif x.get("kind") == "summary":
            rep.add_summary(x)


def run(tier, rep):
    thorough = tier == "thorough"
    rep.assumptions += [
        "bufio, encoding/csv, encoding/xml, encoding/json, x/text decoders, BytesReplacingReader and the delimiter scanner are axiomatised as prefix transducers; "
        "omniparser's own buffer aliasing (fixedlength2 copied-flag discipline) is model-checked in Chunks.tla for every refill pattern",
        "the line number in the JSON reader's messages (LineCountingReader.AtLine, documented as rough) is masked",
    ]
    for copy in ("TRUE",):
        r = vlib.tlc("Chunks", "MC_Chunks.cfg", consts={"CopyBeforeRead": copy, "NLines": "8" if thorough else "6", "MaxRows": "4" if thorough else "3"}, timeout=1200)
        rep.add_tlc("Chunks(copy-before-read)", r)
        if not vlib.tlc_ok(r, "Chunks"):
            raise vlib.Inconclusive("the Chunks alias model violates %s: specification problem" % r.violated)
    tr = os.path.join(vlib.scratch(), "c09.trace.ndjson")
    recs, _ = vlib.run_vh(["c09-drive", tr] + (["4200", "60", "big"] if thorough else ["700", "12"]), timeout=3400)
    handle(rep, recs)
    for rj in vlib.validate_traces(rep, "Trace_Runs", "Trace_Runs.cfg", tr, timeout=3000):
        ev = rj["failing_event"]
        gold = next((e for e in rj["events"] if e.get("ev") == "golden"), {})
        rep.violation({"property": "C09", "key": "schedule-dependent-" + str(ev.get("item")).split("/")[0].split("+")[0], "kind": "b3",
                       "summary": "%s: delivery schedule %s changes the results: %s vs golden %s" % (
                           ev.get("item"), ev.get("desc"), str(ev.get("results"))[:300], str(gold.get("results"))[:300]),
                       "item": ev.get("item"), "schedule": ev.get("desc"), "results": ev.get("results"), "golden": gold.get("results")})
    rep.cov["rule"] = ("per input (repo samples, harness schemas, generated multi-row inputs straddling bufio's 4096-byte window; "
                       "3 encodings, BOM): golden = whole-buffer delivery; variants = 1-byte, data-with-EOF, every single split point "
                       "(inputs <= 700/4200 bytes, sampled + buffer boundaries beyond), random chunk sizes with empty reads. "
                       "non-trivial: the split falls inside/next to a multi-byte rune, escape pair, delimiter, CR/LF, BOM or buffer boundary")
