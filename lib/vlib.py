"""Shared machinery for /verif/bin/check: scratch dirs, harness build, TLC runs, evidence, findings."""
import atexit, hashlib, json, os, re, shutil, subprocess, sys, tempfile, time

ROOT = os.path.dirname(os.path.dirname(os.path.abspath(__file__)))
REPO = os.environ.get("VERIF_REPO", "/repo")
SPEC = os.path.join(ROOT, "spec")
CFG = os.path.join(ROOT, "cfg")
HARNESS = os.path.join(ROOT, "harness")
# evidence/ and replays/ live here; only tools/cross_seeds.py (runs against patched scratch worktrees) overrides it
OUT = os.environ.get("VERIF_OUT") or ROOT
NCPU = os.cpu_count() or 4

GOENV = dict(os.environ, GOFLAGS="-mod=mod", GOPROXY="off", GOSUMDB="off", GOTOOLCHAIN="local")


class Inconclusive(Exception):
    """machinery problem: exit 2, never an alarm"""


class RepoCrash(Exception):
    """the harness process was killed by a Go runtime fatal error (stack overflow, concurrent map access, ...) raised
    while executing omniparser code: behaviour of the real code, reported as a violation of the property being driven.
    A fatal error whose running goroutine is not inside omniparser code stays Inconclusive."""

    def __init__(self, info):
        Exception.__init__(self, info["summary"])
        self.info = info


_REPO_PKG = "github.com/jf-tech/omniparser/"


def _go_fatal(stderr, last_rec):
    """classify a dead harness: returns the crash description if the Go runtime killed the process inside omniparser code"""
    m = re.search(r"^fatal error: (.*)$", stderr, re.M)
    panic = False
    if not m:
        # a panic nobody recovered (in a goroutine of the driver that was inside the library at that moment)
        m = re.search(r"^panic: (.*)$", stderr, re.M)
        panic = True
        if not m:
            return None
    g = re.search(r"^goroutine \d+[^\n]*\[running[^\n]*\]:\n", stderr, re.M)
    if not g:
        return None
    frames = []
    for ln in stderr[g.end():].splitlines():
        if not ln.strip():
            break
        if not ln.startswith("\t") and not ln.startswith("..."):
            frames.append(ln.split("(")[0].strip() if not ln.startswith(_REPO_PKG) else ln[:ln.rfind("(")].strip())
    user = [f for f in frames if not f.startswith("runtime.") and not f.startswith("runtime/") and f != "panic"]
    if not user:
        return None
    if not user[0].startswith(_REPO_PKG):
        # unsynchronised access to a map of a third-party object (e.g. a goja runtime) is detected inside that library;
        # it is the library's caller - omniparser code further down the same stack - that shared the object
        repo = [f for f in user if f.startswith(_REPO_PKG)]
        # ... and a stack overflow is detected wherever the recursion happened to be when the stack ran out: the culprit is
        # the function that recurses - the omniparser function that fills the trace
        if m.group(1).startswith("stack overflow") and repo:
            repo.sort(key=lambda f: -repo.count(f))
        elif not (m.group(1).startswith("concurrent map") and repo):
            return None
        user = repo + user
    if panic:
        # (the text of a panic carries values - indexes, addresses: the finding is identified by where it happened)
        what = re.sub(r"\[[^\]]*\]|0x[0-9a-f]+|\d+", "", m.group(1)).strip()[:80]
        return {"fatal": "panic: " + what, "function": user[0], "frames": user[:8], "last_record": last_rec,
                "summary": "the process died of a panic inside %s that escaped to the caller's goroutine: %s%s" % (
                    user[0], m.group(1).strip()[:200], (" after " + json.dumps(last_rec)[:300]) if last_rec else "")}
    return {"fatal": m.group(1).strip(), "function": user[0], "frames": user[:8], "last_record": last_rec,
            "summary": "the process died with the Go runtime fatal error '%s' inside %s%s" % (
                m.group(1).strip(), user[0], (" after " + json.dumps(last_rec)[:300]) if last_rec else "")}


_scratch = None


def scratch():
    global _scratch
    if _scratch is None:
        base = os.environ.get("VERIF_SCRATCH_BASE") or tempfile.gettempdir()
        _scratch = tempfile.mkdtemp(prefix="verif-", dir=base)
        if not os.environ.get("VERIF_KEEP"):
            atexit.register(lambda: shutil.rmtree(_scratch, ignore_errors=True))
    return _scratch


def log(*a):
    print(*a, flush=True)


def seed():
    try:
        return int(os.environ.get("VERIF_SEED", "1"))
    except ValueError:
        return 1


_built = {}


def build_harness(race=False):
    """Rebuild the Go harness against /repo's current working tree, hooks on."""
    key = "race" if race else "plain"
    if key in _built:
        return _built[key]
    # harness module is copied so that go.sum / go.mod rewriting never dirties /verif
    src = os.path.join(scratch(), "harness-src")
    if not os.path.isdir(src):
        shutil.copytree(HARNESS, src)
        shutil.copy(os.path.join(REPO, "go.sum"), os.path.join(src, "go.sum"))
        gm = open(os.path.join(src, "go.mod")).read().replace("=> /repo", "=> " + REPO)
        open(os.path.join(src, "go.mod"), "w").write(gm)
    out = os.path.join(scratch(), "vh-" + key)
    cmd = ["go", "build", "-tags", "verif"] + (["-race"] if race else []) + ["-o", out, "./cmd/vh"]
    t = time.time()
    p = subprocess.run(cmd, cwd=src, env=GOENV, stdout=subprocess.PIPE, stderr=subprocess.STDOUT, text=True)
    if p.returncode != 0:
        log(p.stdout)
        raise Inconclusive("harness build failed (does /repo compile with -tags verif?)")
    log("[build] harness (%s) built from %s in %.1fs" % (key, REPO, time.time() - t))
    _built[key] = out
    return out


def run_vh(args, race=False, timeout=3600, stdin=None, env=None, cwd=None):
    """Run the harness; returns (rc, list of parsed JSON lines from stdout, stderr text)."""
    vh = build_harness(race)
    e = dict(os.environ)
    e["VERIF_SEED"] = str(seed())
    if env:
        e.update(env)
    try:
        p = subprocess.run([vh] + args, stdout=subprocess.PIPE, stderr=subprocess.PIPE, text=True,
                           timeout=timeout, input=stdin, env=e, cwd=cwd or scratch())
    except subprocess.TimeoutExpired:
        raise Inconclusive("harness timed out: vh " + " ".join(args[:3]))
    recs = []
    for line in p.stdout.splitlines():
        line = line.strip()
        if line.startswith("{"):
            try:
                recs.append(json.loads(line))
            except ValueError:
                pass
    if p.returncode not in (0,):
        crash = _go_fatal(p.stderr, next((r for r in reversed(recs) if r.get("kind") == "progress"), None))
        if crash:
            crash["cmd"] = args[0]
            raise RepoCrash(crash)
        sys.stderr.write(p.stderr[:3000] + "\n...\n" + p.stderr[-3000:])
        raise Inconclusive("harness failed rc=%d: vh %s" % (p.returncode, " ".join(args[:3])))
    return recs, p.stderr


# ----------------------------------------------------------------------------- TLC

class TLCResult:
    def __init__(self):
        self.rc = None
        self.out = ""
        self.generated = 0
        self.distinct = 0
        self.depth = 0
        self.violated = None   # name of the violated invariant/property, if any
        self.error = None
        self.cases = []
        self.wall = 0.0
        self.coverage_zero = []


_case_re = re.compile(r'^<<"CASE", "(.*)">>$')


def _unescape_tla_string(s):
    return s.replace('\\"', '"').replace("\\\\", "\\")


def tlc(module, cfg, workers=None, timeout=1800, extra=None, consts=None, simulate=None, depth=None,
        coverage=False, files=None, heap=None, want_cases=True, seed_=None, dfs=False):
    """Run TLC on spec/<module>.tla with cfg/<cfg> in a scratch copy.
    consts: dict substituted into the cfg as NAME = value lines replacing existing ones.
    files: extra files to copy into the run dir (e.g. traces)."""
    run = tempfile.mkdtemp(prefix="tlc-", dir=scratch())
    for f in os.listdir(SPEC):
        if f.endswith(".tla"):
            shutil.copy(os.path.join(SPEC, f), run)
    cfgtxt = open(os.path.join(CFG, cfg)).read()
    if consts:
        for k, v in consts.items():
            cfgtxt, n = re.subn(r"(?m)^(\s*)%s\s*=.*$" % re.escape(k), r"\g<1>%s = %s" % (k, v), cfgtxt)
            if n == 0:
                raise Inconclusive("constant %s not in %s" % (k, cfg))
    open(os.path.join(run, "run.cfg"), "w").write(cfgtxt)
    for f in files or []:
        shutil.copy(f, run)
    w = str(workers or min(NCPU, 16))
    cmd = ["java", "-XX:+UseParallelGC", "-Xss64m"]
    if heap:
        cmd.append("-Xmx" + heap)
    if dfs:
        cmd.append("-Dtlc2.tool.queue.IStateQueue=StateDeque")
    cmd += ["-cp", "/opt/veriftools/tla/tla2tools.jar:/opt/veriftools/tla/CommunityModules-deps.jar", "tlc2.TLC",
            "-workers", w, "-metadir", os.path.join(run, "meta"), "-config", "run.cfg", "-noGenerateSpecTE"]
    if simulate:
        cmd += ["-simulate", simulate]
        if depth:
            cmd += ["-depth", str(depth)]
        cmd += ["-seed", str(seed_ if seed_ is not None else seed())]
    if coverage:
        cmd += ["-coverage", "1"]
    cmd += (extra or []) + [module + ".tla"]
    r = TLCResult()
    t = time.time()
    outpath = os.path.join(run, "tlc.out")
    with open(outpath, "w") as fo:
        try:
            p = subprocess.run(cmd, cwd=run, stdout=fo, stderr=subprocess.STDOUT, timeout=timeout)
            r.rc = p.returncode
        except subprocess.TimeoutExpired:
            subprocess.run(["pkill", "-f", run], stdout=subprocess.DEVNULL, stderr=subprocess.DEVNULL)
            raise Inconclusive("TLC timed out on %s/%s" % (module, cfg))
    r.wall = time.time() - t
    keep = []
    with open(outpath, errors="replace") as fi:
        for line in fi:
            line = line.rstrip("\n")
            m = _case_re.match(line)
            if m:
                if want_cases:
                    try:
                        r.cases.append(json.loads(_unescape_tla_string(m.group(1))))
                    except ValueError:
                        raise Inconclusive("unparsable CASE line from TLC: " + line[:200])
                continue
            keep.append(line)
    r.out = "\n".join(keep[-400:])
    for line in keep:
        m = re.search(r"(\d+) states generated, (\d+) distinct states found", line)
        if m:
            r.generated, r.distinct = int(m.group(1)), int(m.group(2))
        m = re.search(r"depth of the complete state graph search is (\d+)", line)
        if m:
            r.depth = int(m.group(1))
        m = re.search(r"Error: Invariant (\S+) is violated", line)
        if m:
            r.violated = m.group(1)
        m = re.search(r"Error: Action property (\S+) is violated|Error: Temporal properties were violated", line)
        if m:
            r.violated = m.group(1) or "temporal"
        if "Error: Postcondition" in line or "Error: The postcondition" in line or "postcondition" in line.lower() and "false" in line.lower():
            r.violated = r.violated or "POSTCONDITION"
        if line.startswith("Error:") and r.error is None:
            r.error = line
        if coverage:
            m = re.match(r"^<(\w+) line .*>: 0:0$", line)
            if m:
                r.coverage_zero.append(m.group(1))
    if not os.environ.get("VERIF_KEEP"):
        shutil.rmtree(run, ignore_errors=True)
    return r


def tlc_ok(r, what):
    """model run must finish cleanly; an error that is not a property violation is inconclusive"""
    if r.rc == 0 and r.error is None:
        return True
    if r.violated:
        return False
    log(r.out[-3000:])
    raise Inconclusive("TLC failed on %s (rc=%s): %s" % (what, r.rc, r.error))


# ----------------------------------------------------------------------------- findings / evidence

def load_findings():
    p = os.path.join(ROOT, "known_findings.json")
    if not os.path.exists(p):
        return {"findings": [], "fixed": []}
    return json.load(open(p))


def match_finding(prop, viol, findings):
    """A violation record is suppressed only when a listed finding's match predicate holds on it:
    every key of `match` must be present in the violation with an equal value ("key" is the
    classifier the harness computed from the concrete failing input)."""
    for f in findings.get("findings", []):
        if f.get("property") != prop:
            continue
        m = f.get("match", {})
        if m and all(viol.get(k) == v for k, v in m.items()):
            return f
    return None


def write_replay(prop, viol):
    os.makedirs(os.path.join(OUT, "replays"), exist_ok=True)
    body = json.dumps(viol, sort_keys=True, indent=1)
    h = hashlib.sha1(body.encode()).hexdigest()[:12]
    p = os.path.join(OUT, "replays", "%s-%s.json" % (prop, h))
    open(p, "w").write(body)
    return p


class Report:
    """collects what a check did and turns it into evidence + exit code"""

    def __init__(self, prop, level, tier):
        self.prop, self.level, self.tier = prop, level, tier
        self.t0 = time.time()
        self.cov = {"states": 0, "transitions": 0, "traces_validated_against_impl": 0, "evaluations": 0,
                    "distinct_nontrivial": 0, "samples": [], "rule": "", "tlc_runs": []}
        self.assumptions = []
        self.violations = []
        self.known = []
        self.notes = []
        self._nontrivial = set()
        self.findings = load_findings()

    def add_tlc(self, name, r):
        self.cov["states"] += r.distinct
        self.cov["transitions"] += r.generated
        self.cov["tlc_runs"].append({"model": name, "distinct": r.distinct, "generated": r.generated,
                                     "depth": r.depth, "wall_s": round(r.wall, 1), "cases_emitted": len(r.cases)})
        log("[tlc] %-28s distinct=%d generated=%d depth=%d cases=%d %.1fs" % (name, r.distinct, r.generated, r.depth, len(r.cases), r.wall))

    def add_summary(self, s):
        """summary record from the harness: evaluations, nontrivial (list of hashes or count), samples, traces"""
        self.cov["evaluations"] += int(s.get("evaluations", 0))
        for h in (s.get("nontrivial_hashes") or []):
            self._nontrivial.add(h)
        self.cov["traces_validated_against_impl"] += int(s.get("traces", 0))
        for x in (s.get("samples") or [])[:3]:
            if len(self.cov["samples"]) < 8:
                self.cov["samples"].append(x)
        for k, v in (s.get("extra") or {}).items():
            self.cov[k] = self.cov.get(k, 0) + v if isinstance(v, (int, float)) else v

    def violation(self, viol):
        f = match_finding(self.prop, viol, self.findings)
        if f is not None:
            if f["key"] not in [k["key"] for k in self.known]:
                self.known.append(f)
            return
        self.violations.append(viol)

    def finish(self):
        self.cov["distinct_nontrivial"] = len(self._nontrivial)
        if not self.cov["samples"]:
            self.cov["samples"] = ["(no sample recorded)"]
        ev = {"property_id": self.prop, "tier": self.tier, "seed": seed(), "level": self.level,
              "coverage": self.cov, "assumptions": self.assumptions, "wall_s": round(time.time() - self.t0, 1),
              "violations": len(self.violations), "known_findings": [k["key"] for k in self.known], "notes": self.notes}
        os.makedirs(os.path.join(OUT, "evidence"), exist_ok=True)
        json.dump(ev, open(os.path.join(OUT, "evidence", self.prop + ".json"), "w"), indent=1, sort_keys=True)
        for k in self.known:
            log("KNOWN-FINDING: property=%s %s: %s" % (self.prop, k["key"], k["what"]))
        seen = set()
        for v in self.violations[:20]:
            p = write_replay(self.prop, v)
            if p not in seen:
                seen.add(p)
                log("VIOLATION property=%s replay=%s" % (self.prop, p))
                log("  " + json.dumps(v.get("summary", v), sort_keys=True)[:600])
        log("[evidence] %s tier=%s level=%s states=%d transitions=%d traces=%d evaluations=%d nontrivial=%d wall=%.1fs violations=%d"
            % (self.prop, self.tier, self.level, self.cov["states"], self.cov["transitions"],
               self.cov["traces_validated_against_impl"], self.cov["evaluations"], self.cov["distinct_nontrivial"],
               time.time() - self.t0, len(self.violations)))
        return 1 if self.violations else 0


# ----------------------------------------------------------------------------- trace validation

def read_ndjson(path):
    out = []
    with open(path) as f:
        for line in f:
            line = line.strip()
            if line:
                out.append(json.loads(line))
    return out


def write_ndjson(path, recs):
    with open(path, "w") as f:
        for r in recs:
            f.write(json.dumps(r, separators=(",", ":")) + "\n")


def validate_traces(rep, module, cfg, trace_path, name=None, tr_field="tr", max_reject=10, timeout=1800, workers=1, dfs=False):
    """Validate a concatenation of traces (each event carries its trace number in tr_field) with a
    trace specification whose POSTCONDITION demands that every line be consumed.  A rejection has no
    counterexample: the longest accepted prefix ends one line before the offending event (depth of the
    search).  The offending trace is cut out and validation resumes on the rest, so that one rejection
    does not leave the remaining traces unexamined.  Returns [(trace_no, events, failing_index_in_trace)]."""
    events = read_ndjson(trace_path)
    rejected = []
    total_states = 0
    for _ in range(max_reject + 1):
        if not events:
            break
        p = os.path.join(scratch(), "trace-%d.ndjson" % len(rejected))
        write_ndjson(p, events)
        os.environ["TRACE_FILE"] = p
        r = tlc(module, cfg, workers=workers, timeout=timeout, want_cases=False, dfs=dfs)
        rep.add_tlc((name or module) + ("" if not rejected else "#%d" % len(rejected)), r)
        total_states += r.distinct
        if r.rc == 0 and r.error is None:
            break
        if r.violated is None and not (r.error and "ostcondition" in r.error):
            log(r.out[-3000:])
            raise Inconclusive("TLC failed on trace validation %s: %s" % (module, r.error))
        fail_line = r.depth  # 1-based index of the event no behaviour could take
        if r.violated and r.violated != "POSTCONDITION":
            fail_line = max(1, r.depth - 1)  # the state after the last consumed event violates an invariant
        if fail_line > len(events):
            fail_line = len(events)
        ev = events[fail_line - 1]
        trno = ev.get(tr_field)
        tr_events = [e for e in events if e.get(tr_field) == trno]
        first = next(i for i, e in enumerate(events) if e.get(tr_field) == trno)
        rejected.append({"trace": trno, "events": tr_events, "failing_index": fail_line - 1 - first,
                         "failing_event": ev, "tlc": r.violated or "no spec action explains the event"})
        events = [e for e in events if e.get(tr_field) != trno]
        if len(rejected) > max_reject:
            break
    return rejected


def tlaps(module, timeout=900):
    """Run the TLA+ proof system on spec/<module>.tla in a scratch copy; returns (all_proved, n_obligations, output)."""
    run = tempfile.mkdtemp(prefix="tlaps-", dir=scratch())
    for f in os.listdir(SPEC):
        if f.endswith(".tla"):
            shutil.copy(os.path.join(SPEC, f), run)
    try:
        p = subprocess.run(["tlapm", "--threads", str(min(NCPU, 8)), module + ".tla"], cwd=run, stdout=subprocess.PIPE,
                           stderr=subprocess.STDOUT, text=True, timeout=timeout)
    except (subprocess.TimeoutExpired, OSError) as e:
        raise Inconclusive("tlapm did not finish on %s: %s" % (module, e))
    m = re.search(r"All (\d+) obligations? proved", p.stdout)
    return bool(m) and p.returncode == 0, int(m.group(1)) if m else 0, p.stdout


def ingester_protocol(rep, prop, thorough):
    """Ingester.tla: the Transform / ingester / FormatReader call protocol.  TLC explores the protocol state space, then
    validates the call sequences recorded by a recording FormatReader wrapped around every built-in reader."""
    r = tlc("MC_Ingester", "MC_Ingester.cfg", consts={"MaxNodes": "4" if thorough else "3"}, timeout=1200)
    rep.add_tlc("MC_Ingester", r)
    if not tlc_ok(r, "MC_Ingester"):
        raise Inconclusive("Ingester.tla violates its own invariant %s: specification problem" % r.violated)
    if thorough:   # the same invariants for any number of nodes: inductive invariant proved by the TLA+ proof system
        ok, n, out = tlaps("Ingester_proof")
        if not ok:
            log(out[-2000:])
            raise Inconclusive("tlapm could not prove Ingester_proof.tla")
        rep.notes.append("Ingester_proof.tla: all %d proof obligations discharged by tlapm (inductive invariant, unbounded number of nodes)" % n)
        log("[tlaps] Ingester_proof: all %d obligations proved" % n)
    tr = os.path.join(scratch(), "ing.trace.ndjson")
    recs, _ = run_vh(["ing-drive", tr, "6" if thorough else "2"], timeout=3000)
    for x in recs:
        if x.get("kind") == "violation":
            rep.violation(dict(x, property=prop))
        elif x.get("kind") == "summary":
            rep.add_summary(x)
    for rj in validate_traces(rep, "Trace_Ingester", "Trace_Ingester.cfg", tr, timeout=3000):
        ev = rj["failing_event"]
        start = rj["events"][0]
        ctx = [{k: v for k, v in e.items() if k != "tr"} for e in rj["events"][max(0, rj["failing_index"] - 6): rj["failing_index"] + 1]]
        rep.violation({"property": prop, "key": "ingester-protocol:%s:%s" % (start.get("sample"), ev.get("ev")), "kind": "b2",
                       "summary": "%s (variant %s): the call sequence between Transform, ingester and FormatReader leaves Ingester.tla at %s (%s); "
                                  "last calls: %s" % (start.get("sample"), start.get("variant"), ev, rj["tlc"], ctx),
                       "sample": start.get("sample"), "calls": ctx})
