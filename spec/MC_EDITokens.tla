--------------------------- MODULE MC_EDITokens ---------------------------
(* Folded: one state per (configuration, symbol string up to MaxLen).      *)
EXTENDS EDITokens, Json, FiniteSets
CONSTANTS MaxLen, EmitCases, EmitMod
VARIABLES cfg, str
vars == <<cfg, str>>

Alphabet == {"a", "b", "S", "E", "C", "R", "?", "r", "n"}
Cfgs == { c \in [comp : BOOLEAN, rep : BOOLEAN, rel : BOOLEAN, ignoreCRLF : BOOLEAN, segIsLF : BOOLEAN] :
            ~(c.segIsLF /\ c.ignoreCRLF) }      \* ignore_crlf with LF as delimiter would remove every delimiter
Init == cfg \in Cfgs /\ str \in UNION {[1..k -> Alphabet] : k \in 0..MaxLen}
Next == UNCHANGED vars
Spec == Init /\ [][Next]_vars

R == RefTokens(cfg, str)
ImplEqualsRef == ImplTokens(cfg, str) = R

\* round trip: a segment made of two elements with logical values str and <<"a">> encoded by escaping
\* tokenizes back to exactly those values (only when a release character is configured, and CR/LF are not removed)
RoundTrip ==
  (cfg.rel /\ ~cfg.ignoreCRLF /\ str # <<>> /\ ~(cfg.segIsLF /\ str[Len(str)] = "r")) =>
     LET seg == <<"a", "E">> \o Encode(cfg, str) \o <<"E", "a", SegSym(cfg)>>
         t == RefTokens(cfg, seg)
     IN t.err = FALSE /\ Len(t.segs) = 1 /\ t.segs[1] = << <<0, 1, <<"a">> >>, <<1, 1, str>>, <<2, 1, <<"a">> >> >>

D(i, c, d) == [idx |-> i, comp |-> c, dflt |-> d]
DeclSets == << <<D(1, 1, FALSE)>>, <<D(1, 1, FALSE), D(1, 1, FALSE)>>, <<D(1, 2, FALSE), D(1, 1, FALSE)>>,
              <<D(2, 1, TRUE), D(1, 1, FALSE)>>, <<D(2, 1, FALSE)>>, <<D(1, 1, FALSE), D(2, 2, TRUE), D(1, 1, FALSE)>> >>
\* expected element lookups on the first segment, for each declaration set
Lookups == IF R.segs = <<>> THEN <<>> ELSE [k \in 1..Len(DeclSets) |-> ElemLookup(R.segs[1], DeclSets[k])]

NonTrivial == \E i \in 1..Len(str) : str[i] \in {"?", "E", "C", "R"}
Emit == (EmitCases /\ (EmitMod = 1 \/ RandomElement(1..EmitMod) = 1)) =>
          PrintT(<<"CASE", ToJson([cfg |-> cfg, str |-> str, segs |-> R.segs, err |-> R.err, nt |-> NonTrivial, lookups |-> Lookups, nsegs |-> Len(R.segs)])>>)
=============================================================================
