----------------------------- MODULE MC_Stream -----------------------------
(* Folded: one state per (stream document, target path, declaration tree).      *)
(* Documents: a root element with 1..MaxKids children, each an element a / b     *)
(* that is empty or holds one text "1" / "x".  Targets: root/b [a-children are   *)
(* persistent non-target siblings] and root/any [only the ancestors persist].    *)
(* Declaration trees: fields on the record [. a star] and outside it [../a       *)
(* ../b], objects anchored on the parent [..] with fields below them.            *)
EXTENDS Stream, Json

CONSTANTS MaxKids, Shared, EmitCases, EmitMod
VARIABLES D, X, T
vars == <<D, X, T>>

Kid == {<<nm, tx>> : nm \in {"a", "b"}, tx \in {"", "1", "x"}}
\* kids: sequence of <<name, text>>; node 1 = root "a", then per kid the element and (if any) its text node
DocOf(kids) ==
  LET RECURSIVE Build(_, _, _, _, _)
      Build(k, par, kind, nm, cur) ==
        IF k > Len(kids) THEN [n |-> Len(par), par |-> par, kind |-> kind, nm |-> nm, at |-> [i \in 1..Len(par) |-> ""]]
        ELSE LET e == Len(par) + 1
                 p1 == Append(par, 1)  k1 == Append(kind, "E")  n1 == Append(nm, kids[k][1])
             IN IF kids[k][2] = "" THEN Build(k + 1, p1, k1, n1, cur)
                ELSE Build(k + 1, Append(p1, e), Append(k1, "T"), Append(n1, kids[k][2]), cur)
  IN Build(1, <<0>>, <<"E">>, <<"a">>, 0)
Docs == {DocOf(ks) : ks \in UNION {[1..n -> Kid] : n \in 1..MaxKids}}

Path(t2) == [steps |-> <<[axis |-> "child", test |-> "*"], [axis |-> "child", test |-> t2]>>, pk |-> "none", pn |-> "", pv |-> "", pre |-> ""]
Paths == {Path("b"), Path("*")}

V(kind, xp) == [kind |-> kind, xp |-> xp, ty |-> "none", notrim |-> FALSE, keep |-> FALSE, lit |-> ""]
Mk(m, p, v) == [m |-> m, par |-> p, kind |-> [i \in 1..m |-> v[i].kind], xp |-> [i \in 1..m |-> v[i].xp], ty |-> [i \in 1..m |-> v[i].ty],
                notrim |-> [i \in 1..m |-> v[i].notrim], keep |-> [i \in 1..m |-> v[i].keep], lit |-> [i \in 1..m |-> v[i].lit]]
Root == V("object", 0)
OutV == {V("field", xp) : xp \in {0, 1, 6, 7}}          \* ., a, ../a, ../b
        \cup {[V("field", 0) EXCEPT !.ty = "int"]}       \* a record whose text is "x" fails on its own
InV == {V("field", xp) : xp \in {1, 2, 3}}              \* below an object anchored on the parent: a, b, *
Trees == {Mk(3, <<0, 1, 1>>, <<Root, x, y>>) : x \in OutV, y \in OutV}
         \cup {Mk(4, <<0, 1, 2, 1>>, <<Root, V("object", 5), x, y>>) : x \in InV, y \in OutV}
         \cup {Mk(4, <<0, 1, 2, 2>>, <<Root, V("object", 5), x, y>>) : x \in InV, y \in InV}
         \cup {Mk(4, <<0, 1, 2, 3>>, <<Root, V("array", 0), V("object", 5), x>>) : x \in InV}

Init == D \in Docs /\ X \in Paths /\ T \in Trees
Next == UNCHANGED vars
Spec == Init /\ [][Next]_vars

R == RefStream(D, X, T)
\* the value of a record never depends on the records before it (nor on a cache entry they left)
StreamCacheInvisible == ImplStream(D, X, T, Shared) = R
\* the Ref notion of "tree at delivery time" is the reader's (StreamSelect) notion
\* (depends on D and X only: evaluated for one tree per (D, X))
SamePartialTree == (T.m = 3 /\ T.xp = <<0, 0, 0>> /\ T.ty = <<"none", "none", "none">>) => PartialAgrees(D, X)

NonTrivial == Len(R) >= 2 /\ \E i \in 2..T.m : T.xp[i] \in {5, 6, 7}
Emit == (EmitCases /\ (EmitMod = 1 \/ RandomElement(1..EmitMod) = 1)) =>
          PrintT(<<"CASE", ToJson([t |-> T, d |-> D, x |-> X, exp |-> R, nt |-> NonTrivial])>>)
=============================================================================
