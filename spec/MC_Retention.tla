---------------------------- MODULE MC_Retention ----------------------------
(* C17 on the stream-reader model: for a document <a> (sep? <b><a>v</a></b>)^K </a> *)
(* and the target /a/b (optionally with the filter [a='1'], every second record   *)
(* failing it) the number of nodes present in the partial tree at the k-th        *)
(* delivery is the same for all k >= 2 -- unless separators (whitespace character *)
(* data) are attached outside the records, which the model shows accumulating.     *)
EXTENDS StreamSelect

CONSTANTS K, Sep, Filtered

RecLen == IF Sep THEN 4 ELSE 3
\* node numbering: 1 = root a; record i occupies RecLen consecutive nodes: [sep text,] b, a, text
Base(i) == 1 + (i - 1) * RecLen
Doc ==
  LET n == 1 + K * RecLen
      off == IF Sep THEN 1 ELSE 0
      role(j) == IF j = 1 THEN "root" ELSE LET r == (j - 2) % RecLen IN
                   IF Sep /\ r = 0 THEN "sep" ELSE IF r = off THEN "b" ELSE IF r = off + 1 THEN "v" ELSE "t"
      rec(j) == (j - 2) \div RecLen + 1
  IN [n |-> n,
      par |-> [j \in 1..n |-> CASE role(j) = "root" -> 0 [] role(j) \in {"sep", "b"} -> 1
                                [] role(j) = "v" -> j - 1 [] role(j) = "t" -> j - 1],
      kind |-> [j \in 1..n |-> IF role(j) \in {"sep", "t"} THEN "T" ELSE "E"],
      nm |-> [j \in 1..n |-> CASE role(j) = "root" -> "a" [] role(j) = "sep" -> "2" [] role(j) = "b" -> "b" [] role(j) = "v" -> "a"
                               [] role(j) = "t" -> IF Filtered /\ rec(j) % 2 = 0 THEN "2" ELSE "1"],
      at |-> [j \in 1..n |-> ""]]

XP == [steps |-> <<[axis |-> "child", test |-> "a"], [axis |-> "child", test |-> "b"]>>,
       pk |-> IF Filtered THEN "child=" ELSE "none", pn |-> "a", pv |-> "1", pre |-> ""]

RECURSIVE Sizes(_, _, _, _)
\* sizes of the partial tree at every delivery
Sizes(s, toks, k, acc) ==
  IF k > Len(toks) THEN acc
  ELSE LET s1 == StepTok(Doc, XP, FALSE, s, toks[k])
       IN Sizes(s1, toks, k + 1, IF Len(s1.out) > Len(s.out) THEN Append(acc, Cardinality(s1.P)) ELSE acc)

VARIABLE sizes
Init == sizes = Sizes(SInit, DocToks(Doc), 1, <<>>)
Next == UNCHANGED sizes
Spec == Init /\ [][Next]_sizes

Delivered == Len(sizes) = (IF Filtered THEN (K + 1) \div 2 ELSE K)
Stationary == \A i \in 2..Len(sizes) : sizes[i] = sizes[2]
=============================================================================
