-------------------------------- MODULE Eval --------------------------------
(***************************************************************************)
(* Evaluation of transform_declarations on one record                      *)
(* (extensions/omniv21/transform/parse.go, value.go, validate.go,          *)
(* invokeCustomFunc.go; doc/transforms.md, doc/xpath.md).                  *)
(*                                                                         *)
(* A record is a document D as in StreamSelect (ordered tree of elements   *)
(* and text nodes); the cursor starts at a node of it.                     *)
(* A declaration tree T has nodes 1..T.m in pre-order (node 1 is           *)
(* FINAL_OUTPUT), par, and per node                                        *)
(*   kind   "field" | "const" | "object" | "array" | "concat" | "dynfield"  *)
(*          | "coalesce" | "upper" (custom functions over the texts of     *)
(*          their arguments: first non-empty text; concatenation upper-    *)
(*          cased)                                                         *)
(*          dynfield = a field whose xpath is computed: its single child   *)
(*          is the xpath_dynamic declaration, evaluated at the cursor; its *)
(*          value "a" / "b" is the xpath; a failure or an empty value of   *)
(*          that computation is treated as "no match" (parse.go:111-117)   *)
(*   xp     0 (no xpath) or an index into XP (relative paths)              *)
(*   ty     "none" | "int" | "float" | "boolean" | "string"   (type)       *)
(*   kind "external": the external property named lit (the caller's         *)
(*          ExternalProperties: p1 = "x", p2 = " y "; p3 is not supplied and *)
(*          fails the record)                                               *)
(*   kind "jsconst": a value computed by a script (custom_func javascript    *)
(*          without arguments); lit names it: "int:7" "float:1.5" "bool:true" *)
(*          "str:1" "str:1.5" "str:x" "str:true" - the typed sources of the    *)
(*          conversion matrix of value.go:31-82 (Cast below)                  *)
(*   notrim, keep               (no_trim, keep_empty_or_null)              *)
(*   lit    the literal of a const                                         *)
(* The key of an object child is "f<position among its siblings>", the     *)
(* arguments of concat are its children in order.  Templates and           *)
(* xpath_dynamic are not separate node kinds: "a template reference        *)
(* behaves as its body inlined" and a constant xpath_dynamic equals the    *)
(* xpath, so the replayer *renders* the same tree with and without them    *)
(* and both renderings must produce the value specified here.              *)
(*                                                                         *)
(* Values are sequences of strings (a uniform encoding TLC can compare):   *)
(*   <<"nil">>  omitted/absent     <<"FAIL">> the record fails             *)
(*   <<"s", text>>  <<"i", digits>>  <<"null">>                            *)
(*   <<"{", "k", key, v..., "k", key, v..., "}">>   <<"[", v..., "]">>     *)
(***************************************************************************)
EXTENDS StreamSelect

\* relative xpaths used by declarations
XP == << << [axis |-> "child", test |-> "a"] >>,
         << [axis |-> "child", test |-> "b"] >>,
         << [axis |-> "child", test |-> "*"] >>,
         << [axis |-> "child", test |-> "a"], [axis |-> "child", test |-> "b"] >>,
         \* 5..7: paths that leave the record (Stream.tla): `..`, `../a`, `../b`
         << [axis |-> "parent", test |-> "*"] >>,
         << [axis |-> "parent", test |-> "*"], [axis |-> "child", test |-> "a"] >>,
         << [axis |-> "parent", test |-> "*"], [axis |-> "child", test |-> "b"] >>,
         \* 8..13: positional predicates (StreamSelect!PosOK): `a[1]`, `a[2]`, `a[last()]`, `*[last()]`, `*[2]`, `a/b[last()]`
         \* - they single out one of several equally named siblings, so a field / object anchors where the bare name fails
         << [axis |-> "child", test |-> "a", pos |-> "1"] >>,
         << [axis |-> "child", test |-> "a", pos |-> "2"] >>,
         << [axis |-> "child", test |-> "a", pos |-> "last"] >>,
         << [axis |-> "child", test |-> "*", pos |-> "last"] >>,
         << [axis |-> "child", test |-> "*", pos |-> "2"] >>,
         << [axis |-> "child", test |-> "a"], [axis |-> "child", test |-> "b", pos |-> "last"] >> >>

NilV == <<"nil">>
FailV == <<"FAIL">>

TKids(T, p) == SelectSeq([i \in 1..T.m |-> i], LAMBDA i: T.par[i] = p)
UnderArray(T, t) == T.par[t] # 0 /\ T.kind[T.par[t]] = "array"

\* --- texts are sequences of one-character strings over {"1", "x", "y", " "} so that trimming,
\* concatenation and the int cast are computable by TLC.  Chars maps the literals of the model.
Chars(s) == CASE s = "" -> <<>> [] s = "1" -> <<"1">> [] s = "2" -> <<"2">> [] s = "x" -> <<"x">> [] s = " y " -> <<" ", "y", " ">>
            [] s = "a" -> <<"a">> [] s = "b" -> <<"b">> [] s = "7" -> <<"7">> [] s = "1.5" -> <<"1", ".", "5">>
            [] s = "true" -> <<"t", "r", "u", "e">> [] s = "false" -> <<"f", "a", "l", "s", "e">>
RECURSIVE TrimL(_), TrimR(_)
TrimL(s) == IF s # <<>> /\ s[1] = " " THEN TrimL(Tail(s)) ELSE s
TrimR(s) == IF s # <<>> /\ s[Len(s)] = " " THEN TrimR(SubSeq(s, 1, Len(s) - 1)) ELSE s
Trim(s) == TrimR(TrimL(s))
IsInt(s) == s # <<>> /\ \A i \in 1..Len(s) : s[i] \in {"1", "2"}

RECURSIVE StrSeq(_, _)
\* InnerText of node i: the texts of its text descendants, concatenated in document order
StrSeq(D, i) ==
  IF D.kind[i] = "T" THEN Chars(D.nm[i])
  ELSE LET ks == KidsOf(D, i)
           RECURSIVE Cat(_)
           Cat(k) == IF k > Len(ks) THEN <<>> ELSE StrSeq(D, ks[k]) \o Cat(k + 1)
       IN Cat(1)

\* normalizeAndSaveValue / normalizeAndReturnValue on a string result (value.go:86-127)
NormStr(T, t, s0) ==
  LET s == IF T.notrim[t] THEN s0 ELSE Trim(s0)
  IN IF T.ty[t] = "int"
       THEN IF IsInt(s) THEN <<"i">> \o s ELSE FailV           \* conversion error fails the record
     ELSE IF T.ty[t] = "float"                                  \* (the model's texts have no fraction: a float is an integer text)
       THEN IF IsInt(s) THEN <<"i">> \o s ELSE FailV
     ELSE IF T.ty[t] = "boolean"                                \* strconv.ParseBool: of the model's texts only "1" is a boolean
       THEN IF s = <<"1">> THEN <<"b", "true">> ELSE FailV
       ELSE IF s = <<>> THEN (IF T.keep[t] THEN <<"s">> ELSE NilV) ELSE <<"s">> \o s

\* --- external properties supplied by the caller of NewTransform
ExtDefined(name) == name \in {"p1", "p2", "p4"}                       \* (p4 is defined and empty; p3 is not defined)
ExtText(name) == IF name = "p1" THEN "x" ELSE IF name = "p4" THEN "" ELSE " y "
External(T, t) == IF ExtDefined(T.lit[t]) THEN NormStr(T, t, Chars(ExtText(T.lit[t]))) ELSE FailV

\* --- typed sources (results of custom functions): the conversion matrix of resultTypeConversion
\* ignore_error of a custom_func declaration (optional field ie of T): the function's own error becomes "no value"
IE(T, t) == IF "ie" \in DOMAIN T THEN T.ie[t] ELSE FALSE
JsKind(lit) == CASE lit \in {"int:7"} -> "int" [] lit \in {"float:1.5"} -> "float" [] lit \in {"bool:true"} -> "bool"
                 [] lit = "throw:x" -> "throw" [] OTHER -> "str"
JsText(lit) == CASE lit = "int:7" -> "7" [] lit = "float:1.5" -> "1.5" [] lit = "bool:true" -> "true" [] lit = "str:1" -> "1"
                 [] lit = "str:1.5" -> "1.5" [] lit = "str:x" -> "x" [] lit = "str:true" -> "true" [] lit = "throw:x" -> "x"
                 \* "probe:x": a script that reports whether a name it was not given is defined - it never is: what another
                 \* call (a throwing one included) was given is gone when that call ends
                 [] lit = "probe:x" -> "x"
Num(txt) == <<"i">> \o Chars(txt)
Cast(k, txt, ty) ==
  CASE ty = "none"    -> (CASE k \in {"int", "float"} -> Num(txt) [] k = "bool" -> <<"b", txt>> [] OTHER -> <<"s">> \o Chars(txt))
    [] ty = "string"  -> <<"s">> \o Chars(txt)                                          \* every kind prints as its text
    [] ty = "int"     -> (CASE k = "int" -> Num(txt)
                            [] k = "float" -> Num(IF txt = "1.5" THEN "1" ELSE txt)       \* truncation toward zero
                            [] k = "str" /\ txt \in {"1", "7"} -> Num(txt)
                            [] OTHER -> FailV)
    [] ty = "float"   -> (CASE k \in {"int", "float"} -> Num(txt)
                            [] k = "str" /\ txt \in {"1", "7", "1.5"} -> Num(txt)
                            [] OTHER -> FailV)
    [] ty = "boolean" -> (CASE k = "bool" -> <<"b", txt>>
                            [] k = "str" /\ txt \in {"1", "true"} -> <<"b", "true">>
                            [] OTHER -> FailV)
JsConst(T, t) == IF JsKind(T.lit[t]) = "throw" THEN (IF IE(T, t) THEN NilV ELSE FailV)          \* a script that throws
                 ELSE Cast(JsKind(T.lit[t]), JsText(T.lit[t]), T.ty[t])

\* a composite (object/array) result: empty => omitted unless kept; a type on a composite cannot convert
NormComposite(T, t, toks, isEmpty, open, close) ==
  IF T.ty[t] # "none" THEN FailV
  ELSE IF isEmpty THEN (IF T.keep[t] THEN (IF open = "[" THEN <<"null">> ELSE <<open, close>>) ELSE NilV)
  ELSE <<open>> \o toks \o <<close>>

\* what a parent stores for a child value: nothing when omitted unless keep_empty_or_null (then null)
Stored(T, t, v) == IF v = NilV THEN (IF T.keep[t] THEN <<"null">> ELSE <<>>) ELSE v

\* the text a value contributes as a concat argument: absent => zero value ""
ArgText(v) == IF v[1] \in {"s", "i"} THEN Tail(v) ELSE <<>>
\* "sig": a user function registered by an Extension with the typed signature sig(string, int64, float64, bool): every
\* argument arrives at its own position; an absent one arrives as the zero value of *its* parameter.  The function
\* prints what it received, every argument followed by "#".
FuncKinds == {"concat", "coalesce", "upper", "sig"}
SigTy == <<"none", "int", "float", "boolean">>
SigZero(pos) == CASE pos = 1 -> <<>> [] pos = 4 -> Chars("false") [] OTHER -> <<"0">>
\* the text argument number pos contributes to a call of kind k
ArgTextAt(k, pos, v) ==
  IF k # "sig" THEN ArgText(v)
  ELSE IF v = NilV THEN SigZero(pos)
  ELSE IF v[1] = "b" THEN Chars(v[2]) ELSE Tail(v)
\* how a function of kind k combines the text of its next argument with the combination of the rest
Combine(k, a, rest) == IF k = "coalesce" THEN (IF a # <<>> THEN a ELSE rest) ELSE IF k = "sig" THEN a \o <<"#">> \o rest ELSE a \o rest
UpperCh(c) == CASE c = "x" -> "X" [] c = "y" -> "Y" [] c = "a" -> "A" [] c = "b" -> "B" [] OTHER -> c
Finish(k, s) == IF k = "upper" THEN [i \in 1..Len(s) |-> UpperCh(s[i])] ELSE s

-----------------------------------------------------------------------------
(* Ref: the documented evaluation, no cache, children in declaration order *)

RECURSIVE RefEval(_, _, _, _)

\* the xpath (index into XP) a computed xpath value denotes; 0 = none (failure, omitted, empty or not a usable path)
DynXP(v) == IF v = <<"s", "a">> THEN 1 ELSE IF v = <<"s", "b">> THEN 2 ELSE 0

\* anchoring: FINAL_OUTPUT and direct children of array never query; otherwise xpath selects the cursor
RefAnchor(D, T, t, n) ==
  IF t = 1 \/ UnderArray(T, t) \/ T.xp[t] = 0 THEN <<"one", n>>
  ELSE LET m == SelSteps(D, All(D), XP[T.xp[t]], 1, {n})
       IN IF m = {} THEN <<"none", 0>>
          ELSE IF Cardinality(m) > 1 THEN <<"many", 0>>
          ELSE <<"one", CHOOSE x \in m : TRUE>>

RefEval(D, T, t, n0) ==
  LET a == RefAnchor(D, T, t, n0) IN
  IF T.kind[t] = "const" THEN NormStr(T, t, Chars(T.lit[t]))
  ELSE IF T.kind[t] = "jsconst" THEN JsConst(T, t)
  ELSE IF T.kind[t] = "external" THEN External(T, t)
  ELSE IF T.kind[t] = "dynfield" THEN
    IF UnderArray(T, t) THEN NormStr(T, t, StrSeq(D, n0))                 \* the array already selected the node
    ELSE LET xpi == DynXP(RefEval(D, T, TKids(T, t)[1], n0))
         IN IF xpi = 0 THEN NilV
            ELSE LET m == SelSteps(D, All(D), XP[xpi], 1, {n0})
                 IN IF m = {} THEN NilV ELSE IF Cardinality(m) > 1 THEN FailV
                    ELSE NormStr(T, t, StrSeq(D, CHOOSE x \in m : TRUE))
  ELSE IF T.kind[t] = "array" THEN
    \* array: no anchoring of its own; every match of a child's xpath (or the cursor) is one element
    LET ks == TKids(T, t)
        RECURSIVE Elems(_, _), Children(_)
        Elems(c, nodes) ==        \* nodes: matches in document order
          IF nodes = <<>> THEN <<"ok">>
          ELSE LET v == RefEval(D, T, c, nodes[1])
                   rest == Elems(c, Tail(nodes))
               IN IF v = FailV \/ rest = FailV THEN FailV ELSE <<"ok">> \o Stored(T, c, v) \o Tail(rest)
        Children(k) ==
          IF k > Len(ks) THEN <<"ok">>
          ELSE LET c == ks[k]
                   dxp == IF T.kind[c] = "dynfield" THEN DynXP(RefEval(D, T, TKids(T, c)[1], n0)) ELSE 0
                   sel == IF T.kind[c] = "dynfield" THEN (IF dxp = 0 THEN {} ELSE SelSteps(D, All(D), XP[dxp], 1, {n0}))   \* computeXPath failed: skipped
                          ELSE IF T.xp[c] = 0 THEN {n0} ELSE SelSteps(D, All(D), XP[T.xp[c]], 1, {n0})
                   nodes == SelectSeq([i \in 1..D.n |-> i], LAMBDA i: i \in sel)
                   e == Elems(c, nodes)
                   rest == Children(k + 1)
               IN IF e = FailV \/ rest = FailV THEN FailV ELSE <<"ok">> \o Tail(e) \o Tail(rest)
        all == Children(1)
    IN IF all = FailV THEN FailV ELSE NormComposite(T, t, Tail(all), Len(all) = 1, "[", "]")
  ELSE IF a[1] = "none" THEN NilV
  ELSE IF a[1] = "many" THEN FailV
  ELSE LET n == a[2] IN
    CASE T.kind[t] = "field" -> NormStr(T, t, StrSeq(D, n))
      [] T.kind[t] = "object" ->
           LET ks == TKids(T, t)
               RECURSIVE Fields(_)
               Fields(k) ==
                 IF k > Len(ks) THEN <<"ok">>
                 ELSE LET v == RefEval(D, T, ks[k], n)
                          rest == Fields(k + 1)
                          st == Stored(T, ks[k], v)
                      IN IF v = FailV \/ rest = FailV THEN FailV
                         ELSE <<"ok">> \o (IF st = <<>> THEN <<>> ELSE <<"k", "f" \o ToString(k)>> \o st) \o Tail(rest)
               all == Fields(1)
           IN IF all = FailV THEN FailV ELSE NormComposite(T, t, Tail(all), Len(all) = 1, "{", "}")
      [] T.kind[t] \in FuncKinds ->
           LET ks == TKids(T, t)
               RECURSIVE Args(_)
               Args(k) ==                                                    \* every argument is evaluated before the call
                 IF k > Len(ks) THEN <<"ok">>
                 ELSE LET v == RefEval(D, T, ks[k], n)
                          rest == Args(k + 1)
                      IN IF v = FailV \/ rest = FailV THEN FailV
                         ELSE IF v[1] \in {"{", "[", "null"} THEN FailV       \* ill-typed argument: not generated
                         ELSE <<"ok">> \o Combine(T.kind[t], ArgTextAt(T.kind[t], k, v), Tail(rest))
               all == Args(1)
           IN IF all = FailV THEN FailV ELSE NormStr(T, t, Finish(T.kind[t], Tail(all)))

\* the value Read emits for the record whose cursor is node n (json.Marshal(nil) = null)
RefRecord(D, T, n) ==
  LET v == RefEval(D, T, 1, n) IN IF v = NilV THEN <<"null">> ELSE v

-----------------------------------------------------------------------------
(* Impl: ParseNode with the per-record result cache (parse.go:36-78).        *)
(* Cache key = (node, text of the declaration subtree [, anchored?]).        *)
(* Declarations with equal text share one hash (validate.go:219-263);        *)
(* whether a declaration queries its xpath depends on its *parent*           *)
(* (xpathQueryNeeded), which the text does not contain.  KeyHasAnchor =      *)
(* FALSE is the key as the code had it before the fix, TRUE the repaired     *)
(* key.  Children of an array are visited in the order of their fqdn         *)
(* *strings* when SortByFqdn (validate.go:136, before the fix).              *)

RECURSIVE DeclText(_, _)
\* canonical text of the public fields of the declaration subtree (what computeDeclHash marshals)
DeclText(T, t) ==
  LET ks == TKids(T, t)
      RECURSIVE Cat(_)
      Cat(k) == IF k > Len(ks) THEN <<>> ELSE <<"(">> \o DeclText(T, ks[k]) \o <<")">> \o Cat(k + 1)
  IN <<T.kind[t], ToString(T.xp[t]), T.ty[t], ToString(T.notrim[t]), ToString(T.keep[t]), T.lit[t], ToString(IE(T, t))>> \o Cat(1)

Queries(T, t) == t # 1 /\ T.xp[t] # 0 /\ ~UnderArray(T, t)            \* xpathQueryNeeded (an xpath_dynamic declaration has no parent)

CacheKey(T, t, n, KeyHasAnchor) ==
  <<ToString(n)>> \o (IF KeyHasAnchor THEN <<ToString(Queries(T, t))>> ELSE <<>>) \o DeclText(T, t)

\* results: [v |-> value, c |-> cache]   cache: set of <<key, value>> pairs (a function graph)
Lookup(c, key) == {p \in c : p[1] = key}

\* order in which parseArray visits the children: validate.go sorted them by fqdn *string*
\* ("elem[10]" < "elem[2]") before the fix; declaration order after it.
FqdnOrder(ks, SortByFqdn) ==
  IF ~SortByFqdn \/ Len(ks) < 10 THEN ks
  ELSE <<ks[1]>> \o SubSeq(ks, 10, Len(ks)) \o SubSeq(ks, 2, 9)

RECURSIVE ImplEval(_, _, _, _, _, _, _)

ImplEval(D, T, t, n0, cache, KeyHasAnchor, SortByFqdn) ==
  LET key == CacheKey(T, t, n0, KeyHasAnchor)
      hit == Lookup(cache, key)
  IN IF hit # {} THEN [v |-> (CHOOSE p \in hit : TRUE)[2], c |-> cache]
  ELSE
  LET save(r) == IF r.v = FailV THEN r ELSE [v |-> r.v, c |-> r.c \cup {<<key, r.v>>}]   \* errors are not cached
      a == IF ~Queries(T, t) THEN <<"one", n0>>
           ELSE LET m == SelSteps(D, All(D), XP[T.xp[t]], 1, {n0})
                IN IF m = {} THEN <<"none", 0>> ELSE IF Cardinality(m) > 1 THEN <<"many", 0>> ELSE <<"one", CHOOSE x \in m : TRUE>>
  IN
  IF T.kind[t] = "const" THEN save([v |-> NormStr(T, t, Chars(T.lit[t])), c |-> cache])
  ELSE IF T.kind[t] = "jsconst" THEN save([v |-> JsConst(T, t), c |-> cache])
  ELSE IF T.kind[t] = "external" THEN save([v |-> External(T, t), c |-> cache])
  ELSE IF T.kind[t] = "dynfield" THEN
    IF UnderArray(T, t) THEN save([v |-> NormStr(T, t, StrSeq(D, n0)), c |-> cache])
    ELSE LET dr == ImplEval(D, T, TKids(T, t)[1], n0, cache, KeyHasAnchor, SortByFqdn)       \* computeXPathDynamic -> ParseNode
             xpi == DynXP(dr.v)
         IN IF xpi = 0 THEN save([v |-> NilV, c |-> dr.c])                                   \* error swallowed: "no match"
            ELSE LET m == SelSteps(D, All(D), XP[xpi], 1, {n0})
                 IN IF m = {} THEN save([v |-> NilV, c |-> dr.c])
                    ELSE IF Cardinality(m) > 1 THEN [v |-> FailV, c |-> dr.c]
                    ELSE save([v |-> NormStr(T, t, StrSeq(D, CHOOSE x \in m : TRUE)), c |-> dr.c])
  ELSE IF T.kind[t] = "array" THEN
    LET ks == FqdnOrder(TKids(T, t), SortByFqdn)
        RECURSIVE Elems(_, _, _), Children(_, _)
        Elems(c, nodes, ch) ==
          IF nodes = <<>> THEN [v |-> <<"ok">>, c |-> ch]
          ELSE LET r == ImplEval(D, T, c, nodes[1], ch, KeyHasAnchor, SortByFqdn)
               IN IF r.v = FailV THEN r
                  ELSE LET rest == Elems(c, Tail(nodes), r.c)
                       IN IF rest.v = FailV THEN rest ELSE [v |-> <<"ok">> \o Stored(T, c, r.v) \o Tail(rest.v), c |-> rest.c]
        Children(k, ch) ==
          IF k > Len(ks) THEN [v |-> <<"ok">>, c |-> ch]
          ELSE LET c == ks[k]
                   dr == IF T.kind[c] = "dynfield" THEN ImplEval(D, T, TKids(T, c)[1], n0, ch, KeyHasAnchor, SortByFqdn) ELSE [v |-> NilV, c |-> ch]
                   dxp == DynXP(dr.v)
                   sel == IF T.kind[c] = "dynfield" THEN (IF dxp = 0 THEN {} ELSE SelSteps(D, All(D), XP[dxp], 1, {n0}))
                          ELSE IF T.xp[c] = 0 THEN {n0} ELSE SelSteps(D, All(D), XP[T.xp[c]], 1, {n0})
                   nodes == SelectSeq([i \in 1..D.n |-> i], LAMBDA i: i \in sel)
                   e == Elems(c, nodes, dr.c)
               IN IF e.v = FailV THEN e
                  ELSE LET rest == Children(k + 1, e.c)
                       IN IF rest.v = FailV THEN rest ELSE [v |-> <<"ok">> \o Tail(e.v) \o Tail(rest.v), c |-> rest.c]
        all == Children(1, cache)
    IN IF all.v = FailV THEN all
       ELSE save([v |-> NormComposite(T, t, Tail(all.v), Len(all.v) = 1, "[", "]"), c |-> all.c])
  ELSE IF a[1] = "none" THEN save([v |-> NilV, c |-> cache])
  ELSE IF a[1] = "many" THEN [v |-> FailV, c |-> cache]
  ELSE LET n == a[2] IN
    CASE T.kind[t] = "field" -> save([v |-> NormStr(T, t, StrSeq(D, n)), c |-> cache])
      [] T.kind[t] = "object" ->
           LET ks == TKids(T, t)
               RECURSIVE Fields(_, _)
               Fields(k, ch) ==
                 IF k > Len(ks) THEN [v |-> <<"ok">>, c |-> ch]
                 ELSE LET r == ImplEval(D, T, ks[k], n, ch, KeyHasAnchor, SortByFqdn)
                      IN IF r.v = FailV THEN r
                         ELSE LET rest == Fields(k + 1, r.c)
                                  st == Stored(T, ks[k], r.v)
                              IN IF rest.v = FailV THEN rest
                                 ELSE [v |-> <<"ok">> \o (IF st = <<>> THEN <<>> ELSE <<"k", "f" \o ToString(k)>> \o st) \o Tail(rest.v),
                                       c |-> rest.c]
               all == Fields(1, cache)
           IN IF all.v = FailV THEN all
              ELSE save([v |-> NormComposite(T, t, Tail(all.v), Len(all.v) = 1, "{", "}"), c |-> all.c])
      [] T.kind[t] \in FuncKinds ->
           LET ks == TKids(T, t)
               RECURSIVE Args(_, _)
               Args(k, ch) ==
                 IF k > Len(ks) THEN [v |-> <<"ok">>, c |-> ch]
                 ELSE LET r == ImplEval(D, T, ks[k], n, ch, KeyHasAnchor, SortByFqdn)
                      IN IF r.v = FailV THEN r
                         ELSE IF r.v[1] \in {"{", "[", "null"} THEN [v |-> FailV, c |-> r.c]
                         ELSE LET rest == Args(k + 1, r.c)
                              IN IF rest.v = FailV THEN rest ELSE [v |-> <<"ok">> \o Combine(T.kind[t], ArgTextAt(T.kind[t], k, r.v), Tail(rest.v)), c |-> rest.c]
               all == Args(1, cache)
           IN IF all.v = FailV THEN all ELSE save([v |-> NormStr(T, t, Finish(T.kind[t], Tail(all.v))), c |-> all.c])

ImplRecord(D, T, n, KeyHasAnchor, SortByFqdn) ==
  LET v == ImplEval(D, T, 1, n, {}, KeyHasAnchor, SortByFqdn).v IN IF v = NilV THEN <<"null">> ELSE v

\* evaluation with the cache switched off (C13: a cache must be invisible) is RefEval by construction:
\* ImplEval with an always-missing cache performs exactly RefEval's steps.
=============================================================================
