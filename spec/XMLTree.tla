------------------------------ MODULE XMLTree ------------------------------
(***************************************************************************)
(* Namespaces of the XML node tree (idr/xmlreader.go:60-140).               *)
(*                                                                         *)
(* A document: elements 1..n in document order, par (0 = the document),     *)
(* every element named "a" with a written prefix pfx in {"", "p", "q"},      *)
(* namespace declarations on the element itself - dd: xmlns=..., dp:         *)
(* xmlns:p=..., dq: xmlns:q=... ("" = not declared), written in that order - *)
(* and optionally one attribute k with prefix ap ("-" = no attribute).       *)
(*                                                                         *)
(* The standard decoder resolves every written prefix by scoping (innermost  *)
(* declaration on the ancestor-or-self chain) and reports (URI, local name); *)
(* the reader turns the URI back into a prefix.                              *)
(* Ref : the tree with the prefixes as written - defined for documents in     *)
(*       which the URI of every name is bound by exactly one prefix in scope  *)
(*       (otherwise "the" prefix of a URI is not determined by what the       *)
(*       decoder reports).                                                    *)
(* Impl: three designs of "URI back to prefix", selected by Variant:          *)
(*   "stack"       the declarations in scope, outermost first; an end tag     *)
(*                 drops the element's own; the prefix of a URI is that of    *)
(*                 its innermost declaration whose prefix has not been        *)
(*                 re-declared since (the code after fix 2)                   *)
(*   "map-restore" one map URI -> prefix, replaced bindings restored at the   *)
(*                 end tag (the code after fix 980d548): refuted by TLC with  *)
(*                 three elements - a prefix re-declared for another URI      *)
(*                 leaves a stale entry for its old URI                       *)
(*   "map-leaky"   the map never restored (the code as found): refuted with   *)
(*                 two elements                                               *)
(***************************************************************************)
EXTENDS Integers, Sequences, FiniteSets, TLC

URIs == {"u", "v"}
Pfx == {"", "p", "q"}
DeclOf(D, i, x) == CASE x = "" -> D.dd[i] [] x = "p" -> D.dp[i] [] x = "q" -> D.dq[i]

RECURSIVE Scope(_, _, _)
\* the URI prefix x denotes at element i ("" = unbound; for x = "" : no default namespace)
Scope(D, i, x) == IF i = 0 THEN "" ELSE IF DeclOf(D, i, x) # "" THEN DeclOf(D, i, x) ELSE Scope(D, D.par[i], x)

ElemURI(D, i) == Scope(D, i, D.pfx[i])
AttrURI(D, i) == IF D.ap[i] \in {"-", ""} THEN "" ELSE Scope(D, i, D.ap[i])       \* an unprefixed attribute has no namespace

WellFormed(D) ==
  /\ D.par[1] = 0 /\ \A i \in 2..D.n : D.par[i] \in 1..(i - 1)
  /\ \A i \in 2..D.n : \A j \in (D.par[i] + 1)..(i - 1) : D.par[j] >= D.par[i]            \* document (pre-)order
  /\ \A i \in 1..D.n : D.pfx[i] # "" => ElemURI(D, i) # ""                                  \* every used prefix is declared
  /\ \A i \in 1..D.n : D.ap[i] \notin {"-", ""} => AttrURI(D, i) # ""

BoundBy(D, i, uri) == {x \in Pfx : Scope(D, i, x) = uri}
Unambiguous(D) ==
  /\ \A i \in 1..D.n : ElemURI(D, i) # "" => BoundBy(D, i, ElemURI(D, i)) = {D.pfx[i]}
  /\ \A i \in 1..D.n : AttrURI(D, i) # "" => BoundBy(D, i, AttrURI(D, i)) = {D.ap[i]}

RECURSIVE Depth(_, _)
Depth(D, i) == IF D.par[i] = 0 THEN 0 ELSE 1 + Depth(D, D.par[i])

\* nodes as <<kind, prefix, local, uri, depth>>; the declarations are attribute nodes too (prefix "xmlns", no URI)
DeclAttrs(D, i) ==
  (IF D.dd[i] # "" THEN << <<"A", "", "xmlns", "", Depth(D, i) + 1>> >> ELSE <<>>)
  \o (IF D.dp[i] # "" THEN << <<"A", "xmlns", "p", "", Depth(D, i) + 1>> >> ELSE <<>>)
  \o (IF D.dq[i] # "" THEN << <<"A", "xmlns", "q", "", Depth(D, i) + 1>> >> ELSE <<>>)

RefNodes(D) ==
  LET RECURSIVE Go(_)
      Go(i) == IF i > D.n THEN <<>>
               ELSE << <<"E", D.pfx[i], "a", ElemURI(D, i), Depth(D, i)>> >> \o DeclAttrs(D, i)
                    \o (IF D.ap[i] = "-" THEN <<>> ELSE << <<"A", D.ap[i], "k", AttrURI(D, i), Depth(D, i) + 1>> >>)
                    \o Go(i + 1)
  IN Go(1)

-----------------------------------------------------------------------------
(* Impl, map based.  m: function URI -> prefix or "NONE" (space2prefix).      *)
M0 == [x \in URIs |-> "NONE"]
Kids(D, i) == SelectSeq([j \in 1..D.n |-> j], LAMBDA j : D.par[j] = i)

\* updateNamespaces: bind in attribute order, remembering what was replaced
DeclSeq(D, i) == SelectSeq(<< <<"", D.dd[i]>>, <<"p", D.dp[i]>>, <<"q", D.dq[i]>> >>, LAMBDA d : d[2] # "")
RECURSIVE BindAll(_, _, _)
BindAll(m, ds, saved) ==
  IF ds = <<>> THEN <<m, saved>>
  ELSE BindAll([m EXCEPT ![ds[1][2]] = ds[1][1]], Tail(ds), Append(saved, <<ds[1][2], m[ds[1][2]]>>))
RECURSIVE Restore(_, _)
Restore(m, saved) ==                                    \* in reverse order; "NONE" = the URI was unbound: delete
  IF saved = <<>> THEN m
  ELSE Restore([m EXCEPT ![saved[Len(saved)][1]] = saved[Len(saved)][2]], SubSeq(saved, 1, Len(saved) - 1))

Lookup(m, uri) == IF uri = "" THEN "" ELSE IF m[uri] = "NONE" THEN "UNKNOWN-NAMESPACE" ELSE m[uri]

(* Impl, stack based.  st: sequence of <<prefix, uri>> declarations in scope  *)
PrefixOf(st, uri) ==
  LET hits == {k \in 1..Len(st) : st[k][2] = uri /\ \A j \in (k + 1)..Len(st) : st[j][1] # st[k][1]}
  IN IF uri = "" THEN "" ELSE IF hits = {} THEN "UNKNOWN-NAMESPACE" ELSE st[CHOOSE k \in hits : \A h \in hits : h <= k][1]

NodesOf(D, i, pe, pa) ==
  << <<"E", pe, "a", ElemURI(D, i), Depth(D, i)>> >> \o DeclAttrs(D, i)
  \o (IF D.ap[i] = "-" THEN <<>> ELSE << <<"A", pa, "k", AttrURI(D, i), Depth(D, i) + 1>> >>)

RECURSIVE Walk(_, _, _, _), WalkKids(_, _, _, _, _)
\* returns <<nodes, state after the element's end tag>>; state = map or declaration stack
Walk(D, i, s, Variant) ==
  IF Variant = "stack"
    THEN LET s1 == s \o DeclSeq(D, i)                                      \* nsScopes remembers Len(s)
             k == WalkKids(D, Kids(D, i), 1, s1, Variant)
         IN <<NodesOf(D, i, PrefixOf(s1, ElemURI(D, i)), PrefixOf(s1, AttrURI(D, i))) \o k[1], SubSeq(k[2], 1, Len(s))>>
    ELSE LET b == BindAll(s, DeclSeq(D, i), <<>>)
             m1 == b[1]
             k == WalkKids(D, Kids(D, i), 1, m1, Variant)
         IN <<NodesOf(D, i, Lookup(m1, ElemURI(D, i)), Lookup(m1, AttrURI(D, i))) \o k[1],
              IF Variant = "map-leaky" THEN k[2] ELSE Restore(k[2], b[2])>>
WalkKids(D, ks, j, s, Variant) ==
  IF j > Len(ks) THEN <<<<>>, s>>
  ELSE LET r == Walk(D, ks[j], s, Variant)
           rest == WalkKids(D, ks, j + 1, r[2], Variant)
       IN <<r[1] \o rest[1], rest[2]>>

S0(Variant) == IF Variant = "stack" THEN <<>> ELSE M0
ImplNodes(D, Variant) == Walk(D, 1, S0(Variant), Variant)[1]
ImplStateAfter(D, Variant) == Walk(D, 1, S0(Variant), Variant)[2]
=============================================================================
