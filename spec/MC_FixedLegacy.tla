--------------------------- MODULE MC_FixedLegacy ---------------------------
(* one state per (lines, envelope declarations, column set); cases are replayed on the real legacy reader *)
EXTENDS FixedLegacy, Json
CONSTANTS MaxLines, EmitCases, EmitMod
VARIABLES lines, envs, cols
vars == <<lines, envs, cols>>
Cells == {"a", "b", "H", "G", "F"}
LineSet == {<<>>} \cup {<<f>> : f \in Cells} \cup {<<f, g>> : f \in Cells, g \in {"a", "b"}}
E1 == {[hdr |-> "H", ftr |-> f, nt |-> n] : f \in {"F", "H"}, n \in BOOLEAN}
E2 == {[hdr |-> "G", ftr |-> f, nt |-> n] : f \in {"F", "G"}, n \in BOOLEAN}
\* (the schema validator demands exactly one target envelope)
OneTarget(es) == Cardinality({k \in 1..Len(es) : ~es[k].nt}) = 1
EnvSets == {es \in {<<e>> : e \in E1} \cup {<<e1, e2>> : e1 \in E1, e2 \in E2} \cup {<<e2, e1>> : e1 \in E1, e2 \in E2} : OneTarget(es)}
Col(i, lp) == [idx |-> i, lp |-> lp]
ColSets == { <<Col(1, ""), Col(2, "")>>, <<Col(2, "F"), Col(1, "H")>>, <<Col(1, "G"), Col(2, "F"), Col(3, "")>> }
Init == lines \in UNION {[1..n -> LineSet] : n \in 0..MaxLines} /\ envs \in EnvSets /\ cols \in ColSets
Next == UNCHANGED vars
Spec == Init /\ [][Next]_vars
R == Ref(lines, envs, cols)
\* sanity of the specification itself: every delivered record comes from a target envelope; a fatal end delivers only a prefix
WellFormedResult == R.end \in {"eof", "fatal"} /\ Len(R.recs) <= Len(NonBlank(lines))
NonTrivial == Len(NonBlank(lines)) >= 2 /\ (Len(envs) = 2 \/ Len(R.recs) >= 1)
Emit == (EmitCases /\ (EmitMod = 1 \/ RandomElement(1..EmitMod) = 1)) =>
          PrintT(<<"CASE", ToJson([lines |-> lines, envs |-> envs, cols |-> cols, recs |-> R.recs, end |-> R.end, nt |-> NonTrivial])>>)
=============================================================================
