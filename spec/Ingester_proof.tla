--------------------------- MODULE Ingester_proof ---------------------------
(* Unbounded counterpart of MC_Ingester: for any number of nodes and any node   *)
(* identities, the protocol of Ingester.tla keeps at most one node out of the    *)
(* reader's hands, never frees a node twice and never frees a node it did not    *)
(* hand out.  Checked by the TLA+ proof system (tlapm).                          *)
EXTENDS Ingester, TLAPS

Classes == {"node", "eof", "fatal", "cont"}
NextU == \/ TRead
         \/ \E n \in Int : RRelease(n)
         \/ \E n \in Int, c \in Classes : RRead(n, c)
         \/ \E b \in BOOLEAN : RCont(b)
         \/ \E c \in {"ok", "failed", "eof", "fatal"}, nb \in BOOLEAN : TReadEnd(c, nb)
         \/ \E c \in {"raw", "err"}, n \in Int : TRaw(c, n)
SpecU == Init /\ [][NextU]_vars

IndInv == /\ held \in Int
          /\ seen \subseteq Int
          /\ freed \subseteq seen
          /\ 0 \notin seen
          /\ (held # 0 => held \in seen \ freed)
          /\ (seen \ freed) \subseteq {held}

THEOREM InitInd == Init => IndInv
  BY DEF Init, IndInv

THEOREM StepInd == IndInv /\ [NextU]_vars => IndInv'
<1> SUFFICES ASSUME IndInv, [NextU]_vars PROVE IndInv'
  OBVIOUS
<1>1. CASE TRead
  BY <1>1 DEF TRead, IndInv
<1>2. ASSUME NEW n \in Int, RRelease(n) PROVE IndInv'
  BY <1>2 DEF RRelease, IndInv
<1>3. ASSUME NEW n \in Int, NEW c \in Classes, RRead(n, c) PROVE IndInv'
  BY <1>3 DEF RRead, IndInv, Classes
<1>4. ASSUME NEW b \in BOOLEAN, RCont(b) PROVE IndInv'
  BY <1>4 DEF RCont, IndInv
<1>5. ASSUME NEW c \in {"ok", "failed", "eof", "fatal"}, NEW nb \in BOOLEAN, TReadEnd(c, nb) PROVE IndInv'
  BY <1>5 DEF TReadEnd, IndInv
<1>6. ASSUME NEW c \in {"raw", "err"}, NEW n \in Int, TRaw(c, n) PROVE IndInv'
  BY <1>6 DEF TRaw, IndInv, vars
<1>7. CASE UNCHANGED vars
  BY <1>7 DEF vars, IndInv
<1> QED
  BY <1>1, <1>2, <1>3, <1>4, <1>5, <1>6, <1>7 DEF NextU

THEOREM Safety == SpecU => [](IndInv)
  BY InitInd, StepInd, PTL DEF SpecU

\* what the invariant gives: the properties checked by TLC on the bounded model, for every number of nodes
THEOREM Consequences == IndInv => (held # 0 => held \in seen \ freed) /\ freed \subseteq seen
  BY DEF IndInv
=============================================================================
