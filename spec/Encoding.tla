------------------------------ MODULE Encoding ------------------------------
(***************************************************************************)
(* Declared input encodings and the byte-order mark (header/header.go,      *)
(* schema.go:114-119): the input bytes are decoded by the code page the    *)
(* schema declares (utf-8 = identity), and a leading U+FEFF of the         *)
(* *decoded* stream is dropped before the format reader sees it.           *)
(*                                                                         *)
(* Ref for C18: Results(bytes, enc) = Results(UTF8(Decode_enc(bytes)),     *)
(* utf-8).  This module supplies Decode: the two single-byte code pages as *)
(* total functions on 0..255 (the table x/text v0.3.8 implements, bound to *)
(* the real decoder by replaying all 512 entries), UTF-8 encoding of code  *)
(* points, and the BOM-stripping reader as a state machine over every      *)
(* chunking of its input.                                                  *)
(***************************************************************************)
EXTENDS Integers, Sequences, FiniteSets, TLC

RepChar == 65533     \* U+FFFD
BOM == 65279         \* U+FEFF

W1252High == <<8364, RepChar, 8218, 402, 8222, 8230, 8224, 8225, 710, 8240, 352, 8249, 338, RepChar, 381, RepChar,
               RepChar, 8216, 8217, 8220, 8221, 8226, 8211, 8212, 732, 8482, 353, 8250, 339, RepChar, 382, 376>>

Latin1(b) == b
W1252(b) == IF b >= 128 /\ b <= 159 THEN W1252High[b - 127] ELSE b
Decode(enc, b) == IF enc = "windows-1252" THEN W1252(b) ELSE Latin1(b)

\* UTF-8 encoding of a code point of the Basic Multilingual Plane
UTF8(cp) ==
  IF cp < 128 THEN <<cp>>
  ELSE IF cp < 2048 THEN <<192 + (cp \div 64), 128 + (cp % 64)>>
  ELSE <<224 + (cp \div 4096), 128 + ((cp \div 64) % 64), 128 + (cp % 64)>>

RECURSIVE ToUTF8(_, _)
ToUTF8(enc, bytes) == IF bytes = <<>> THEN <<>> ELSE UTF8(Decode(enc, bytes[1])) \o ToUTF8(enc, Tail(bytes))

\* table sanity (evaluated by TLC as ASSUME)
ASSUME Len(W1252High) = 32
ASSUME Cardinality({b \in 0..255 : W1252(b) = RepChar}) = 5
ASSUME \A a, b \in 0..255 : (a # b /\ W1252(a) # RepChar) => W1252(a) # W1252(b)
ASSUME \A b \in 0..255 : Latin1(b) = b /\ (b < 128 => W1252(b) = b) /\ (b >= 160 => W1252(b) = b)
ASSUME UTF8(BOM) = <<239, 187, 191>>
ASSUME UTF8(8364) = <<226, 130, 172>> /\ UTF8(233) = <<195, 169>>

-----------------------------------------------------------------------------
(* The BOM-stripping reader over a chunked byte source (utf-8 declared).    *)
(* src: the bytes; a Deliver(n) step hands the decoder the next n bytes;    *)
(* the decoder emits a rune as soon as its bytes are complete; the first    *)
(* rune is dropped iff it is U+FEFF.                                        *)
CONSTANTS Src               \* a set of byte sequences to explore

VARIABLES src, pos, pend, out, first
evars == <<src, pos, pend, out, first>>

NeedLen(b) == IF b < 128 THEN 1 ELSE IF b < 224 THEN 2 ELSE 3
CP(bs) == IF Len(bs) = 1 THEN bs[1]
          ELSE IF Len(bs) = 2 THEN (bs[1] - 192) * 64 + (bs[2] - 128)
          ELSE (bs[1] - 224) * 4096 + (bs[2] - 128) * 64 + (bs[3] - 128)

RECURSIVE Feed(_, _, _, _)
\* feed bytes one by one into (pend, out, first)
Feed(bs, p, o, f) ==
  IF bs = <<>> THEN <<p, o, f>>
  ELSE LET p1 == Append(p, bs[1])
       IN IF Len(p1) < NeedLen(p1[1]) THEN Feed(Tail(bs), p1, o, f)
          ELSE LET cp == CP(p1)
               IN IF f /\ cp = BOM THEN Feed(Tail(bs), <<>>, o, FALSE)        \* r == bom: dropped
                  ELSE Feed(Tail(bs), <<>>, Append(o, cp), FALSE)

EInit == src \in Src /\ pos = 0 /\ pend = <<>> /\ out = <<>> /\ first = TRUE
Deliver(n) ==
  /\ n \in 0..(Len(src) - pos)
  /\ LET r == Feed(SubSeq(src, pos + 1, pos + n), pend, out, first)
     IN pend' = r[1] /\ out' = r[2] /\ first' = r[3]
  /\ pos' = pos + n
  /\ UNCHANGED src
ENext == \E n \in 0..3 : Deliver(n)
ESpec == EInit /\ [][ENext]_evars

RECURSIVE Runes(_)
\* reference: decode the whole input at once
Runes(bs) == IF bs = <<>> THEN <<>> ELSE <<CP(SubSeq(bs, 1, NeedLen(bs[1])))>> \o Runes(SubSeq(bs, NeedLen(bs[1]) + 1, Len(bs)))
StripRef(rs) == IF rs # <<>> /\ rs[1] = BOM THEN Tail(rs) ELSE rs

\* whatever the chunking, once everything is delivered the reader has seen exactly the input minus a leading BOM,
\* and at no time has a BOM been passed on as the first rune
BOMTransparent ==
  /\ (pos = Len(src) => out = StripRef(Runes(src)))
  /\ (out # <<>> => (out[1] # BOM \/ (Runes(src)[1] = BOM /\ Len(Runes(src)) >= 2 /\ Runes(src)[2] = BOM)))
=============================================================================
