--------------------------- MODULE Trace_Ingester ---------------------------
(* Validation of recorded call sequences: a recording FormatReader wrapped     *)
(* around each real reader logs Read / Release / IsContinuableError, the        *)
(* driver logs Transform.Read / RawRecord.  Every line must be an enabled       *)
(* action of Ingester.tla; the invariants are evaluated in every state.         *)
EXTENDS Ingester, Json, IOUtils

VARIABLE l
Trace == ndJsonDeserialize(IOEnv.TRACE_FILE)
Ev == Trace[l]

TInit == Init /\ l = 1
Consume(e) == l <= Len(Trace) /\ Ev.ev = e /\ l' = l + 1

\* a new trace (another transform) starts: everything back to the initial state
Reset == /\ Consume("start")
         /\ inRead' = FALSE /\ sub' = "start" /\ held' = 0 /\ seen' = {} /\ freed' = {} /\ rlast' = "none"
         /\ rdone' = FALSE /\ term' = "" /\ lastOK' = FALSE /\ sawNonCont' = FALSE

TNext == \/ Reset
         \/ Consume("TRead") /\ TRead
         \/ Consume("RRelease") /\ RRelease(Ev.n)
         \/ Consume("RRead") /\ RRead(Ev.n, Ev.cls)
         \/ Consume("RCont") /\ RCont(Ev.b)
         \/ Consume("TReadEnd") /\ TReadEnd(Ev.cls, Ev.nilb)
         \/ Consume("TRaw") /\ TRaw(Ev.cls, Ev.n)
TSpec == TInit /\ [][TNext]_<<vars, l>>
TraceAccepted == TLCGet("stats").diameter - 1 = Len(Trace)
=============================================================================
