----------------------------- MODULE XPathSplit -----------------------------
(***************************************************************************)
(* removeLastFilterInXPath (idr/util.go): the stream readers split the     *)
(* target xpath into "path without its last filter" (used to mark          *)
(* candidates while a node is still being read) and the full xpath (used   *)
(* for the final check).  The xpath is a sequence of characters over       *)
(*   "a" (any other character)  "[" "]"  "'"  "\""  "/"                    *)
(*                                                                         *)
(* Ref : one forward scan as an xpath lexer would do it - string literals  *)
(*       run to the next same quote character; brackets outside literals   *)
(*       nest; if the expression ends with a bracket group, cut it off.    *)
(* Impl: the code's backward scan from the end.                            *)
(* The two agree on every well-formed expression (literals closed,         *)
(* brackets balanced).                                                     *)
(***************************************************************************)
EXTENDS Integers, Sequences, TLC

Quotes == {"'", "\""}

\* --- Ref: forward scan.  State: q (open quote char or ""), stack of positions of open "[" , lastOpen = position of the "["
\* whose matching "]" was seen most recently at depth 1 -> 0, lastClose = position of that "]".
RECURSIVE Fwd(_, _, _, _, _, _)
Fwd(s, i, q, stack, lastOpen, lastClose) ==
  IF i > Len(s) THEN [ok |-> q = "" /\ stack = <<>>, open |-> lastOpen, close |-> lastClose]
  ELSE LET c == s[i] IN
       IF q # "" THEN Fwd(s, i + 1, IF c = q THEN "" ELSE q, stack, lastOpen, lastClose)
       ELSE IF c \in Quotes THEN Fwd(s, i + 1, c, stack, lastOpen, lastClose)
       ELSE IF c = "[" THEN Fwd(s, i + 1, q, Append(stack, i), lastOpen, lastClose)
       ELSE IF c = "]" THEN
            IF stack = <<>> THEN [ok |-> FALSE, open |-> 0, close |-> 0]
            ELSE IF Len(stack) = 1 THEN Fwd(s, i + 1, q, <<>>, stack[1], i)
            ELSE Fwd(s, i + 1, q, SubSeq(stack, 1, Len(stack) - 1), lastOpen, lastClose)
       ELSE Fwd(s, i + 1, q, stack, lastOpen, lastClose)

WellFormed(s) == Fwd(s, 1, "", <<>>, 0, 0).ok
RefSplit(s) ==
  LET r == Fwd(s, 1, "", <<>>, 0, 0)
  IN IF r.ok /\ s # <<>> /\ r.close = Len(s) THEN SubSeq(s, 1, r.open - 1) ELSE s

\* --- Impl: idr/util.go:5-36
RECURSIVE SkipQuote(_, _, _), Bwd(_, _, _)
\* from pos (already one left of the closing quote) go left to the matching quote; 0 = ran off the front
SkipQuote(s, pos, q) == IF pos < 1 THEN 0 ELSE IF s[pos] = q THEN pos ELSE SkipQuote(s, pos - 1, q)
Bwd(s, pos, bracket) ==
  IF pos < 1 THEN s                                                   \* fail: return the xpath unchanged
  ELSE LET c == s[pos] IN
       IF c \in Quotes THEN LET p == SkipQuote(s, pos - 1, c) IN IF p = 0 THEN s ELSE Bwd(s, p - 1, bracket)
       ELSE IF c = "[" THEN (IF bracket = 1 THEN SubSeq(s, 1, pos - 1) ELSE Bwd(s, pos - 1, bracket - 1))
       ELSE IF c = "]" THEN Bwd(s, pos - 1, bracket + 1)
       ELSE Bwd(s, pos - 1, bracket)
ImplSplit(s) == IF s = <<>> \/ s[Len(s)] # "]" THEN s ELSE Bwd(s, Len(s) - 1, 1)
=============================================================================
