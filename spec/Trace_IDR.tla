------------------------------ MODULE Trace_IDR ------------------------------
(* Trace validation for C12: every CreateNode / AddChild / RemoveAndReleaseTree *)
(* executed on the real idr package is logged with its arguments (cells =       *)
(* pointers numbered in order of first appearance) and the complete pointer     *)
(* structure afterwards; each event must be a step of IDR with exactly that     *)
(* resulting structure, and all C12 invariants must hold after it.  IDs are     *)
(* taken from the log (only their distinctness/freshness is the property).      *)
EXTENDS IDR, Json, IOUtils

VARIABLE l
Trace == ndJsonDeserialize(IOEnv.TRACE_FILE)
Ev == Trace[l]
vars == <<ivars, l>>
IsEvent(e) == l <= Len(Trace) /\ Ev.ev = e /\ l' = l + 1

TraceInit == IInit /\ l = 1

Reset ==
  /\ IsEvent("Reset")
  /\ par' = [c \in Cells |-> NULL] /\ first' = [c \in Cells |-> NULL] /\ last' = [c \in Cells |-> NULL]
  /\ prev' = [c \in Cells |-> NULL] /\ next' = [c \in Cells |-> NULL]
  /\ ty' = [c \in Cells |-> 0] /\ data' = [c \in Cells |-> 0] /\ fs' = [c \in Cells |-> 0]
  /\ id' = [c \in Cells |-> 0] /\ st' = [c \in Cells |-> "fresh"]
  /\ nextId' = Ev.base /\ acq' = {}

\* the logged pointer structure (sequences of length K) equals the specified one
Fn(s) == [c \in Cells |-> s[c]]
Matches ==
  /\ par' = Fn(Ev.par) /\ first' = Fn(Ev.first) /\ last' = Fn(Ev.last)
  /\ prev' = Fn(Ev.prev) /\ next' = Fn(Ev.next)
  /\ ty' = Fn(Ev.ty) /\ data' = Fn(Ev.data) /\ fs' = Fn(Ev.fs)
  /\ \A c \in Cells : st'[c] \in {"live", "pooled"} => id'[c] = Ev.id[c]

TCreate == IsEvent("Create") /\ Create(Ev.c, Ev.t, Ev.d, Ev.f, Ev.id[Ev.c]) /\ Matches
TAddChild == IsEvent("AddChild") /\ AddChild(Ev.p, Ev.n) /\ Matches
TRemove == IsEvent("Remove") /\ Remove(Ev.n, Fn(Ev.id)) /\ Matches

TraceNext == Reset \/ TCreate \/ TAddChild \/ TRemove
TraceSpec == TraceInit /\ [][TraceNext]_vars
TraceAccepted == TLCGet("stats").diameter - 1 = Len(Trace)
=============================================================================
