----------------------------- MODULE FlatLines -----------------------------
(***************************************************************************)
(* Records of the csv2 / fixedlength2 readers (flatfile/csv/reader.go,     *)
(* flatfile/fixedlength/reader.go): the buffer of unprocessed lines, rows  *)
(* based and header/footer based record matching, column extraction.       *)
(*                                                                         *)
(* Input: a sequence of lines; a line is a sequence of fields (csv2) --    *)
(* for fixedlength2 a field is one rune, see Cols.  <<>> is a blank line   *)
(* (never a record line: the csv decoder and ByteReadLine drop them).      *)
(* One record declaration, repeated 0..n times (the hierarchy is C05):     *)
(*   [kind |-> "rows", rows |-> k]  or  [kind |-> "hf", footer |-> BOOLEAN] *)
(*   header = first field starts with "H"; footer = first field "F".        *)
(* Columns: [idx, li (line_index, 0 = unset), lp (line_pattern: "" | "F")]. *)
(* decl.pre = TRUE puts one more declaration in front: header "H" through   *)
(* footer "F", min 0, max 1, same columns.  Its look-ahead for the footer   *)
(* may run to the end of input and fail; the lines it buffered (and whose   *)
(* text the reader cached for pattern matching) then belong to the repeated *)
(* declaration.                                                            *)
(*                                                                         *)
(* Impl mirrors the csv2 reader: `records` is ONE flat slice of fields of  *)
(* all buffered lines, a buffered line is [start, num] into it, and        *)
(* popFrontLinesBuf shifts both.  Ref reads the logical table directly.    *)
(***************************************************************************)
EXTENDS Integers, Sequences, FiniteSets, TLC

NonBlank(lines) == SelectSeq(lines, LAMBDA ln : ln # <<>>)
StartsWith(ln, f) == ln # <<>> /\ ln[1] = f
ColLineOK(col, i, ln) == IF col.li # 0 THEN col.li = i ELSE IF col.lp # "" THEN StartsWith(ln, col.lp) ELSE TRUE

\* --- Ref: the value of every declared column of a record made of `rl` (sequence of lines)
RefCols(rl, cols) ==
  LET RECURSIVE PerCol(_)
      PerCol(c) ==
        IF c > Len(cols) THEN <<>>
        ELSE LET hits == SelectSeq([i \in 1..Len(rl) |-> i], LAMBDA i : ColLineOK(cols[c], i, rl[i]))
             IN (IF hits = <<>> THEN <<>>                                    \* no line chosen: the column yields nothing
                 ELSE LET ln == rl[hits[1]]                                  \* the first line that qualifies
                      IN << <<c, IF cols[c].idx >= 1 /\ cols[c].idx <= Len(ln) THEN ln[cols[c].idx] ELSE "">> >>)
                \o PerCol(c + 1)
  IN PerCol(1)

RECURSIVE RefRecs(_, _, _)
\* records in input order; "unexpected" when data remains that the declaration does not match
RefRecs(ls, decl, cols) ==
  IF ls = <<>> THEN [recs |-> <<>>, end |-> "eof"]
  ELSE IF decl.kind = "rows"
    THEN IF Len(ls) < decl.rows THEN [recs |-> <<>>, end |-> "unexpected"]
         ELSE LET r == RefRecs(SubSeq(ls, decl.rows + 1, Len(ls)), decl, cols)
              IN [recs |-> <<RefCols(SubSeq(ls, 1, decl.rows), cols)>> \o r.recs, end |-> r.end]
    ELSE IF ~StartsWith(ls[1], "H") THEN [recs |-> <<>>, end |-> "unexpected"]
         ELSE LET foots == IF decl.footer THEN SelectSeq([i \in 1..Len(ls) |-> i], LAMBDA i : StartsWith(ls[i], "F")) ELSE <<1>>
              IN IF foots = <<>> THEN [recs |-> <<>>, end |-> "unexpected"]      \* no footer before EOF
                 ELSE LET n == foots[1]
                          r == RefRecs(SubSeq(ls, n + 1, Len(ls)), decl, cols)
                      IN [recs |-> <<RefCols(SubSeq(ls, 1, n), cols)>> \o r.recs, end |-> r.end]

HasPre(decl) == "pre" \in DOMAIN decl /\ decl.pre
RefPre(ls, decl, cols) ==
  IF HasPre(decl) /\ ls # <<>> /\ StartsWith(ls[1], "H")
    THEN LET foots == SelectSeq([i \in 1..Len(ls) |-> i], LAMBDA i : StartsWith(ls[i], "F"))
         IN IF foots = <<>> THEN RefRecs(ls, decl, cols)                       \* no footer: the leading declaration does not match
            ELSE LET n == foots[1]
                     r == RefRecs(SubSeq(ls, n + 1, Len(ls)), decl, cols)
                 IN [recs |-> <<RefCols(SubSeq(ls, 1, n), cols)>> \o r.recs, end |-> r.end]
    ELSE RefRecs(ls, decl, cols)

Ref(lines, decl, cols) == RefPre(NonBlank(lines), decl, cols)
\* the first record of Ref is an instance of the leading declaration
PreMatched(lines, decl) ==
  LET ls == NonBlank(lines) IN HasPre(decl) /\ ls # <<>> /\ StartsWith(ls[1], "H") /\ \E i \in 1..Len(ls) : StartsWith(ls[i], "F")

-----------------------------------------------------------------------------
(* Impl: state [src, records, buf, out, end, bad, phase]                    *)
(*   src: lines not yet read; records: flat field slice; buf: Seq([start,   *)
(*   num, raw]) 0-based start as in the code; raw = the line's text as      *)
(*   cached by the first header / footer / line_pattern match on it (<<>> = *)
(*   not cached yet; the code caches the joined string, the model the field *)
(*   sequence); phase: "pre" while the leading declaration is current       *)
IInit(lines, decl) == [src |-> lines, records |-> <<>>, buf |-> <<>>, out |-> <<>>, end |-> "run", bad |-> "",
                       phase |-> IF HasPre(decl) THEN "pre" ELSE "main"]

RECURSIVE SkipBlank(_)
SkipBlank(src) == IF src # <<>> /\ src[1] = <<>> THEN SkipBlank(Tail(src)) ELSE src

\* readLine(): returns <<ok, state>>; ok = FALSE at EOF
ReadLine(s) ==
  LET src == SkipBlank(s.src)
  IN IF src = <<>> THEN <<FALSE, [s EXCEPT !.src = <<>>]>>
     ELSE <<TRUE, [s EXCEPT !.src = Tail(src),
                            !.buf = Append(@, [start |-> Len(s.records), num |-> Len(src[1]), raw |-> <<>>]),
                            !.records = @ \o src[1]]>>

\* the fields of buffered line i as the code addresses them: records[start + k - 1] (0-based slice => 1-based here start + k)
BufLine(s, i) == [k \in 1..s.buf[i].num |-> s.records[s.buf[i].start + k]]
\* what a regexp match on buffered line i looks at (line.raw, computed on first use), and the caching itself
RawOf(s, i) == IF s.buf[i].raw # <<>> THEN s.buf[i].raw ELSE BufLine(s, i)
Touch(s, i) == [s EXCEPT !.buf[i].raw = RawOf(s, i)]

\* linesToNode(decl, n)
ToCols(s, n, cols) ==
  LET RECURSIVE PerCol(_)
      PerCol(c) ==
        IF c > Len(cols) THEN <<>>
        ELSE LET hits == SelectSeq([i \in 1..n |-> i], LAMBDA i : ColLineOK(cols[c], i, RawOf(s, i)))
             IN (IF hits = <<>> THEN <<>>
                 ELSE LET b == s.buf[hits[1]]
                      IN << <<c, IF cols[c].idx < 1 \/ cols[c].idx > b.num THEN "" ELSE s.records[b.start + cols[c].idx]>> >>)
                \o PerCol(c + 1)
  IN PerCol(1)

\* popFrontLinesBuf(n)
PopFront(s, n) ==
  LET RECURSIVE Shift(_)
      Shift(i) == IF i > n THEN 0 ELSE s.buf[i].num + Shift(i + 1)
      sh == Shift(1)
  IN IF n > Len(s.buf) THEN [s EXCEPT !.bad = "popFrontLinesBuf: fewer lines than requested"]
     ELSE [s EXCEPT !.records = SubSeq(@, sh + 1, Len(@)),
                    !.buf = [i \in 1..(Len(s.buf) - n) |-> [s.buf[i + n] EXCEPT !.start = @ - sh]]]     \* the whole struct moves

RECURSIVE FillRows(_, _)
\* readAndMatchRowsBasedRecord's loop: read until `rows` lines are buffered
FillRows(s, rows) == IF Len(s.buf) >= rows THEN <<TRUE, s>> ELSE LET r == ReadLine(s) IN IF r[1] THEN FillRows(r[2], rows) ELSE <<FALSE, r[2]>>

RECURSIVE FindFooter(_, _, _)
\* readAndMatchHeaderFooterBasedRecord's loop: i is 1-based index of the line tried as footer
FindFooter(s0, i, hasFooter) ==
  LET s == IF hasFooter THEN Touch(s0, i) ELSE s0 IN
  IF ~hasFooter \/ StartsWith(RawOf(s, i), "F") THEN <<i, s>>
  ELSE IF i >= Len(s.buf)
    THEN LET r == ReadLine(s) IN IF r[1] THEN FindFooter(r[2], i + 1, hasFooter) ELSE <<0, r[2]>>
    ELSE FindFooter(s, i + 1, hasFooter)

\* one iteration of the hierarchy loop for the single repeated declaration
Step(s0, decl, cols) ==
  LET more == IF s0.buf # <<>> THEN <<TRUE, s0>> ELSE ReadLine(s0)         \* MoreUnprocessedData
      s == more[2]
  IN IF ~more[1] THEN [s EXCEPT !.end = "eof"]
     ELSE IF s.phase = "pre"
       THEN \* the leading header/footer declaration (min 0, max 1): whatever happens, the repeated one is next
            IF ~StartsWith(RawOf(s, 1), "H") THEN [Touch(s, 1) EXCEPT !.phase = "main"]
            ELSE LET f == FindFooter(Touch(s, 1), 1, TRUE)
                 IN IF f[1] = 0 THEN [f[2] EXCEPT !.phase = "main"]                \* everything read stays buffered
                    ELSE LET t == f[2] IN [PopFront([t EXCEPT !.out = Append(@, ToCols(t, f[1], cols))], f[1]) EXCEPT !.phase = "main"]
     ELSE IF decl.kind = "rows"
       THEN LET f == FillRows(s, decl.rows)
            IN IF ~f[1] THEN [f[2] EXCEPT !.end = "unexpected"]
               ELSE LET t == f[2] IN PopFront([t EXCEPT !.out = Append(@, ToCols(t, decl.rows, cols))], decl.rows)
       ELSE IF ~StartsWith(RawOf(s, 1), "H") THEN [s EXCEPT !.end = "unexpected"]
            ELSE LET f == FindFooter(Touch(s, 1), 1, decl.footer)
                 IN IF f[1] = 0 THEN [f[2] EXCEPT !.end = "unexpected"]
                    ELSE LET t == f[2] IN PopFront([t EXCEPT !.out = Append(@, ToCols(t, f[1], cols))], f[1])

RECURSIVE RunFrom(_, _, _)
RunFrom(s, decl, cols) == IF s.end # "run" \/ s.bad # "" THEN s ELSE RunFrom(Step(s, decl, cols), decl, cols)
Run(lines, decl, cols) == RunFrom(IInit(lines, decl), decl, cols)

\* buffer bookkeeping stays consistent: line i starts where line i-1 ended, everything inside `records`
OffsetsConsistent(s) ==
  /\ \A i \in 1..Len(s.buf) : s.buf[i].start = (IF i = 1 THEN 0 ELSE s.buf[i - 1].start + s.buf[i - 1].num)
  /\ (s.buf # <<>> => s.buf[Len(s.buf)].start + s.buf[Len(s.buf)].num = Len(s.records))
  /\ (s.buf = <<>> => s.records = <<>>)
  /\ \A i \in 1..Len(s.buf) : s.buf[i].raw \in {<<>>, BufLine(s, i)}          \* a cached text is the line's own text

-----------------------------------------------------------------------------
(* fixed-length column slicing (flatfile/fixedlength/decl.go:33-56): a line is a sequence of runes *)
Slice(ln, start, len) ==                      \* Ref: the rune-counted slice [start, start+len) clipped to the line
  IF start > Len(ln) THEN <<>> ELSE SubSeq(ln, start, IF start + len - 1 > Len(ln) THEN Len(ln) ELSE start + len - 1)
RECURSIVE Chop(_, _), Take(_, _)
Chop(ln, k) == IF k > 0 /\ ln # <<>> THEN Chop(Tail(ln), k - 1) ELSE ln           \* "chop off the prefix prior to StartPos"
Take(ln, k) == IF k > 0 /\ ln # <<>> THEN <<ln[1]>> \o Take(Tail(ln), k - 1) ELSE <<>>
ImplSlice(ln, start, len) == Take(Chop(ln, start - 1), len)
=============================================================================
