--------------------------- MODULE MC_XPathSplit ---------------------------
EXTENDS XPathSplit, Json
CONSTANTS MaxLen, EmitCases
VARIABLE s
Alphabet == {"a", "[", "]", "'", "\"", "/"}
Init == s \in UNION {[1..n -> Alphabet] : n \in 0..MaxLen}
Next == UNCHANGED s
Spec == Init /\ [][Next]_s
\* the backward scan cuts exactly the final predicate of every well-formed expression
Agree == WellFormed(s) => ImplSplit(s) = RefSplit(s)
\* B1: the transcription itself is bound to the real function on every string, well-formed or not
Emit == EmitCases => PrintT(<<"CASE", ToJson([s |-> s, out |-> ImplSplit(s), wf |-> WellFormed(s)])>>)
=============================================================================
