--------------------------------- MODULE Nav ---------------------------------
(***************************************************************************)
(* C11 by reduction: the xpath engine (antchfx/xpath) touches a document    *)
(* only through xpath.NodeNavigator.  idr.navigator (idr/navigator.go) and  *)
(* the reference DOM's navigator (xmlquery/query.go) are two transition     *)
(* systems over the positions of the same abstract XML document; if every   *)
(* move method returns the same flag and leads to the same position from    *)
(* every position, and the observations agree, every expression evaluates   *)
(* alike (the check is one-step from *every* position, hence complete for    *)
(* documents of the explored size, not depth-bounded).                      *)
(*                                                                         *)
(* Document: nodes 1..n in document order, par (0 = document node), kind    *)
(* "E"/"T", na[i] = number of attributes of element i.  A position is       *)
(* <<"n", i>> (node i; <<"n", 0>> the document node) or <<"a", i, k>> (the   *)
(* k-th attribute of element i).                                            *)
(*   Dom: attributes live in an index next to the element (curr, attr).     *)
(*   Idr: attributes are the *leading children* of the element, and every   *)
(*        move has to step around them.                                     *)
(***************************************************************************)
EXTENDS Integers, Sequences, FiniteSets, TLC

Kids(D, i) == SelectSeq([j \in 1..D.n |-> j], LAMBDA j : D.par[j] = i)
NA(D, i) == IF i = 0 THEN 0 ELSE D.na[i]
Doc0 == <<"n", 0>>
Positions(D) == {Doc0} \cup {<<"n", i>> : i \in 1..D.n} \cup {<<"a", i, k>> : i \in 1..D.n, k \in 1..2}
ValidPos(D, p) == p[1] = "n" \/ (D.kind[p[2]] = "E" /\ p[3] <= D.na[p[2]])

TypeOf(D, p) == IF p[1] = "a" THEN "attr" ELSE IF p[2] = 0 THEN "root" ELSE IF D.kind[p[2]] = "E" THEN "elem" ELSE "text"

Moves == {"Parent", "Child", "First", "Next", "Previous", "NextAttribute"}
Stay(p) == <<FALSE, p>>
Go(p) == <<TRUE, p>>

\* --- the reference DOM navigator (xmlquery/query.go:148-300)
DomSibs(D, i) == Kids(D, D.par[i])
IndexIn(s, x) == CHOOSE k \in 1..Len(s) : s[k] = x
DomStep(D, m, p) ==
  LET isAttr == p[1] = "a"
      i == p[2]
  IN CASE m = "Parent" -> IF isAttr THEN Go(<<"n", i>>) ELSE IF i = 0 THEN Stay(p) ELSE Go(<<"n", D.par[i]>>)
       [] m = "NextAttribute" ->
            LET cur == IF isAttr THEN p[3] ELSE 0
            IN IF cur >= NA(D, i) THEN Stay(p) ELSE Go(<<"a", i, cur + 1>>)
       [] m = "Child" -> IF isAttr \/ Kids(D, i) = <<>> THEN Stay(p) ELSE Go(<<"n", Kids(D, i)[1]>>)
       [] m = "First" ->
            IF isAttr \/ i = 0 THEN Stay(p)
            ELSE LET s == DomSibs(D, i) IN IF s[1] = i THEN Stay(p) ELSE Go(<<"n", s[1]>>)
       [] m = "Next" ->
            IF isAttr \/ i = 0 THEN Stay(p)
            ELSE LET s == DomSibs(D, i) k == IndexIn(s, i) IN IF k = Len(s) THEN Stay(p) ELSE Go(<<"n", s[k + 1]>>)
       [] m = "Previous" ->
            IF isAttr \/ i = 0 THEN Stay(p)
            ELSE LET s == DomSibs(D, i) k == IndexIn(s, i) IN IF k = 1 THEN Stay(p) ELSE Go(<<"n", s[k - 1]>>)

\* --- idr.navigator (idr/navigator.go:56-142): children of an element = its attribute nodes, then its child nodes
IdrKids(D, i) == [k \in 1..NA(D, i) |-> <<"a", i, k>>] \o [k \in 1..Len(Kids(D, i)) |-> <<"n", Kids(D, i)[k]>>]
IdrParent(D, p) == IF p[1] = "a" THEN <<"n", p[2]>> ELSE <<"n", D.par[p[2]]>>
IdrSibs(D, p) == IdrKids(D, IdrParent(D, p)[2])
IsAttr(p) == p[1] = "a"
IdrStep(D, m, p) ==
  LET root == p = Doc0
      sibs == IF root THEN <<p>> ELSE IdrSibs(D, p)
      k == IndexIn(sibs, p)
      hasPrev == k > 1
      hasNext == k < Len(sibs)
  IN CASE m = "Parent" -> IF root THEN Stay(p) ELSE Go(IdrParent(D, p))
       [] m = "NextAttribute" ->
            IF IsAttr(p) THEN (IF hasNext /\ IsAttr(sibs[k + 1]) THEN Go(sibs[k + 1]) ELSE Stay(p))
            ELSE LET ks == IdrKids(D, p[2]) IN IF ks # <<>> /\ IsAttr(ks[1]) THEN Go(ks[1]) ELSE Stay(p)
       [] m = "Child" ->
            IF IsAttr(p) THEN Stay(p)
            ELSE LET ks == SelectSeq(IdrKids(D, p[2]), LAMBDA q : ~IsAttr(q))      \* the loop skipping attribute nodes
                 IN IF ks = <<>> THEN Stay(p) ELSE Go(ks[1])
       [] m = "First" ->
            IF IsAttr(p) THEN Stay(p)
            ELSE LET RECURSIVE Back(_)
                     Back(j) == IF j > 1 /\ ~IsAttr(sibs[j - 1]) THEN Back(j - 1) ELSE j
                     f == Back(k)
                 IN IF f = k THEN Stay(p) ELSE Go(sibs[f])
       [] m = "Next" -> IF IsAttr(p) \/ ~hasNext THEN Stay(p) ELSE Go(sibs[k + 1])
       [] m = "Previous" -> IF IsAttr(p) \/ ~hasPrev \/ IsAttr(sibs[k - 1]) THEN Stay(p) ELSE Go(sibs[k - 1])

\* the two navigators are related by the identity on positions: a one-step bisimulation
Bisim(D) == \A p \in {q \in Positions(D) : ValidPos(D, q)} : \A m \in Moves : IdrStep(D, m, p) = DomStep(D, m, p)
=============================================================================
