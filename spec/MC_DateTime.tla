---------------------------- MODULE MC_DateTime ----------------------------
(* the decision table, one TLC state per row; emitted for the replayer *)
EXTENDS DateTime, Json
VARIABLE row
Rows == [inHasTZ : BOOLEAN, layout : BOOLEAN, fromGiven : BOOLEAN, toGiven : BOOLEAN]
Init == row \in Rows
Next == UNCHANGED row
Spec == Init /\ [][Next]_row
Mode == ToMode(Eff(row.inHasTZ, 0, row.fromGiven, 0).has, row.toGiven)
\* the table is total and fromTZ never matters once the text has a zone
Total == Mode \in {"keep", "convert", "overwrite"}
FromIgnored == row.inHasTZ => Eff(TRUE, 7, row.fromGiven, 9).off = 7
Emit == PrintT(<<"CASE", ToJson([row |-> row, mode |-> Mode, usesFrom |-> (~row.inHasTZ /\ row.fromGiven)])>>)
=============================================================================
