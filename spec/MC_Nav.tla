------------------------------- MODULE MC_Nav -------------------------------
(* every XML-shaped tree with N nodes (single root element, text leaves -       *)
(* adjacent text siblings included: character data cut by CDATA section         *)
(* boundaries is several text nodes) and 0..2 attributes per element            *)
EXTENDS Nav, Json
CONSTANTS N, EmitCases
VARIABLE D
RECURSIVE AncSelfP(_, _)
AncSelfP(p, i) == IF i = 0 THEN {0} ELSE {i} \cup AncSelfP(p, p[i])
Shapes == { p \in [1..N -> 0..(N - 1)] : p[1] = 0 /\ \A i \in 2..N : p[i] \in (AncSelfP(p, i - 1) \ {0}) }
Docs == { d \in [n : {N}, par : Shapes, kind : [1..N -> {"E", "T"}], na : [1..N -> 0..2]] :
            /\ d.kind[1] = "E"
            /\ \A i \in 1..N : d.kind[i] = "T" => (d.na[i] = 0 /\ \A j \in 1..N : d.par[j] # i)
            /\ \A i \in 2..N : d.kind[d.par[i]] = "E" }
Init == D \in Docs
Next == UNCHANGED D
Spec == Init /\ [][Next]_D
IsBisimulation == Bisim(D)
\* B1: every (position, move) with the specified outcome
Cases == { [p |-> p, m |-> m, ok |-> DomStep(D, m, p)[1], to |-> DomStep(D, m, p)[2], ty |-> TypeOf(D, p)] :
             p \in {q \in Positions(D) : ValidPos(D, q)}, m \in Moves }
Emit == EmitCases => PrintT(<<"CASE", ToJson([d |-> D, steps |-> Cases])>>)
=============================================================================
