------------------------------- MODULE MC_JSVM -------------------------------
EXTENDS JSVM, Json
CONSTANT WithAncestor
C(a, n) == [args |-> a, node |-> n]
\* call lists: two calls per goroutine over argument names {x, y}, on no node, a record node (id 10) or the ancestor (id 1)
NodeChoices == IF WithAncestor THEN {0, 10, 1} ELSE {0, 10}
AllCalls == { C(a, n) : a \in SUBSET {"x", "y"}, n \in NodeChoices }
CallSet == { <<c1, c2>> : c1 \in AllCalls, c2 \in AllCalls }
EmitTable == PrintT(<<"CASE", ToJson([table |-> [k \in ResultKinds |-> MapsTo(k)]])>>)
TableOnce == ((\A g \in 1..G : pc[g] = "idle" /\ todo[g] = <<C({}, 0), C({}, 0)>>) /\ pool = {}) => EmitTable
=============================================================================
