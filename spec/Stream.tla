------------------------------- MODULE Stream -------------------------------
(***************************************************************************)
(* Composition of target selection (StreamSelect) and record evaluation    *)
(* (Eval) over a whole input: what Transform.Read emits for the k-th       *)
(* record of a stream (extensions/omniv21/ingester.go:30-71: Read ->        *)
(* reader.Read -> NewParseCtx -> ParseNode -> reader.Release).              *)
(*                                                                         *)
(* At the moment the k-th target m is handed to the transform, the node    *)
(* tree consists of everything read so far minus the subtrees of earlier   *)
(* candidates (delivered ones were released, rejected ones pruned):         *)
(* PartialDoc.  Declarations may leave the record (`..`, `../a`): they see  *)
(* exactly that partial tree - ancestors and non-target siblings persist,   *)
(* earlier records do not.                                                 *)
(*                                                                         *)
(* Ref : every record is evaluated by Eval!RefRecord on its partial tree,   *)
(*       independently of all other records.                               *)
(* Impl: Eval!ImplEval with the result cache of one ParseCtx per record     *)
(*       (ingester.go:44).  Shared = TRUE is the design with one ParseCtx   *)
(*       for the whole stream: ancestors keep their node identity, so a     *)
(*       declaration anchored on an ancestor hits the entry of an earlier   *)
(*       record.  TLC finds that counterexample (cfg MC_Stream_shared).     *)
(***************************************************************************)
EXTENDS Eval

Max(S) == CHOOSE x \in S : \A y \in S : y <= x

\* the outermost nodes on the target path, i.e. all candidates the reader ever marks
Cands(D, X) == LET M == PathSel(D, All(D), X) IN {m \in M : (Anc(D, m) \cap M) = {}}

\* the node tree while record m is being transformed
PartialDoc(D, X, m) ==
  LET gone == UNION {Sub(D, e) : e \in {c \in Cands(D, X) : c < m}}
      last == Max(Sub(D, m))
  IN [D EXCEPT !.par = [i \in 1..D.n |-> IF i \in gone \/ i > last THEN -1 ELSE D.par[i]]]

\* the same set of present nodes, as the reader's state machine (StreamSelect!StepTok) has it when it delivers m
RECURSIVE PresentAt(_, _, _, _, _)
PresentAt(D, X, m, s, k) ==
  LET toks == DocToks(D)
      s1 == StepTok(D, X, FALSE, s, toks[k])
  IN IF s1.pend = m THEN s1.P ELSE PresentAt(D, X, m, s1, k + 1)
PartialAgrees(D, X) ==
  \A m \in {RefOut(D, X)[k] : k \in 1..Len(RefOut(D, X))} :
     PresentAt(D, X, m, SInit, 1) = {i \in 1..D.n : PartialDoc(D, X, m).par[i] >= 0}

RefStream(D, X, T) ==
  LET ms == RefOut(D, X) IN [k \in 1..Len(ms) |-> RefRecord(PartialDoc(D, X, ms[k]), T, ms[k])]

RECURSIVE ImplGo(_, _, _, _, _, _)
ImplGo(D, X, T, Shared, k, cache) ==
  LET ms == RefOut(D, X) IN
  IF k > Len(ms) THEN <<>>
  ELSE LET r == ImplEval(PartialDoc(D, X, ms[k]), T, 1, ms[k], IF Shared THEN cache ELSE {}, TRUE, FALSE)
       IN <<IF r.v = NilV THEN <<"null">> ELSE r.v>> \o ImplGo(D, X, T, Shared, k + 1, r.c)
ImplStream(D, X, T, Shared) == ImplGo(D, X, T, Shared, 1, {})
=============================================================================
