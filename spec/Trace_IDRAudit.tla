--------------------------- MODULE Trace_IDRAudit ---------------------------
(* C12, "every tree handed out by any reader": after every successful Read of *)
(* the real readers the driver dumps the pointer structure reachable from the *)
(* root of the delivered node (nodes numbered in pre-order; `live` = the       *)
(* nodes that, according to the pool get/put events observed through the       *)
(* verif hook, are not sitting in the pool).  TLC evaluates the structural     *)
(* predicate of IDR.tla on every dump.                                         *)
EXTENDS IDRStruct, Json, IOUtils

VARIABLE l
Trace == ndJsonDeserialize(IOEnv.TRACE_FILE)
Ev == Trace[l]

Struct(e) == [n |-> e.n, par |-> e.par, first |-> e.first, last |-> e.last, prev |-> e.prev, next |-> e.next,
              live |-> {e.live[i] : i \in 1..Len(e.live)}]

AuditOK(e) ==
  /\ e.n = e.reach                               \* no link leaves the tree reachable from the root
  /\ Struct(e).live = 1..e.n                     \* no reachable node is sitting in the pool
  /\ e.target \in 1..e.n
  /\ SoundOn(Struct(e))

Init == l = 1
Next == l <= Len(Trace) /\ AuditOK(Ev) /\ l' = l + 1
Spec == Init /\ [][Next]_l
TraceAccepted == TLCGet("stats").diameter - 1 = Len(Trace)
=============================================================================
