---------------------------- MODULE MC_CsvSkip ----------------------------
(* every input of at most MaxLen items x every (header_row_index, data_row_index) with h < d <= MaxRow *)
EXTENDS CsvSkip, TLC, Json
CONSTANTS MaxLen, MaxRow, EmitCases   \* (PerRead is CsvSkip's)
VARIABLES in, h, d
vars == <<in, h, d>>
Kinds == {"H", "D", "J", "E", "Q"}
Init == /\ in \in UNION {[1..n -> Kinds] : n \in 0..MaxLen}
        /\ h \in 0..(MaxRow - 1) /\ d \in 1..MaxRow /\ h < d
Next == UNCHANGED vars
Spec == Init /\ [][Next]_vars
Agree == Impl(in, h, d) = Ref(in, h, d)
Emit == EmitCases => PrintT(<<"CASE", ToJson([items |-> in, h |-> h, d |-> d, err |-> Impl(in, h, d).err, recs |-> Impl(in, h, d).recs])>>)
=============================================================================
