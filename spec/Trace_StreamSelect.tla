------------------------- MODULE Trace_StreamSelect -------------------------
(* Recorded runs of the real XML / JSON stream readers on random documents   *)
(* (abstract form logged together with the canonical encoding of every        *)
(* node's subtree).  For each run TLC evaluates the whole-document reference   *)
(* selection and the reader model on the logged document and requires the      *)
(* delivered subtrees to be exactly the reference's, in order and complete.    *)
EXTENDS StreamSelect, Json, IOUtils

VARIABLE l
Trace == ndJsonDeserialize(IOEnv.TRACE_FILE)
Ev == Trace[l]

Init == l = 1
Next ==
  /\ l <= Len(Trace)
  /\ LET D == Ev.d
         X == Ev.x
         ref == RefOut(D, X)
         m == Run(D, X, FALSE)
     IN /\ m.out = ref /\ m.bad = ""
        /\ Ev.delivered = [k \in 1..Len(ref) |-> Ev.encs[ref[k]]]
  /\ l' = l + 1
Spec == Init /\ [][Next]_l
TraceAccepted == TLCGet("stats").diameter - 1 = Len(Trace)
=============================================================================
