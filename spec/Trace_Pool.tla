------------------------------ MODULE Trace_Pool ------------------------------
(* Node pool hand-overs observed through the verif hook while many goroutines  *)
(* run transforms concurrently: "get" is logged right after a node was obtained *)
(* (pool or fresh allocation), "put" right before a reset node goes back, each  *)
(* with the node's pointer (numbered), its ID and a global atomic sequence      *)
(* number taken inside the hook.  A node has one owner at a time, a put comes   *)
(* from its owner, and no ID is handed out twice (Conc.tla SingleOwner,         *)
(* DistinctIDs on the real execution).                                          *)
EXTENDS Integers, Sequences, FiniteSets, TLC, Json, IOUtils
VARIABLES l, owned, ids
Trace == ndJsonDeserialize(IOEnv.TRACE_FILE)
Ev == Trace[l]
IsEvent(e) == l <= Len(Trace) /\ Ev.ev = e /\ l' = l + 1
Init == l = 1 /\ owned = {} /\ ids = {}
Get == IsEvent("get") /\ Ev.p \notin owned /\ Ev.id \notin ids /\ owned' = owned \cup {Ev.p} /\ ids' = ids \cup {Ev.id}
Put == IsEvent("put") /\ Ev.p \in owned /\ owned' = owned \ {Ev.p} /\ UNCHANGED ids
Reset == IsEvent("reset") /\ owned' = {} /\ ids' = {}
Next == Get \/ Put \/ Reset
Spec == Init /\ [][Next]_<<l, owned, ids>>
TraceAccepted == TLCGet("stats").diameter - 1 = Len(Trace)
=============================================================================
