----------------------------- MODULE MC_DocTree -----------------------------
(* Folded: one state per JSON value of depth <= Depth, width <= Width, keys from *)
(* {"", "a", "b"} (unique within an object), scalars null/true/0/1.5/""/"x".      *)
EXTENDS DocTree, Json
CONSTANTS Depth, Width, InferArrays, EmitCases, EmitMod
VARIABLE v
Scalars == {<<Tok("null", "")>>, <<Tok("bool", "true")>>, <<Tok("num", "0")>>, <<Tok("num", "1.5")>>, <<Tok("str", "")>>, <<Tok("str", "x")>>}
Keys == {"", "a", "b"}

RECURSIVE Concat(_)
Concat(ss) == IF ss = <<>> THEN <<>> ELSE ss[1] \o Concat(Tail(ss))

RECURSIVE Vals(_)
Vals(d) ==
  IF d = 0 THEN Scalars
  ELSE LET sub == Vals(d - 1)
           arrs == {<<Tok("[", "")>> \o Concat(es) \o <<Tok("]", "")>> : es \in UNION {[1..n -> sub] : n \in 0..Width}}
           keyseqs == {ks \in UNION {[1..n -> Keys] : n \in 0..Width} : \A i, j \in DOMAIN ks : i # j => ks[i] # ks[j]}
           objs == UNION { { <<Tok("{", "")>> \o Concat([i \in DOMAIN ks |-> <<Tok("key", ks[i])>> \o vs[i]]) \o <<Tok("}", "")>> :
                               vs \in [DOMAIN ks -> sub] } : ks \in keyseqs }
       IN Scalars \cup arrs \cup objs

Init == v \in Vals(Depth)
Next == UNCHANGED v
Spec == Init /\ [][Next]_v

RoundTrip == ToTokens(Build(v), InferArrays) = v
NonTrivial == Len(v) >= 5 \/ \E i \in 1..Len(v) : v[i] = Tok("key", "")
Emit == (EmitCases /\ (EmitMod = 1 \/ RandomElement(1..EmitMod) = 1)) => PrintT(<<"CASE", ToJson([toks |-> v, nt |-> NonTrivial])>>)
=============================================================================
