---------------------------- MODULE MC_FlatLines ----------------------------
(* Folded: one state per (lines, record declaration, column set).             *)
EXTENDS FlatLines, Json
CONSTANTS MaxLines, EmitCases, EmitMod
VARIABLES lines, decl, cols
vars == <<lines, decl, cols>>

Fields == {"a", "b", "H", "F"}
LineSet == {<<>>} \cup {<<f>> : f \in Fields} \cup {<<f, g>> : f \in Fields, g \in {"a", "b"}}
Decls == {[kind |-> k[1], rows |-> k[2], footer |-> k[3], pre |-> p] :
            k \in {<<"rows", 1, FALSE>>, <<"rows", 2, FALSE>>, <<"hf", 0, FALSE>>, <<"hf", 0, TRUE>>}, p \in BOOLEAN}
Col(i, li, lp) == [idx |-> i, li |-> li, lp |-> lp]
ColSets == { <<Col(1, 0, ""), Col(2, 0, "")>>, <<Col(1, 2, ""), Col(2, 1, "")>>, <<Col(2, 0, "F"), Col(1, 0, "")>>,
             <<Col(3, 0, ""), Col(1, 0, "")>>, <<Col(1, 0, ""), Col(1, 0, ""), Col(2, 3, "")>> }

Init == lines \in UNION {[1..n -> LineSet] : n \in 0..MaxLines} /\ decl \in Decls /\ cols \in ColSets
Next == UNCHANGED vars
Spec == Init /\ [][Next]_vars

R == Ref(lines, decl, cols)
I == Run(lines, decl, cols)
\* every value handed to linesToNode is the text at its declared position; records in input order; same end
ValuesAgree == I.out = R.recs /\ I.end = R.end
NoPanic == I.bad = ""
Consistent == OffsetsConsistent(I)
\* rune slicing of fixed-length columns
SliceAgree == \A ln \in UNION {[1..n -> {"a", "b"}] : n \in 0..3} : \A st \in 1..5 : \A len \in 0..4 : ImplSlice(ln, st, len) = Slice(ln, st, len)
SliceOnce == (lines = <<>> /\ decl.kind = "rows" /\ decl.rows = 1) => SliceAgree

NonTrivial == Len(NonBlank(lines)) >= 2 /\ (decl.kind = "hf" \/ decl.rows = 2 \/ decl.pre)
Emit == (EmitCases /\ (EmitMod = 1 \/ RandomElement(1..EmitMod) = 1)) =>
          PrintT(<<"CASE", ToJson([lines |-> lines, decl |-> decl, cols |-> cols, recs |-> R.recs, end |-> R.end, nt |-> NonTrivial, prem |-> PreMatched(lines, decl)])>>)
=============================================================================
