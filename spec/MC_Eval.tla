------------------------------ MODULE MC_Eval ------------------------------
(* Folded bounded instance of Eval: one TLC state per (declaration tree,      *)
(* record); Impl (with the result cache) and Ref are both evaluated inside    *)
(* the state.  Family selects the space:                                      *)
(*   "all"     every declaration tree with M nodes over the node variants     *)
(*   "collide" root{ f1: array[X], f2: object(xpath){ f1: Y } } (5 nodes):    *)
(*             textually identical declarations in anchoring and              *)
(*             non-anchoring position evaluated at the same node              *)
(*   "order"   an array with 11 constant children (fqdn string order)         *)
(*   "cast"    root{ f1: X, f2: Y }, root{ f1: array[X] }: X, Y typed sources   *)
(*             (script results of every kind) and fields / consts under every  *)
(*             result type - the conversion matrix                             *)
(*   "ietwin"  root{ f1: X, f2: Y } and root{ f1: array[X, Y] }: X, Y script     *)
(*             calls (one of them throwing) that differ at most in             *)
(*             ignore_error - equal text otherwise                             *)
(*   "sig"     root{ f1: sig[a1, a2, a3, a4] }: a call of a user function with  *)
(*             the signature (string, int64, float64, bool); every argument    *)
(*             a field or constant of its parameter's type that is present,    *)
(*             absent or empty - absent ones arrive as their own zero value    *)
(*   "pos"     root{ f1: X, f2: Y }, root{ f1: array[X], f2: Y } and               *)
(*             root{ f1: object(p){ f1: X }, f2: Y }: X, Y fields and p an       *)
(*             object anchor with positional predicates (n[1], n[2],           *)
(*             n[last()], *[last()], *[2], a/b[last()]) over records with       *)
(*             equally named siblings separated by text                        *)
(*   "tplshare" root{ f1: object(p){ f1: X }, f2: object{ f1: X } } and the same      *)
(*             with f1: array[object(p){...}]: equal bodies at an anchored and   *)
(*             an unanchored site (one template, two references)               *)
(*   "dyn"     root{ f1: dynfield[C], f2: X } and root{ f1: array[dynfield[C]], *)
(*             f2: X }: computed xpaths whose computation succeeds, is empty   *)
(*             or fails, next to a declaration with the same text             *)
EXTENDS Eval, Json

CONSTANTS M, Family, Part, Parts, KeyHasAnchor, SortByFqdn, EmitCases, EmitMod, DocN

VARIABLES D, T
vars == <<D, T>>

V(kind, xp, ty, notrim, keep, lit) == [kind |-> kind, xp |-> xp, ty |-> ty, notrim |-> notrim, keep |-> keep, lit |-> lit]

FieldV == {V("field", xp, ty, FALSE, keep, "") : xp \in 0..4, ty \in {"none", "int"}, keep \in BOOLEAN} \cup {V("field", 1, "none", TRUE, FALSE, "")}
ConstV == {V("const", 0, "none", FALSE, keep, lit) : keep \in BOOLEAN, lit \in {"x", " y ", ""}} \cup {V("const", 0, "none", TRUE, FALSE, " y "), V("const", 0, "int", FALSE, FALSE, "1")}
ObjV == {V("object", xp, "none", FALSE, keep, "") : xp \in {0, 1, 3}, keep \in BOOLEAN}
ArrV == {V("array", 0, "none", FALSE, keep, "") : keep \in BOOLEAN}
CatV == {V("concat", xp, ty, FALSE, FALSE, "") : xp \in {0, 1}, ty \in {"none", "int"}}
        \cup {V("coalesce", 0, "none", FALSE, FALSE, ""), V("upper", 0, "none", FALSE, FALSE, "")}
ExtV == {V("external", 0, "none", FALSE, FALSE, "p1"), V("external", 0, "int", FALSE, FALSE, "p2"), V("external", 0, "none", FALSE, TRUE, "p3"),
         V("external", 0, "none", FALSE, FALSE, "p4"), V("external", 0, "none", FALSE, TRUE, "p4")}
AllV == FieldV \cup ConstV \cup ObjV \cup ArrV \cup CatV \cup ExtV
LeafK == {"field", "const", "external"}

RECURSIVE AncSelfQ(_, _)
AncSelfQ(p, i) == IF i = 0 THEN {0} ELSE {i} \cup AncSelfQ(p, p[i])
TShapes(m) == { p \in [1..m -> 0..(m - 1)] : p[1] = 0 /\ \A i \in 2..m : p[i] \in (AncSelfQ(p, i - 1) \ {0}) }
ShapeSeq(m) == CHOOSE s \in [1..Cardinality(TShapes(m)) -> TShapes(m)] : \A i, j \in DOMAIN s : i # j => s[i] # s[j]
MyShapes(m) == {ShapeSeq(m)[i] : i \in {j \in DOMAIN ShapeSeq(m) : j % Parts = Part}}

Mk(m, p, v) == [m |-> m, par |-> p, kind |-> [i \in 1..m |-> v[i].kind], xp |-> [i \in 1..m |-> v[i].xp], ty |-> [i \in 1..m |-> v[i].ty],
                notrim |-> [i \in 1..m |-> v[i].notrim], keep |-> [i \in 1..m |-> v[i].keep], lit |-> [i \in 1..m |-> v[i].lit]]

TreeOK(m, p, v) ==
  /\ \A i \in 1..m : v[i].kind = "upper" => Cardinality({j \in 2..m : p[j] = i}) = 1          \* upper(s): exactly one argument
  /\ v[1] \in {V("object", 0, "none", FALSE, FALSE, ""), V("object", 0, "none", FALSE, TRUE, "")}   \* FINAL_OUTPUT
  /\ \A i \in 2..m : /\ v[p[i]].kind \notin LeafK                                   \* only composites have children
                     /\ (v[p[i]].kind \in FuncKinds => v[i].kind \in {"field", "const", "external"} \cup FuncKinds)   \* well-typed arguments
                     /\ (v[p[i]].kind \in FuncKinds => v[i].ty = "none")      \* string-typed arguments (ill-typed calls belong to C03)
                     /\ ~(v[i].kind = "array" /\ v[p[i]].kind = "array")                      \* the schema grammar forbids it

DynV == {V("dynfield", 0, ty, FALSE, keep, "") : ty \in {"none", "int"}, keep \in BOOLEAN}
DynChildV == {V("field", xp, "none", FALSE, FALSE, "") : xp \in 1..4} \cup {V("const", 0, "none", FALSE, FALSE, l) : l \in {"a", "b", ""}}
\* only computed xpaths that denote "a" / "b" (or nothing) are generated: other strings are engine territory
DynOK(d, t) == \A i \in 1..t.m : t.kind[i] = "dynfield" =>
                 LET v == RefEval(d, t, TKids(t, i)[1], 1) IN v \in {NilV, FailV, <<"s", "a">>, <<"s", "b">>}

Types == {"none", "int", "float", "boolean", "string"}
JsV == {V("jsconst", 0, ty, FALSE, keep, lit) : ty \in Types, keep \in {FALSE}, lit \in {"int:7", "float:1.5", "bool:true", "str:1", "str:1.5", "str:x", "str:true"}}
TypedV == JsV \cup {V("field", xp, ty, FALSE, FALSE, "") : xp \in {0, 1}, ty \in Types}
              \cup {V("const", 0, ty, nt, FALSE, lit) : ty \in Types, nt \in BOOLEAN, lit \in {"1", " y ", ""}}
MkIE(m, p, v, ie) == [m |-> m, par |-> p, kind |-> [i \in 1..m |-> v[i].kind], xp |-> [i \in 1..m |-> v[i].xp], ty |-> [i \in 1..m |-> v[i].ty],
                      notrim |-> [i \in 1..m |-> v[i].notrim], keep |-> [i \in 1..m |-> v[i].keep], lit |-> [i \in 1..m |-> v[i].lit], ie |-> ie]
\* fields whose xpath carries a positional predicate (Eval!XP 8..13), next to the bare names they refine
\* (kept when empty: in records this small the selected element is often empty, and a kept "" differs from the null of
\* "no match", so selecting the wrong sibling or none shows even then)
PosV == {V("field", xp, "none", FALSE, TRUE, "") : xp \in {1, 3, 8, 9, 10, 11, 12, 13}}
TwinV == {V("jsconst", 0, "none", FALSE, FALSE, lit) : lit \in {"throw:x", "str:x", "probe:x"}}
Trees ==
  CASE Family = "ietwin" ->
         { MkIE(3, <<0, 1, 1>>, <<V("object", 0, "none", FALSE, FALSE, ""), x, y>>, <<FALSE, a, b>>) : x \in TwinV, y \in TwinV, a \in BOOLEAN, b \in BOOLEAN }
         \cup { MkIE(4, <<0, 1, 2, 2>>, <<V("object", 0, "none", FALSE, FALSE, ""), V("array", 0, "none", FALSE, FALSE, ""), x, y>>, <<FALSE, FALSE, a, b>>) :
                   x \in TwinV, y \in TwinV, a \in BOOLEAN, b \in BOOLEAN }
    [] Family = "sig" ->
         { Mk(6, <<0, 1, 2, 2, 2, 2>>, <<V("object", 0, "none", FALSE, FALSE, ""), V("sig", 0, "none", FALSE, FALSE, "")>> \o a) :
             a \in {x \in [1..4 -> {y \in TypedV : y.kind \in {"field", "const"} /\ ~y.notrim}] : \A k \in 1..4 : x[k].ty = SigTy[k]} }
    [] Family = "cast" ->
         { Mk(3, <<0, 1, 1>>, <<V("object", 0, "none", FALSE, FALSE, ""), x, y>>) : x \in TypedV, y \in JsV }
         \cup { Mk(3, <<0, 1, 2>>, <<V("object", 0, "none", FALSE, FALSE, ""), V("array", 0, "none", FALSE, FALSE, ""), x>>) : x \in TypedV }
    [] Family = "dyn" ->
         { Mk(4, <<0, 1, 2, 1>>, <<V("object", 0, "none", FALSE, FALSE, ""), dv, c, x>>) : dv \in DynV, c \in DynChildV, x \in FieldV \cup DynChildV }
         \cup { Mk(5, <<0, 1, 2, 3, 1>>, <<V("object", 0, "none", FALSE, FALSE, ""), V("array", 0, "none", FALSE, FALSE, ""), dv, c, x>>) :
                   dv \in DynV, c \in DynChildV, x \in DynChildV }
    [] Family = "tplshare" ->
         \* two objects with the same body, the first anchored, the second not: rendered with templates they are two
         \* references to one template, and the second must not inherit the first one's anchor
         { Mk(5, <<0, 1, 2, 1, 4>>, <<V("object", 0, "none", FALSE, FALSE, ""), V("object", xo, "none", FALSE, FALSE, ""), x,
                                        V("object", 0, "none", FALSE, FALSE, ""), x>>) : xo \in {1, 2, 3}, x \in FieldV }
         \cup { Mk(6, <<0, 1, 2, 3, 1, 5>>, <<V("object", 0, "none", FALSE, FALSE, ""), V("array", 0, "none", FALSE, FALSE, ""),
                                              V("object", xo, "none", FALSE, FALSE, ""), x, V("object", 0, "none", FALSE, FALSE, ""), x>>) :
                   xo \in {1, 2, 3}, x \in FieldV }
    [] Family = "pos" ->
         { Mk(3, <<0, 1, 1>>, <<V("object", 0, "none", FALSE, FALSE, ""), x, y>>) : x \in PosV, y \in PosV }
         \cup { Mk(4, <<0, 1, 2, 1>>, <<V("object", 0, "none", FALSE, FALSE, ""), V("array", 0, "none", FALSE, FALSE, ""), x, y>>) : x \in PosV, y \in PosV }
         \cup { Mk(4, <<0, 1, 2, 1>>, <<V("object", 0, "none", FALSE, FALSE, ""), V("object", xo, "none", FALSE, FALSE, ""), x, y>>) :
                   xo \in {8, 9, 10, 11, 12}, x \in PosV \cup {V("field", 0, "none", FALSE, TRUE, "")}, y \in PosV }
    [] Family = "all" ->
         \* (the root is FINAL_OUTPUT, one of two variants: enumerating it separately keeps the function set below TLC's
         \* 10^6 element bound for M = 4)
         { Mk(M, p, <<r>> \o rest) : p \in MyShapes(M), rest \in [1..(M - 1) -> AllV],
                                     r \in {V("object", 0, "none", FALSE, FALSE, ""), V("object", 0, "none", FALSE, TRUE, "")} }
    [] Family = "collide" ->
         { Mk(5, <<0, 1, 2, 1, 4>>, <<V("object", 0, "none", FALSE, FALSE, ""), V("array", 0, "none", FALSE, FALSE, ""), x, o, y>>) :
             x \in FieldV, y \in FieldV, o \in {V("object", 1, "none", FALSE, FALSE, ""), V("object", 3, "none", FALSE, FALSE, "")} }
    [] Family = "order" ->
         { Mk(13, [i \in 1..13 |-> IF i = 1 THEN 0 ELSE IF i = 2 THEN 1 ELSE 2],
              [i \in 1..13 |-> IF i = 1 THEN V("object", 0, "none", FALSE, FALSE, "")
                                ELSE IF i = 2 THEN V("array", 0, "none", FALSE, FALSE, "")
                                ELSE V("const", 0, "none", FALSE, FALSE, IF i \in S THEN "x" ELSE "1")]) :
             S \in {{3, 4}, {4, 12, 13}, {3, 11}, {5, 6, 7, 8, 9, 10, 11}} }

\* records: elements a/b, texts "1" / " y ", cursor at the root element (node 1)
Labels == {<<"E", "a">>, <<"E", "b">>, <<"T", "1">>, <<"T", " y ">>, <<"T", "a">>}
DShapes(n) == { p \in [1..n -> 0..(n - 1)] : p[1] = 0 /\ \A i \in 2..n : p[i] \in (AncSelfQ(p, i - 1) \ {0}) }
Docs(n) == { d \in [n : {n}, par : DShapes(n), lab : [1..n -> Labels]] :
               /\ d.lab[1][1] = "E"
               /\ \A i \in 1..n : d.lab[i][1] = "T" => \A j \in 1..n : d.par[j] # i
               /\ \A i \in 2..n : d.lab[d.par[i]][1] = "E"
               /\ \A i, j \in 1..n : (i < j /\ d.par[i] = d.par[j] /\ d.lab[i][1] = "T" /\ d.lab[j][1] = "T")
                                      => \E k \in (i + 1)..(j - 1) : d.par[k] = d.par[i] }
Doc(d) == [n |-> d.n, par |-> d.par, kind |-> [i \in 1..d.n |-> d.lab[i][1]], nm |-> [i \in 1..d.n |-> d.lab[i][2]], at |-> [i \in 1..d.n |-> ""]]

Init == /\ T \in {t \in Trees : Family # "all" \/ TreeOK(t.m, t.par, [i \in 1..t.m |-> V(t.kind[i], t.xp[i], t.ty[i], t.notrim[i], t.keep[i], t.lit[i])])}
        /\ D \in {Doc(d) : d \in UNION {Docs(n) : n \in 1..DocN}}
        /\ (Family = "dyn" => DynOK(D, T))
Next == UNCHANGED vars
Spec == Init /\ [][Next]_vars

RefV == RefRecord(D, T, 1)
\* the value does not depend on whether the cache was hit, nor on the visiting order
CacheInvisible == ImplRecord(D, T, 1, KeyHasAnchor, SortByFqdn) = RefV

NonTrivial == T.m >= 3 /\ (\E i \in 2..T.m : T.xp[i] # 0) /\ RefV \notin {<<"null">>, FailV}
Emit == (EmitCases /\ (EmitMod = 1 \/ RandomElement(1..EmitMod) = 1)) =>
          PrintT(<<"CASE", ToJson([t |-> T, d |-> D, exp |-> RefV, nt |-> NonTrivial])>>)
=============================================================================
