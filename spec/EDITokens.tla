----------------------------- MODULE EDITokens -----------------------------
(***************************************************************************)
(* Tokenization of EDI input (extensions/omniv21/fileformat/edi/reader2.go, *)
(* go-corelib strs.ByteIndexWithEsc / ByteSplitWithEsc / ByteUnescape,      *)
(* ios.NewScannerByDelim3).                                                 *)
(*                                                                         *)
(* Input: a sequence of symbols.  "S" "E" "C" "R" are the segment, element, *)
(* component and repetition delimiters (each one abstract symbol, whatever  *)
(* its concrete byte length), "?" the release character, "r" "n" CR and LF, *)
(* anything else data.  A configuration says which of C, R, ? are           *)
(* configured (an unconfigured one is plain data), whether ignore_crlf is   *)
(* set and whether the segment delimiter is LF itself (then "n" plays the   *)
(* role of "S").                                                            *)
(*                                                                         *)
(* Ref : one left-to-right scan in which the release character makes the    *)
(*       next symbol literal; split at unescaped delimiters, level by       *)
(*       level; values have release characters removed.                     *)
(* Impl: the code's formulation - a delimiter is escaped iff the number of  *)
(*       release characters directly before it is odd (ByteIndexWithEsc),   *)
(*       splitting by repeated index search, unescaping by searching the    *)
(*       next release character (ByteUnescape).                             *)
(***************************************************************************)
EXTENDS Integers, Sequences, TLC

SegSym(cfg) == IF cfg.segIsLF THEN "n" ELSE "S"
IsRel(cfg, x) == cfg.rel /\ x = "?"

RECURSIVE DropCRLF(_)
DropCRLF(s) == IF s = <<>> THEN <<>> ELSE (IF s[1] \in {"r", "n"} THEN <<>> ELSE <<s[1]>>) \o DropCRLF(Tail(s))
Pre(cfg, s) == IF cfg.ignoreCRLF THEN DropCRLF(s) ELSE s

-----------------------------------------------------------------------------
(* Ref *)
RECURSIVE RefSplit(_, _, _, _)
\* split s at unescaped d, left to right; acc = current piece (raw, escapes kept)
RefSplit(cfg, s, d, acc) ==
  IF s = <<>> THEN <<acc>>
  ELSE IF IsRel(cfg, s[1]) /\ Len(s) >= 2 THEN RefSplit(cfg, SubSeq(s, 3, Len(s)), d, acc \o <<s[1], s[2]>>)
  ELSE IF s[1] = d THEN <<acc>> \o RefSplit(cfg, Tail(s), d, <<>>)
  ELSE RefSplit(cfg, Tail(s), d, Append(acc, s[1]))

RECURSIVE RefUnesc(_, _)
RefUnesc(cfg, s) ==
  IF s = <<>> THEN <<>>
  ELSE IF IsRel(cfg, s[1]) THEN (IF Len(s) >= 2 THEN <<s[2]>> \o RefUnesc(cfg, SubSeq(s, 3, Len(s))) ELSE <<>>)
  ELSE <<s[1]>> \o RefUnesc(cfg, Tail(s))

OnlyCRLF(p) == \A i \in 1..Len(p) : p[i] \in {"r", "n"}

\* the pieces of a segment: <<elemIndex, compIndex, value>> in order
Pieces(cfg, seg, split(_, _), unesc(_)) ==
  LET elems == split(seg, "E")
      RECURSIVE PerElem(_)
      PerElem(i) ==
        IF i > Len(elems) THEN <<>>
        ELSE LET reps == IF cfg.rep THEN split(elems[i], "R") ELSE <<elems[i]>>
                 RECURSIVE PerRep(_)
                 PerRep(k) ==
                   IF k > Len(reps) THEN <<>>
                   ELSE LET comps == IF cfg.comp THEN split(reps[k], "C") ELSE <<reps[k]>>
                        IN [j \in 1..Len(comps) |-> <<i - 1, j, unesc(comps[j])>>] \o PerRep(k + 1)
             IN PerRep(1) \o PerElem(i + 1)
  IN PerElem(1)

\* The segments of an input: raw segment bodies (terminator removed).  The scanner hands out tokens
\* "body + delimiter" (the last one possibly without delimiter, at EOF).  A token made only of CR/LF is
\* skipped: with a non-LF delimiter that can only be the unterminated tail; with LF as the delimiter it is
\* every blank line.  With LF as the delimiter a CR before it is dropped.
SegBodies(cfg, s0, split(_, _)) ==
  LET s == Pre(cfg, s0)
      parts == split(s, SegSym(cfg))
      n == Len(parts)
      skip(k) == IF k = n THEN parts[k] = <<>> \/ OnlyCRLF(parts[k])          \* unterminated tail
                 ELSE cfg.segIsLF /\ OnlyCRLF(parts[k])                        \* body + LF
      idx == SelectSeq([k \in 1..n |-> k], LAMBDA k : ~skip(k))
      dropCR(p) == IF cfg.segIsLF /\ p # <<>> /\ p[Len(p)] = "r" THEN SubSeq(p, 1, Len(p) - 1) ELSE p
  IN [k \in 1..Len(idx) |-> dropCR(parts[idx[k]])]

\* a segment whose name (first element, first repetition, first component, raw) is empty is the fatal
\* "missing segment name"; tokenization stops there
NameEmpty(cfg, body) == body = <<>> \/ body[1] = "E" \/ (cfg.rep /\ body[1] = "R") \/ (cfg.comp /\ body[1] = "C")

Tokens(cfg, s, split(_, _), unesc(_)) ==
  LET bodies == SegBodies(cfg, s, split)
      RECURSIVE Go(_)
      Go(k) == IF k > Len(bodies) THEN [segs |-> <<>>, err |-> FALSE]
               ELSE IF NameEmpty(cfg, bodies[k]) THEN [segs |-> <<>>, err |-> TRUE]
               ELSE LET r == Go(k + 1) IN [segs |-> <<Pieces(cfg, bodies[k], split, unesc)>> \o r.segs, err |-> r.err]
  IN Go(1)

RefTokens(cfg, s) == Tokens(cfg, s, LAMBDA x, d : RefSplit(cfg, x, d, <<>>), LAMBDA x : RefUnesc(cfg, x))

-----------------------------------------------------------------------------
(* Impl *)
RECURSIVE EscBefore(_, _, _)
\* number of release characters directly preceding position p
EscBefore(cfg, s, p) == IF p >= 2 /\ IsRel(cfg, s[p - 1]) THEN 1 + EscBefore(cfg, s, p - 1) ELSE 0

RECURSIVE IndexWithEsc(_, _, _, _)
\* ByteIndexWithEsc: first position >= from of an unescaped d (0 = none)
IndexWithEsc(cfg, s, d, from) ==
  IF from > Len(s) THEN 0
  ELSE IF s[from] = d
    THEN IF EscBefore(cfg, s, from) % 2 = 1 THEN IndexWithEsc(cfg, s, d, from + 1) ELSE from
    ELSE IndexWithEsc(cfg, s, d, from + 1)

RECURSIVE ImplSplit(_, _, _)
ImplSplit(cfg, s, d) ==
  LET i == IndexWithEsc(cfg, s, d, 1)
  IN IF i = 0 THEN <<s>> ELSE <<SubSeq(s, 1, i - 1)>> \o ImplSplit(cfg, SubSeq(s, i + 1, Len(s)), d)

RECURSIVE FirstRel(_, _, _)
FirstRel(cfg, s, from) == IF from > Len(s) THEN 0 ELSE IF IsRel(cfg, s[from]) THEN from ELSE FirstRel(cfg, s, from + 1)

RECURSIVE ImplUnesc(_, _)
\* ByteUnescape: copy up to the next release character, take the following symbol literally
ImplUnesc(cfg, s) ==
  LET i == FirstRel(cfg, s, 1)
  IN IF i = 0 THEN s
     ELSE IF i = Len(s) THEN SubSeq(s, 1, i - 1)             \* nothing after the release character
     ELSE SubSeq(s, 1, i - 1) \o <<s[i + 1]>> \o ImplUnesc(cfg, SubSeq(s, i + 2, Len(s)))

ImplTokens(cfg, s) == Tokens(cfg, s, LAMBDA x, d : ImplSplit(cfg, x, d), LAMBDA x : ImplUnesc(cfg, x))

\* rawSegToNode (edi/reader.go:99-135): every declared element collects all pieces with its (index, component
\* index) -- repetitions give several --; none found: the default if declared, else the segment is fatal.
\* decls: sequence of [idx, comp, dflt (BOOLEAN)]; result: <<"ok", values per decl>> or <<"missing", k>>
\* ("missing" is terminal: the Read that meets it returns a fatal error, C01's latch applies from there)
ElemLookup(pieces, decls) ==
  LET RECURSIVE Go(_)
      Go(k) ==
        IF k > Len(decls) THEN <<"ok">>
        ELSE LET hits == SelectSeq(pieces, LAMBDA p : p[1] = decls[k].idx /\ p[2] = decls[k].comp)
                 vals == [i \in 1..Len(hits) |-> hits[i][3]]
             IN IF hits = <<>> /\ ~decls[k].dflt THEN <<"missing", k>>
                ELSE LET r == Go(k + 1) IN IF r[1] = "missing" THEN r ELSE <<"ok", (IF hits = <<>> THEN <<"DEFAULT">> ELSE vals)>> \o Tail(r)
  IN Go(1)

\* a logical value survives escaping: Encode puts a release character before every delimiter / release symbol
RECURSIVE Encode(_, _)
Special(cfg, x) == x \in {"S", "E"} \/ (cfg.comp /\ x = "C") \/ (cfg.rep /\ x = "R") \/ IsRel(cfg, x) \/ (cfg.segIsLF /\ x = "n")
Encode(cfg, v) == IF v = <<>> THEN <<>> ELSE (IF Special(cfg, v[1]) THEN <<"?", v[1]>> ELSE <<v[1]>>) \o Encode(cfg, Tail(v))
=============================================================================
