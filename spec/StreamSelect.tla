---------------------------- MODULE StreamSelect ----------------------------
(***************************************************************************)
(* Streaming target selection of idr.XMLStreamReader / idr.JSONStreamReader *)
(* (idr/xmlreader.go:128-163, idr/jsonreader.go:103-208) against whole-     *)
(* document selection.                                                     *)
(*                                                                         *)
(* A document D is an ordered tree: nodes 1..D.n in document (pre-) order,  *)
(* par (0 = the document node), kind ("E" element / "T" text), nm (element  *)
(* name or text value), at (value of the one attribute "k", "" = absent).   *)
(* Both readers consume it as the token sequence start(e) / text(t) /       *)
(* end(e); for JSON start(e) is the property-name (or array-element) token  *)
(* and end(e) the token that completes the value.                          *)
(*                                                                         *)
(* An xpath X of the class the property names: steps of axis child / desc   *)
(* (`/n`, `//n`) with a name or `*` test, and a predicate on the final step *)
(* only: none | [c='v'] | [.='v'] | [@k='v'] | [c] | [not(c)]; v may be the  *)
(* empty string, which an element without any content satisfies.            *)
(*                                                                         *)
(* Impl: the readers' state machine -- the partial tree (set of present     *)
(* nodes), the candidate `stream`, candidate marking by matching the path   *)
(* without its last filter against the *partial* tree at start(e), final    *)
(* check at end(e), pruning of rejected and of released candidates.        *)
(* Ref : select on the complete document, keep outermost matches of the     *)
(* path, deliver those that satisfy the predicate themselves.              *)
(***************************************************************************)
EXTENDS Integers, Sequences, FiniteSets, TLC

RECURSIVE Anc(_, _)
\* proper ancestors of node i, including the document node 0
Anc(D, i) == IF i <= 0 THEN {} ELSE {D.par[i]} \cup Anc(D, D.par[i])      \* par = -1: detached (Stream!PartialDoc)
Sub(D, i) == {j \in 1..D.n : j = i \/ i \in Anc(D, j)}          \* subtree of i
KidsOf(D, i) == SelectSeq([j \in 1..D.n |-> j], LAMBDA j: D.par[j] = i)

RECURSIVE StrValF(_, _, _)
\* string value of node i over the present nodes P: concatenated text of its text descendants
StrValF(D, P, i) ==
  IF D.kind[i] = "T" THEN D.nm[i]
  ELSE LET ks == SelectSeq(KidsOf(D, i), LAMBDA j: j \in P)
           RECURSIVE Cat(_)
           Cat(k) == IF k > Len(ks) THEN "" ELSE StrValF(D, P, ks[k]) \o Cat(k + 1)
       IN Cat(1)

NameOK(D, c, test) == D.kind[c] = "E" /\ (test = "*" \/ D.nm[c] = test)

\* positional predicate of a child step (optional field pos of the step: "1", "2", "last"): `n[1]`, `n[2]`, `n[last()]`.
\* XPath 1.0 2.4: the position of c is its rank, in document order, among the nodes the step selects from the *same*
\* context node - for the child axis the children of c's parent that pass the node test; text siblings in between do not
\* count and do not interrupt the count; last() is the size of that set.
StepPos(s) == IF "pos" \in DOMAIN s THEN s.pos ELSE ""
PosOK(D, P, c, s) ==
  StepPos(s) = "" \/
  LET sibs == {j \in P : D.par[j] = D.par[c] /\ NameOK(D, j, s.test)}
      rank == Cardinality({j \in sibs : j <= c})
  IN CASE StepPos(s) = "1" -> rank = 1
       [] StepPos(s) = "2" -> rank = 2
       [] StepPos(s) = "last" -> rank = Cardinality(sibs)

RECURSIVE SelSteps(_, _, _, _, _)
\* nodes selected by steps[k..] from context set ctx over present nodes P
SelSteps(D, P, steps, k, ctx) ==
  IF k > Len(steps) THEN ctx
  ELSE LET s == steps[k]
           nxt == {c \in P : /\ NameOK(D, c, s.test)
                             /\ PosOK(D, P, c, s)
                             /\ IF s.axis = "child" THEN D.par[c] \in ctx
                                ELSE IF s.axis = "parent" THEN \E q \in ctx : q > 0 /\ D.par[q] = c       \* `..` / `../n`
                                ELSE \* antchfx/xpath v1.1.11 evaluates `x//n` as descendant-or-self::n of x
                                     \* (probed on the engine: /a//a selects the outer a as well)
                                     c \in ctx \/ (Anc(D, c) \cap ctx) # {}}
       IN SelSteps(D, P, steps, k + 1, nxt)

\* X.pre: a predicate on the final step that is not the last one - `path[@k='1'][last predicate]`.  Only the last predicate
\* is split off (XPathSplit.tla); this one stays in the path the candidates are marked with, so it is decided when the
\* element opens, from its attributes.
PreOK(D, c, X) == X.pre = "" \/ (c > 0 /\ D.at[c] = "1")
PathSel(D, P, X) == {c \in SelSteps(D, P, X.steps, 1, {0}) : PreOK(D, c, X)}

PredOK(D, P, c, X) ==
  CASE X.pk = "none"   -> TRUE
    [] X.pk = "child=" -> \E k \in P : D.par[k] = c /\ NameOK(D, k, X.pn) /\ StrValF(D, P, k) = X.pv
    [] X.pk = "self="  -> StrValF(D, P, c) = X.pv
    [] X.pk = "attr="  -> D.at[c] = X.pv /\ X.pv # ""
    [] X.pk = "child"  -> \E k \in P : D.par[k] = c /\ NameOK(D, k, X.pn)
    [] X.pk = "nochild" -> ~\E k \in P : D.par[k] = c /\ NameOK(D, k, X.pn)

FullSel(D, P, X) == {c \in PathSel(D, P, X) : PredOK(D, P, c, X)}

-----------------------------------------------------------------------------
(* token sequence *)
RECURSIVE Toks(_, _)
Toks(D, i) ==
  IF D.kind[i] = "T" THEN << <<"t", i>> >>
  ELSE LET ks == KidsOf(D, i)
           RECURSIVE Cat(_)
           Cat(k) == IF k > Len(ks) THEN <<>> ELSE Toks(D, ks[k]) \o Cat(k + 1)
       IN << <<"s", i>> >> \o Cat(1) \o << <<"e", i>> >>

DocToks(D) ==
  LET ks == KidsOf(D, 0)
      RECURSIVE Cat(_)
      Cat(k) == IF k > Len(ks) THEN <<>> ELSE Toks(D, ks[k]) \o Cat(k + 1)
  IN Cat(1)

-----------------------------------------------------------------------------
(* Impl.  State: P present nodes, stream (0 = none), pend (delivered, to be *)
(* removed at the next Read), out (delivered node ids in order).            *)
(* AnyNode = TRUE reproduces the final check as the code had it before the  *)
(* fix (MatchAny(root, fullXPath): satisfied by *any* node of the partial   *)
(* tree); AnyNode = FALSE is the repaired check (the candidate itself).     *)

SInit == [P |-> {}, stream |-> 0, pend |-> 0, out |-> <<>>, bad |-> ""]

\* Read entry / Release: the previously delivered candidate leaves the tree
Released(D, s) == IF s.pend = 0 THEN s ELSE [s EXCEPT !.P = @ \ Sub(D, s.pend), !.stream = 0, !.pend = 0]

StepTok(D, X, AnyNode, s0, tok) ==
  LET s == Released(D, s0) IN
  CASE tok[1] = "t" -> [s EXCEPT !.P = @ \cup {tok[2]}]
    [] tok[1] = "s" ->
         LET e == tok[2]
             P1 == s.P \cup {e}
         IN IF s.stream = 0 /\ PathSel(D, P1, X) # {}          \* streamCandidateCheck: MatchAny(root, path)
              THEN [s EXCEPT !.P = P1, !.stream = e,
                             !.bad = IF e \in PathSel(D, P1, X) THEN @ ELSE "candidate is not the matching node"]
              ELSE [s EXCEPT !.P = P1]
    [] tok[1] = "e" ->
         LET e == tok[2] IN
         IF e # s.stream THEN s
         ELSE IF X.pk = "none" \/ (IF AnyNode THEN FullSel(D, s.P, X) # {} ELSE e \in FullSel(D, s.P, X))
           THEN [s EXCEPT !.out = Append(@, e), !.pend = e]
           ELSE [s EXCEPT !.P = @ \ Sub(D, e), !.stream = 0]

RECURSIVE RunToks(_, _, _, _, _, _)
RunToks(D, X, AnyNode, s, toks, k) ==
  IF k > Len(toks) THEN s ELSE RunToks(D, X, AnyNode, StepTok(D, X, AnyNode, s, toks[k]), toks, k + 1)

Run(D, X, AnyNode) == RunToks(D, X, AnyNode, SInit, DocToks(D), 1)

-----------------------------------------------------------------------------
(* Ref *)
All(D) == 1..D.n
RefOut(D, X) ==
  LET M == PathSel(D, All(D), X)                                     \* on the path
      outer == {m \in M : (Anc(D, m) \cap M) = {}}                   \* only the outermost is a candidate
      del == {m \in outer : PredOK(D, All(D), m, X)}                 \* delivered iff it satisfies the predicate itself
  IN SelectSeq([i \in 1..D.n |-> i], LAMBDA i: i \in del)            \* document order

\* retained size after the k-th delivery (C17): present nodes once the delivered one is released
=============================================================================
