------------------------------ MODULE CsvSkip ------------------------------
(***************************************************************************)
(* Legacy csv reader (fileformat/csv/reader.go): header_row_index and      *)
(* data_row_index are *physical line numbers* (1-based).  The reader skips *)
(* to a line number by reading csv records until the csv reader's line     *)
(* counter has reached it (jumpTo); one record may span several physical   *)
(* lines (a quoted field with a line break) and empty lines are swallowed  *)
(* by the read that follows them (encoding/csv), each counting as a line.  *)
(*                                                                         *)
(* Input: a sequence of items                                              *)
(*   "H" a line that carries the declared column names                     *)
(*   "D" a data line, "J" any other one-line record                        *)
(*   "E" an empty line                                                     *)
(*   "Q" a record whose first field is quoted and spans two lines          *)
(* Ref computes, from line numbers alone, which item is the header and     *)
(* which items are delivered; Impl is the loop of the code.                *)
(***************************************************************************)
EXTENDS Integers, Sequences

CONSTANT PerRead   \* FALSE: the code (the csv reader's own line counter decides); TRUE: a design that counts one line per
                   \* record read - refuted by TLC (an empty line or a two-line record in the skipped part shifts everything)

Weight(k) == IF k = "Q" THEN 2 ELSE 1

\* --- Impl: the csv reader's Read and the code's jumpTo.  State: <<pos, numLine>>, pos = next item
RECURSIVE SkipEmpty(_, _, _)
SkipEmpty(in, pos, nl) == IF pos <= Len(in) /\ in[pos] = "E" THEN SkipEmpty(in, pos + 1, nl + 1) ELSE <<pos, nl>>
\* Read: <<item index or 0 at EOF, pos', numLine'>>
ReadRec(in, pos, nl) ==
  LET s == SkipEmpty(in, pos, nl)
  IN IF s[1] > Len(in) THEN <<0, s[1], s[2]>> ELSE <<s[1], s[1] + 1, s[2] + Weight(in[s[1]])>>
RECURSIVE JumpTo(_, _, _, _)
\* <<ok, pos', numLine'>>
JumpTo(in, pos, nl, k) ==
  IF nl >= k THEN <<TRUE, pos, nl>>
  ELSE LET r == ReadRec(in, pos, nl)
       IN IF r[1] = 0 THEN <<FALSE, r[2], r[3]>>
          ELSE JumpTo(in, r[2], IF PerRead THEN nl + 1 ELSE r[3], k)
RECURSIVE ReadAll(_, _, _)
ReadAll(in, pos, nl) == LET r == ReadRec(in, pos, nl) IN IF r[1] = 0 THEN <<>> ELSE <<r[1]>> \o ReadAll(in, r[2], r[3])

\* h = 0: no header_row_index.  Result: [err |-> BOOLEAN, recs |-> sequence of delivered item indices]
Impl(in, h, d) ==
  LET j1 == IF h = 0 THEN <<TRUE, 1, 0>> ELSE JumpTo(in, 1, 0, h - 1)
      hd == IF h = 0 THEN <<0, 1, 0>> ELSE ReadRec(in, j1[2], j1[3])
  IN IF h # 0 /\ (~j1[1] \/ hd[1] = 0 \/ in[hd[1]] # "H") THEN [err |-> TRUE, recs |-> <<>>]
     ELSE LET j2 == JumpTo(in, hd[2], hd[3], d - 1)
          IN [err |-> FALSE, recs |-> IF j2[1] THEN ReadAll(in, j2[2], j2[3]) ELSE <<>>]

\* --- Ref: by physical line numbers.  first line / last line of every item
RECURSIVE FirstLine(_, _)
FirstLine(in, i) == IF i = 1 THEN 1 ELSE FirstLine(in, i - 1) + Weight(in[i - 1])
LastLine(in, i) == FirstLine(in, i) + Weight(in[i]) - 1
Recs(in) == {i \in 1..Len(in) : in[i] # "E"}
\* The reference: the same rule as a fold over the records and their last physical lines (no reader state):
RECURSIVE Fold(_, _, _, _)
\* consume records from index i while consumed lines < k; returns <<next record index (or Len+1), consumed lines>>
Fold(in, i, consumed, k) ==
  IF consumed >= k THEN <<i, consumed>>
  ELSE IF \A j \in Recs(in) : j < i THEN <<Len(in) + 1, consumed>>
  ELSE LET r == CHOOSE j \in Recs(in) : j >= i /\ \A m \in Recs(in) : m >= i => j <= m
       IN Fold(in, r + 1, LastLine(in, r), k)
NextRec(in, i) == IF \A j \in Recs(in) : j < i THEN 0 ELSE CHOOSE j \in Recs(in) : j >= i /\ \A m \in Recs(in) : m >= i => j <= m
RECURSIVE Rest(_, _)
Rest(in, i) == LET r == NextRec(in, i) IN IF r = 0 THEN <<>> ELSE <<r>> \o Rest(in, r + 1)
Ref(in, h, d) ==
  LET f1 == IF h = 0 THEN <<1, 0>> ELSE Fold(in, 1, 0, h - 1)
      hr == IF h = 0 THEN 0 ELSE NextRec(in, f1[1])
  IN IF h # 0 /\ (f1[2] < h - 1 \/ hr = 0 \/ in[hr] # "H") THEN [err |-> TRUE, recs |-> <<>>]
     ELSE LET start == IF h = 0 THEN 1 ELSE hr + 1
              cons == IF h = 0 THEN 0 ELSE LastLine(in, hr)
              f2 == Fold(in, start, cons, d - 1)
          IN [err |-> FALSE, recs |-> IF f2[2] < d - 1 THEN <<>> ELSE Rest(in, f2[1])]
=============================================================================
