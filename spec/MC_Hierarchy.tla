---------------------------- MODULE MC_Hierarchy ----------------------------
(* Bounded instance: every well-formed hierarchy with NMin..NMax declarations   *)
(* over Names, mn in 0..2, mx in {1,2,INF}, every target position, and every     *)
(* input of at most MaxIn units over Names \cup {"X"} ("X" is undeclared).       *)
EXTENDS Hierarchy, Json

CONSTANTS NMin, NMax, MaxIn, Names, EmitCases, Edi, EmitMod,
          Filter,  \* BOOLEAN: the target carries the filter "first unit has an odd index" (leaf targets only)
          Shapes   \* set of record shapes non-group declarations may have: subset of {"name", "rows2", "hf"}

VARIABLES H, in, st
vars == <<H, in, st>>

Hier(n) == { h \in [n : {n}, edi : {Edi}, flt : {Filter}, par : [1..n -> 0..(n - 1)], grp : [1..n -> BOOLEAN], nm : [1..n -> Names], mk : [1..n -> Shapes],
                    mn : [1..n -> 0..2], mx : [1..n -> {1, 2, INF}], tgt : 1..n] :
             /\ WellFormed(h)
             /\ (Filter => ~h.grp[h.tgt])                                                            \* (the filter is defined for leaf targets)
             /\ \A i \in 1..n : h.grp[i] => (h.nm[i] = (CHOOSE x \in Names : TRUE) /\ h.mk[i] = "name")   \* irrelevant for a group
             /\ \A i \in 1..n : h.mk[i] = "rows2" => h.nm[i] = (CHOOSE x \in Names : TRUE) }            \* a wildcard has no name

Inputs == UNION {[1..k -> Names \cup {"X"} \cup (IF "hf" \in Shapes THEN {FooterName} ELSE {})] : k \in 0..MaxIn}

Init == /\ H \in UNION {Hier(n) : n \in NMin..NMax}
        /\ in \in Inputs
        /\ st = InitState(H)

Next == /\ st.status = "run" /\ st.panic = ""
        /\ st' = Step(H, in, st)
        /\ UNCHANGED <<H, in>>

Spec == Init /\ [][Next]_vars

R == Ref(H, in)

\* every delivery so far is a delivery of the reference matcher, in the same order
OutPrefix == IsPrefixOf(st.out, R.out)
\* terminal result and the full delivery sequence agree with the reference matcher
Agree == st.status # "run" => (st.out = R.out /\ st.status = R.status /\ st.errd = R.errd)
\* the panic guards of the code are unreachable (C03)
Guards == st.panic = ""
\* no unit is consumed twice; at EOF every unit has been consumed (C05: nothing dropped, nothing twice)
Span(i) == IF st.nodes[i].n = 0 THEN {} ELSE st.nodes[i].u..(st.nodes[i].u + st.nodes[i].n - 1)
Units == UNION {Span(i) : i \in 1..Len(st.nodes)}
NoDropNoDup ==
  /\ \A i, j \in 1..Len(st.nodes) : i # j => Span(i) \cap Span(j) = {}
  /\ Units = 1..(st.pos - 1)
  /\ (st.status = "eof" => st.pos = Len(in) + 1)
\* stack discipline: bottom is the root; every frame above is a child declaration of the frame below
StackShape ==
  /\ Len(st.stack) >= 1 /\ st.stack[1].d = 0
  /\ \A k \in 2..Len(st.stack) : H.par[st.stack[k].d] = st.stack[k - 1].d
  /\ \A k \in 1..Len(st.stack) : (k = 1 /\ H.edi) \/ st.stack[k].occ <= Mx(H, st.stack[k].d)
\* progress: the loop cannot spin (C03): bounded number of iterations per case
Bounded == Len(st.nodes) <= 1 + Len(in) * (H.n + 1)

Emit == (EmitCases /\ st.status # "run" /\ (EmitMod = 1 \/ RandomElement(1..EmitMod) = 1)) =>
          PrintT(<<"CASE", ToJson([h |-> H, input |-> in, out |-> st.out, status |-> st.status, errd |-> st.errd])>>)
=============================================================================
