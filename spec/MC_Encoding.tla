---------------------------- MODULE MC_Encoding ----------------------------
EXTENDS Encoding, Json
\* inputs: optional BOM, then data of 1-/2-/3-byte runes (a second U+FEFF inside the data is data)
SrcSet == { pre \o d : pre \in {<<>>, <<239, 187, 191>>},
                       d \in {<<>>, <<65>>, <<65, 66>>, <<195, 169, 65>>, <<226, 130, 172>>, <<239, 187, 191, 65>>, <<65, 239, 187, 191>>} }
\* B1 binding of the code-page tables: every (byte, encoding) pair with the code point the specification assigns
EmitTable == PrintT(<<"CASE", ToJson([enc |-> "windows-1252", table |-> [b \in 1..256 |-> W1252(b - 1)]])>>)
          /\ PrintT(<<"CASE", ToJson([enc |-> "iso-8859-1", table |-> [b \in 1..256 |-> Latin1(b - 1)]])>>)
TableOnce == (pos = 0 /\ src = <<>>) => EmitTable
=============================================================================
