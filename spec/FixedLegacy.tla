----------------------------- MODULE FixedLegacy -----------------------------
(***************************************************************************)
(* Envelopes of the legacy "fixed-length" reader, by_header_footer variant  *)
(* (extensions/omniv21/fileformat/fixedlength/reader.go:96-170).            *)
(*                                                                         *)
(* Input: lines as in FlatLines (a line is a sequence of cells, <<>> is a   *)
(* blank line; the first cell doubles as the line's marker).                *)
(* Declaration: a sequence of envelopes [hdr, ftr, nt]: an envelope starts  *)
(* at a line whose marker is hdr and runs through the first line (possibly   *)
(* the same one) whose marker is ftr; nt = not_target: such an envelope is   *)
(* kept in the tree but not delivered.  Columns [idx, lp]: cell idx of the   *)
(* first line of the envelope that matches line_pattern lp ("" = any line). *)
(*                                                                         *)
(* Documented reading order: envelopes appear in declaration order; the     *)
(* current envelope may repeat; a line that starts no envelope from the     *)
(* current one onwards ends the reading (EOF); input that ends inside an    *)
(* envelope is a fatal error.                                               *)
(***************************************************************************)
EXTENDS Integers, Sequences, FiniteSets, TLC

NonBlank(lines) == SelectSeq(lines, LAMBDA ln : ln # <<>>)
Marker(ln) == ln[1]

\* first envelope index j >= i whose header starts line ln (0 = none)
RECURSIVE FindEnv(_, _, _)
FindEnv(envs, i, ln) == IF i > Len(envs) THEN 0 ELSE IF envs[i].hdr = Marker(ln) THEN i ELSE FindEnv(envs, i + 1, ln)

\* index of the first line >= p whose marker is f (0 = none)
RECURSIVE FindFooter(_, _, _)
FindFooter(ls, p, f) == IF p > Len(ls) THEN 0 ELSE IF Marker(ls[p]) = f THEN p ELSE FindFooter(ls, p + 1, f)

ColVals(rl, cols) ==
  LET RECURSIVE PerCol(_)
      PerCol(c) ==
        IF c > Len(cols) THEN <<>>
        ELSE LET hits == SelectSeq([i \in 1..Len(rl) |-> i], LAMBDA i : cols[c].lp = "" \/ Marker(rl[i]) = cols[c].lp)
             IN (IF hits = <<>> THEN <<>>
                 ELSE LET ln == rl[hits[1]]
                      IN << <<c, IF cols[c].idx <= Len(ln) THEN ln[cols[c].idx] ELSE "">> >>)
                \o PerCol(c + 1)
  IN PerCol(1)

RECURSIVE Go(_, _, _, _)
\* ls: remaining non-blank lines; i: current envelope index (1-based)
Go(ls, envs, cols, i) ==
  IF ls = <<>> THEN [recs |-> <<>>, end |-> "eof"]
  ELSE LET j == FindEnv(envs, i, ls[1])
       IN IF j = 0 THEN [recs |-> <<>>, end |-> "eof"]                       \* no envelope starts here: reading ends
          ELSE LET f == FindFooter(ls, 1, envs[j].ftr)
               IN IF f = 0 THEN [recs |-> <<>>, end |-> "fatal"]              \* incomplete envelope
                  ELSE LET r == Go(SubSeq(ls, f + 1, Len(ls)), envs, cols, j)
                       IN IF envs[j].nt THEN r
                          ELSE [recs |-> <<ColVals(SubSeq(ls, 1, f), cols)>> \o r.recs, end |-> r.end]

Ref(lines, envs, cols) == Go(NonBlank(lines), envs, cols, 1)
=============================================================================
