---------------------------- MODULE MC_Transform ----------------------------
(* Bounded instance of Transform: the ingester is a finite script of results;  *)
(* once the script is exhausted it reports eof for ever.  Every call word over *)
(* {Read, RawRecord} up to MaxCalls is explored for every script up to MaxLen. *)
EXTENDS Transform, Json, FiniteSets

CONSTANTS MaxLen, MaxCalls, EmitCases

VARIABLES script0, script, hist
vars == <<tvars, script0, script, hist>>

Sym == {[k |-> "ok", v |-> 1, junk |-> FALSE], [k |-> "ok", v |-> 2, junk |-> FALSE],
        [k |-> "cont", v |-> 1, junk |-> FALSE], [k |-> "cont", v |-> 2, junk |-> TRUE],
        [k |-> "fatal", v |-> 1, junk |-> FALSE], [k |-> "fatal", v |-> 2, junk |-> TRUE],
        [k |-> "eof", v |-> 0, junk |-> FALSE]}

Scripts == UNION {[1..n -> Sym] : n \in 0..MaxLen}

EofRes == [k |-> "eof", v |-> 0, junk |-> FALSE]

Init == /\ TInit
        /\ script0 \in Scripts
        /\ script = script0
        /\ hist = <<>>

NextRes == IF script = <<>> THEN EofRes ELSE Head(script)

DoRead ==
  /\ Len(hist) < MaxCalls
  /\ \/ ReadLatched /\ UNCHANGED script
     \/ ReadThrough(NextRes) /\ script' = (IF script = <<>> THEN script ELSE Tail(script))
  /\ hist' = Append(hist, [op |-> "Read", class |-> reply'.class, v |-> reply'.v, nilb |-> reply'.nilb, ing |-> ingCalls'])
  /\ UNCHANGED script0

DoRaw ==
  /\ Len(hist) < MaxCalls
  /\ RawRecord
  /\ hist' = Append(hist, [op |-> "Raw", class |-> reply'.class, v |-> reply'.v, nilb |-> reply'.nilb, ing |-> ingCalls'])
  /\ UNCHANGED <<script0, script>>

Next == DoRead \/ DoRaw

Spec == Init /\ [][Next]_vars

\* B1: every maximal call word with the replies the specification expects
Emit == (EmitCases /\ Len(hist) = MaxCalls) =>
           PrintT(<<"CASE", ToJson([script |-> script0, calls |-> hist])>>)

\* progress: an un-latched Read consumes one ingester result; a finite script is
\* exhausted after Len(script0)+1 ingester calls at most.
BoundedIngesterCalls == ingCalls <= Len(script0) + 1
=============================================================================
