---------------------------- MODULE MC_Transform ----------------------------
(* Bounded instance of Transform: the ingester is a finite script of results;  *)
(* once the script is exhausted it reports eof for ever.  Every call word over *)
(* {Read, RawRecord} up to MaxCalls is explored for every script up to MaxLen. *)
EXTENDS Transform, Json, FiniteSets

CONSTANTS MaxLen, MaxCalls, EmitCases,
          FaultClass      \* "none": no I/O fault symbol; "fatal" / "cont": how the format reader classifies a failing io.Reader (C16)

VARIABLES script0, script, hist, faulted, afterFault
vars == <<tvars, script0, script, hist, faulted, afterFault>>

Sym == {[k |-> "ok", v |-> 1, junk |-> FALSE], [k |-> "ok", v |-> 2, junk |-> FALSE],
        [k |-> "cont", v |-> 1, junk |-> FALSE], [k |-> "cont", v |-> 2, junk |-> TRUE],
        [k |-> "fatal", v |-> 1, junk |-> FALSE], [k |-> "fatal", v |-> 2, junk |-> TRUE],
        [k |-> "eof", v |-> 0, junk |-> FALSE]}
       \cup (IF FaultClass = "none" THEN {} ELSE {[k |-> "iofail", v |-> 9, junk |-> FALSE]})
\* once the input reader has failed it keeps failing: every later ingester call yields the same class of error
FaultRes == [k |-> FaultClass, v |-> 9, junk |-> FALSE]

Scripts == UNION {[1..n -> Sym] : n \in 0..MaxLen}

EofRes == [k |-> "eof", v |-> 0, junk |-> FALSE]

Init == /\ TInit
        /\ script0 \in Scripts
        /\ script = script0
        /\ hist = <<>>
        /\ faulted = FALSE /\ afterFault = 0

NextRes == IF faulted THEN FaultRes
           ELSE IF script = <<>> THEN EofRes
           ELSE IF Head(script).k = "iofail" THEN FaultRes ELSE Head(script)

DoRead ==
  /\ Len(hist) < MaxCalls
  /\ \/ ReadLatched /\ UNCHANGED <<script, faulted, afterFault>>
     \/ /\ ReadThrough(NextRes) /\ script' = (IF script = <<>> \/ faulted THEN script ELSE Tail(script))
        /\ faulted' = (faulted \/ (script # <<>> /\ Head(script).k = "iofail"))
        /\ afterFault' = IF faulted THEN afterFault + 1 ELSE afterFault
  /\ hist' = Append(hist, [op |-> "Read", class |-> reply'.class, v |-> reply'.v, nilb |-> reply'.nilb, ing |-> ingCalls'])
  /\ UNCHANGED script0

DoRaw ==
  /\ Len(hist) < MaxCalls
  /\ RawRecord
  /\ hist' = Append(hist, [op |-> "Raw", class |-> reply'.class, v |-> reply'.v, nilb |-> reply'.nilb, ing |-> ingCalls'])
  /\ UNCHANGED <<script0, script, faulted, afterFault>>

Next == DoRead \/ DoRaw

Spec == Init /\ [][Next]_vars

\* B1: every maximal call word with the replies the specification expects
Emit == (EmitCases /\ Len(hist) = MaxCalls) =>
           PrintT(<<"CASE", ToJson([script |-> script0, calls |-> hist])>>)

\* progress: an un-latched Read consumes one ingester result; a finite script is
\* exhausted after Len(script0)+1 ingester calls at most.
BoundedIngesterCalls == FaultClass # "cont" => ingCalls <= Len(script0) + 1
\* C16 at design level: after the reader has failed, no further ingester call is made (the failure was terminal) --
\* which holds exactly when the format reader classifies it as non-continuable
FaultIsTerminal == afterFault = 0
=============================================================================
