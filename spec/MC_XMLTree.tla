---------------------------- MODULE MC_XMLTree ----------------------------
(* one state per document with N elements *)
EXTENDS XMLTree, Json
CONSTANTS N, Variant, EmitCases, EmitMod
VARIABLE D
Shapes == {p \in [1..N -> 0..(N - 1)] : p[1] = 0 /\ \A i \in 2..N : p[i] \in 1..(i - 1)}
Docs == {d \in [n : {N}, par : Shapes, pfx : [1..N -> Pfx], dd : [1..N -> {"", "u"}], dp : [1..N -> {"", "u", "v"}], dq : [1..N -> {"", "u"}],
                ap : [1..N -> {"-", "p"}]] : WellFormed(d) /\ Unambiguous(d)}
Init == D \in Docs
Next == UNCHANGED D
Spec == Init /\ [][Next]_D
\* the reader reports the prefixes as written, and leaves no binding behind
PrefixesPreserved == ImplNodes(D, Variant) = RefNodes(D)
NothingLeaks == ImplStateAfter(D, Variant) = S0(Variant)
NonTrivial == \E i \in 2..N : D.dd[i] # "" \/ D.dp[i] # "" \/ D.dq[i] # ""
Emit == (EmitCases /\ (EmitMod = 1 \/ RandomElement(1..EmitMod) = 1)) =>
          PrintT(<<"CASE", ToJson([d |-> D, exp |-> RefNodes(D), nt |-> NonTrivial])>>)
=============================================================================
