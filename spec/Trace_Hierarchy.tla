--------------------------- MODULE Trace_Hierarchy ---------------------------
(* Validation of recorded runs of the real hierarchical readers (scripted     *)
(* RecReader, csv2, fixedlength2, edi) on hierarchies and unit sequences far   *)
(* beyond the exhaustively enumerated scope.  One event = one complete run:    *)
(* the hierarchy, the unit sequence, and what the implementation delivered     *)
(* (instances as pre-order <<node name, first unit, depth, last unit>>) and how it ended.       *)
(* TLC evaluates both the reference matcher and the stack machine on the       *)
(* logged case and demands that the observation equals both.                   *)
EXTENDS Hierarchy, Json, IOUtils

VARIABLE l
Trace == ndJsonDeserialize(IOEnv.TRACE_FILE)
Ev == Trace[l]

\* node name an implementation gives to an instance of declaration d
NameOf(H, d, impl) ==
  IF impl = "edi" /\ ~H.grp[d] THEN H.nm[d] ELSE "d" \o ToString(d)

View(H, out, impl) ==
  [i \in 1..Len(out) |-> [k \in 1..Len(out[i]) |-> <<NameOf(H, out[i][k][1], impl), out[i][k][2], out[i][k][3], out[i][k][4]>>]]

ErrName(H, d, impl) == IF d = 0 THEN "" ELSE NameOf(H, d, impl)

Init == l = 1
Next ==
  /\ l <= Len(Trace)
  /\ LET H == Ev.h
         in == Ev.input
         r == Ref(H, in)
         m == Run(H, in)
     IN /\ WellFormed(H)
        /\ m.panic = ""
        /\ m.out = r.out /\ m.status = r.status /\ m.errd = r.errd       \* Impl model = Ref on this case
        /\ Ev.out = View(H, r.out, Ev.impl)                              \* the code delivered exactly Ref's instances
        \* ("fatal": a fatal error whose wording the driver does not recognise - the class is what the property fixes)
        /\ (Ev.status = r.status \/ (Ev.status = "fatal" /\ r.status \in {"min", "unexpected"}))
        /\ ((Ev.status = "min" /\ Ev.errname # "") => Ev.errname = ErrName(H, r.errd, Ev.impl))
  /\ l' = l + 1
Spec == Init /\ [][Next]_l
TraceAccepted == TLCGet("stats").diameter - 1 = Len(Trace)
=============================================================================
