--------------------------- MODULE Trace_FlatLines ---------------------------
(* Random larger tables read by the real csv2 reader: TLC evaluates FlatLines!Ref *)
(* (and the buffer model FlatLines!Run) on the logged table and requires the       *)
(* observed column values (mapped back to field symbols, columns sorted by their   *)
(* position in the declaration) and the terminal class to be exactly those.        *)
EXTENDS FlatLines, Json, IOUtils
VARIABLE l
Trace == ndJsonDeserialize(IOEnv.TRACE_FILE)
Ev == Trace[l]
Init == l = 1
Next ==
  /\ l <= Len(Trace)
  /\ LET ref == Ref(Ev.lines, Ev.decl, Ev.cols)
         run == Run(Ev.lines, Ev.decl, Ev.cols)
     IN /\ run.out = ref.recs /\ run.end = ref.end /\ run.bad = ""
        /\ Ev.end = ref.end
        \* (an instance of the leading, non-target declaration is observable only from a later record's parent)
        /\ \/ Ev.obs = ref.recs
           \/ PreMatched(Ev.lines, Ev.decl) /\ Len(ref.recs) = 1 /\ Ev.obs = <<>>
  /\ l' = l + 1
Spec == Init /\ [][Next]_l
TraceAccepted == TLCGet("stats").diameter - 1 = Len(Trace)
=============================================================================
