-------------------------------- MODULE IDR --------------------------------
(***************************************************************************)
(* The node arena of idr/node.go: the six link fields of every cell,       *)
(* CreateNode (sync.Pool get or fresh allocation), AddChild (lines         *)
(* 135-146), RemoveAndReleaseTree (the four unlink cases of lines 150-172)  *)
(* and recycle (reset + new ID + put, children first, lines 174-187), with *)
(* node caching on or off.                                                 *)
(*                                                                         *)
(* Cells are 1..K; 0 is nil.  st[c] says who owns cell c:                  *)
(*   "fresh"   never allocated                                             *)
(*   "live"    handed out by CreateNode and not released since             *)
(*   "pooled"  sitting in the pool                                         *)
(*   "garbage" released while caching is off (never reused)                *)
(***************************************************************************)
EXTENDS IDRStruct

CONSTANTS K, Pooling

Cells == 1..K

VARIABLES par, first, last, prev, next,   \* links: [Cells -> Cells \cup {NULL}]
          ty, data, fs,                     \* payload: node type (0 = reset), data (0 = ""), FormatSpecific (0 = nil)
          id,                               \* Node.ID
          st,                               \* ownership
          nextId,                           \* the process-wide ID counter
          acq                               \* history: IDs carried by acquisitions so far

links == <<par, first, last, prev, next>>
ivars == <<par, first, last, prev, next, ty, data, fs, id, st, nextId, acq>>

IInit ==
  /\ par = [c \in Cells |-> NULL] /\ first = [c \in Cells |-> NULL] /\ last = [c \in Cells |-> NULL]
  /\ prev = [c \in Cells |-> NULL] /\ next = [c \in Cells |-> NULL]
  /\ ty = [c \in Cells |-> 0] /\ data = [c \in Cells |-> 0] /\ fs = [c \in Cells |-> 0]
  /\ id = [c \in Cells |-> 0]
  /\ st = [c \in Cells |-> "fresh"]
  /\ nextId = 0
  /\ acq = {}

AncSelf(c) == AncSelfF(par, c, K + 1)

ChildSeq(p) == ChildSeqF(next, first[p], K + 1)

RECURSIVE PostOrderF(_, _, _, _)
\* recycle order: children (in sibling order) before the node itself
PostOrderF(f, nx, c, fuel) ==
  IF c = NULL \/ fuel = 0 THEN <<>>
  ELSE LET RECURSIVE Kids(_, _)
           Kids(k, fl) == IF k = NULL \/ fl = 0 THEN <<>> ELSE PostOrderF(f, nx, k, fuel - 1) \o Kids(nx[k], fl - 1)
       IN Kids(f[c], K + 1) \o <<c>>
PostOrder(c) == PostOrderF(first, next, c, K + 1)

IndexOf(s, x) == CHOOSE i \in 1..Len(s) : s[i] = x

-----------------------------------------------------------------------------
\* CreateNode: `c` is whichever cell the allocator hands out; the allocator only ever holds
\* pooled cells (caching on) or makes a fresh one.  nid: the ID a fresh cell receives
\* (allocNode -> reset -> newNodeID); a pooled cell keeps the ID assigned when it was recycled.
Max(a, b) == IF a >= b THEN a ELSE b
Create(c, t, d, f, nid) ==
  /\ \/ st[c] = "fresh"
     \/ Pooling /\ st[c] = "pooled"
  /\ IF st[c] = "fresh"
       THEN /\ id' = [id EXCEPT ![c] = nid]
            /\ nextId' = Max(nextId, nid)
            /\ acq' = acq \cup {nid}
       ELSE /\ UNCHANGED <<id, nextId>>
            /\ acq' = acq \cup {id[c]}
  /\ ty' = [ty EXCEPT ![c] = t]
  /\ data' = [data EXCEPT ![c] = d]
  /\ fs' = [fs EXCEPT ![c] = f]
  /\ st' = [st EXCEPT ![c] = "live"]
  /\ UNCHANGED links
CounterId == nextId + 1          \* what the code's atomic counter yields

\* AddChild(parent, n): n becomes the new last child
AddChild(p, n) ==
  /\ st[p] = "live" /\ st[n] = "live"
  /\ par[n] = NULL /\ n \notin AncSelf(p)          \* the callers attach detached nodes only
  /\ par' = [par EXCEPT ![n] = p]
  /\ IF first[p] = NULL
       THEN /\ first' = [first EXCEPT ![p] = n]
            /\ prev' = [prev EXCEPT ![n] = NULL]
            /\ next' = [next EXCEPT ![n] = NULL]
       ELSE /\ first' = first
            /\ next' = [next EXCEPT ![last[p]] = n, ![n] = NULL]
            /\ prev' = [prev EXCEPT ![n] = last[p]]
  /\ last' = [last EXCEPT ![p] = n]
  /\ UNCHANGED <<ty, data, fs, id, st, nextId, acq>>

\* the unlink part of RemoveAndReleaseTree, as four cases
Unlinked(n) ==
  LET p == par[n] IN
  IF p = NULL THEN [f |-> first, l |-> last, pv |-> prev, nx |-> next]
  ELSE IF first[p] = n
    THEN IF last[p] = n
      THEN [f |-> [first EXCEPT ![p] = NULL], l |-> [last EXCEPT ![p] = NULL], pv |-> prev, nx |-> next]
      ELSE [f |-> [first EXCEPT ![p] = next[n]], l |-> last, pv |-> [prev EXCEPT ![next[n]] = NULL], nx |-> next]
    ELSE IF last[p] = n
      THEN [f |-> first, l |-> [last EXCEPT ![p] = prev[n]], pv |-> prev, nx |-> [next EXCEPT ![prev[n]] = NULL]]
      ELSE [f |-> first, l |-> last, pv |-> [prev EXCEPT ![next[n]] = prev[n]], nx |-> [next EXCEPT ![prev[n]] = next[n]]]

\* the IDs recycle assigns with the code's counter: children first, in sibling order
CounterIds(n) == LET order == PostOrder(n) IN [c \in SeqToSet(order) |-> nextId + IndexOf(order, c)]
MaxOf(S) == CHOOSE x \in S : \A y \in S : y <= x

\* nids: the new ID of every recycled cell
Remove(n, nids) ==
  /\ st[n] = "live"
  /\ LET u == Unlinked(n)
         order == PostOrder(n)                    \* recycle visits children first
         sub == SeqToSet(order)
     IN IF Pooling
          THEN /\ par' = [c \in Cells |-> IF c \in sub THEN NULL ELSE par[c]]
               /\ first' = [c \in Cells |-> IF c \in sub THEN NULL ELSE u.f[c]]
               /\ last' = [c \in Cells |-> IF c \in sub THEN NULL ELSE u.l[c]]
               /\ prev' = [c \in Cells |-> IF c \in sub THEN NULL ELSE u.pv[c]]
               /\ next' = [c \in Cells |-> IF c \in sub THEN NULL ELSE u.nx[c]]
               /\ ty' = [c \in Cells |-> IF c \in sub THEN 0 ELSE ty[c]]
               /\ data' = [c \in Cells |-> IF c \in sub THEN 0 ELSE data[c]]
               /\ fs' = [c \in Cells |-> IF c \in sub THEN 0 ELSE fs[c]]
               /\ id' = [c \in Cells |-> IF c \in sub THEN nids[c] ELSE id[c]]
               /\ nextId' = Max(nextId, MaxOf({nids[c] : c \in sub}))
               /\ st' = [c \in Cells |-> IF c \in sub THEN "pooled" ELSE st[c]]
          ELSE /\ first' = u.f /\ last' = u.l /\ prev' = u.pv /\ next' = u.nx
               /\ st' = [c \in Cells |-> IF c \in sub THEN "garbage" ELSE st[c]]
               /\ UNCHANGED <<par, ty, data, fs, id, nextId>>
  /\ UNCHANGED acq

-----------------------------------------------------------------------------
(* C12 *)
Live == {c \in Cells : st[c] = "live"}

LinksSound ==
  SoundOn([n |-> K, par |-> par, first |-> first, last |-> last, prev |-> prev, next |-> next, live |-> Live])

\* a node sitting in the pool is blank, so a freshly obtained node is blank
PooledBlank ==
  \A c \in Cells : st[c] = "pooled" =>
     /\ par[c] = NULL /\ first[c] = NULL /\ last[c] = NULL /\ prev[c] = NULL /\ next[c] = NULL
     /\ ty[c] = 0 /\ data[c] = 0 /\ fs[c] = 0

\* a released node is not reachable from a live tree
NoDangling ==
  \A c \in Live : \A x \in {par[c], first[c], last[c]} : x # NULL => x \in Live

\* IDs of cells that can still be handed out or are in use are pairwise distinct, and differ from
\* every ID an earlier acquisition carried
IdsDistinct ==
  /\ \A a, b \in Cells : (a # b /\ st[a] \in {"live", "pooled"} /\ st[b] \in {"live", "pooled"}) => id[a] # id[b]
  /\ \A c \in Cells : st[c] = "pooled" => id[c] \notin acq
  /\ \A c \in Cells : st[c] = "live" => id[c] \in acq
  /\ \A c \in Cells : id[c] <= nextId
  /\ \A x \in acq : x <= nextId
=============================================================================
