------------------------------ MODULE DocTree ------------------------------
(***************************************************************************)
(* JSON documents <-> node trees (idr/jsonreader.go:74-188 building,        *)
(* idr/marshal2.go:21-205 converting back with useJSONType = true).         *)
(*                                                                         *)
(* A JSON value is its decoder token stream, a sequence of strings:         *)
(*   "{" "}" "[" "]"   delimiters                                          *)
(*   "k:<key>"         an object key                                       *)
(*   "s:<text>" "n:<number>" "b:true" "b:false" "null"   scalars           *)
(* Build(toks) runs the reader's token handlers and yields the node tree    *)
(* (nodes in creation order: [par, name, text (BOOLEAN), jt (type flags),   *)
(* data]).  ToTokens(tree) is nodeToInterface rendered back as a token      *)
(* stream.  C08 (JSON half): ToTokens(Build(v)) = v for every value v with  *)
(* unique keys.                                                             *)
(*                                                                         *)
(* InferArrays = TRUE is marshal2.go as it was before the fix: a node whose *)
(* element children all share one name -- including a single child named    *)
(* "" -- is rendered as an array even if the reader typed it as an object.  *)
(***************************************************************************)
EXTENDS Integers, Sequences, FiniteSets, TLC

\* tokens are records to stay TLC-friendly: [t |-> "{" | "}" | "[" | "]" | "key" | "str" | "num" | "bool" | "null", v |-> string]
Tok(t, v) == [t |-> t, v |-> v]

-----------------------------------------------------------------------------
(* Build: state [nodes, cur].  Node 1 is the document root (jt = {"root"}). *)
NewNode(par, name, text, jt, data) == [par |-> par, name |-> name, text |-> text, jt |-> jt, data |-> data]
BInit == [nodes |-> <<NewNode(0, "", FALSE, {"root"}, "")>>, cur |-> 1]

Is(s, flag) == flag \in s.nodes[s.cur].jt

AddElem(s, name, jt) ==
  [nodes |-> Append(s.nodes, NewNode(s.cur, name, FALSE, jt, "")), cur |-> Len(s.nodes) + 1]
AddText(s, tok) ==
  [s EXCEPT !.nodes = Append(@, NewNode(s.cur, "", TRUE, {tok.t}, tok.v))]
SetType(s, flag) == [s EXCEPT !.nodes[s.cur].jt = @ \cup {flag}]
Up(s) == [s EXCEPT !.cur = s.nodes[s.cur].par]

\* jsonreader.go parseDelim / parseVal; case order as in the code (arr before prop before root; obj before arr)
BStep(s, tok) ==
  CASE tok.t = "{" ->
         IF Is(s, "arr") THEN AddElem(s, "", {"obj"})
         ELSE SetType(s, "obj")                                   \* prop or root
    [] tok.t = "[" ->
         IF Is(s, "arr") THEN AddElem(s, "", {"arr"})
         ELSE SetType(s, "arr")
    [] tok.t \in {"}", "]"} -> Up(s)
    [] tok.t = "key" -> AddElem(s, tok.v, {"prop"})               \* cur is an object: a property name
    [] OTHER ->                                                   \* a scalar
         IF Is(s, "arr") THEN Up(AddText(AddElem(s, "", {"prop"}), tok))
         ELSE IF Is(s, "prop") THEN Up(AddText(s, tok))
         ELSE Up(AddText(s, tok))                                 \* directly on root

RECURSIVE BuildFrom(_, _, _)
BuildFrom(s, toks, k) == IF k > Len(toks) THEN s ELSE BuildFrom(BStep(s, toks[k]), toks, k + 1)
Build(toks) == BuildFrom(BInit, toks, 1).nodes

-----------------------------------------------------------------------------
(* ToTokens: marshal2.go nodeToInterface with useJSONType = TRUE *)
KidsOf(nodes, i) == SelectSeq([j \in 1..Len(nodes) |-> j], LAMBDA j : nodes[j].par = i)

RECURSIVE ToTok(_, _, _)
ToTok(nodes, i, InferArrays) ==
  LET ks == KidsOf(nodes, i)
      texts == SelectSeq(ks, LAMBDA j : nodes[j].text)
      elems == SelectSeq(ks, LAMBDA j : ~nodes[j].text)
      names == {nodes[j].name : j \in {elems[k] : k \in 1..Len(elems)}}
      RECURSIVE CatArr(_), CatObj(_)
      CatArr(k) == IF k > Len(elems) THEN <<>> ELSE ToTok(nodes, elems[k], InferArrays) \o CatArr(k + 1)
      CatObj(k) == IF k > Len(elems) THEN <<>>
                   ELSE <<Tok("key", nodes[elems[k]].name)>> \o ToTok(nodes, elems[k], InferArrays) \o CatObj(k + 1)
      isChildText == texts # <<>> /\ elems = <<>>
      isChildArray == \/ "arr" \in nodes[i].jt
                      \/ /\ InferArrays
                         /\ Cardinality(names) = 1
                         /\ (Len(elems) > 1 \/ names = {""})
  IN IF isChildText THEN <<Tok(CHOOSE x \in nodes[texts[1]].jt : TRUE, nodes[texts[1]].data)>>      \* getChildData of the first child
     ELSE IF isChildArray THEN <<Tok("[", "")>> \o CatArr(1) \o <<Tok("]", "")>>
     ELSE <<Tok("{", "")>> \o CatObj(1) \o <<Tok("}", "")>>

ToTokens(nodes, InferArrays) == ToTok(nodes, 1, InferArrays)
=============================================================================
