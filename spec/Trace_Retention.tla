--------------------------- MODULE Trace_Retention ---------------------------
(* C17: sizes of the node tree reachable from the k-th delivered record,       *)
(* probed at k = 1..16, powers of two and every 1000th delivery, for inputs    *)
(* that repeat a target record (period 1 or 2 with filtered-out records and    *)
(* separators) under a fixed set of ancestors.  What is retained must be       *)
(* bounded independently of k: since the records of a case are identical the   *)
(* bound is simply the largest size seen during the first 8 deliveries.        *)
(* Then the live heap at two points of a longer stream (Heap).                  *)
EXTENDS Integers, Sequences, TLC, Json, IOUtils

VARIABLES l, bound, lastk
Trace == ndJsonDeserialize(IOEnv.TRACE_FILE)
Ev == Trace[l]
IsEvent(e) == l <= Len(Trace) /\ Ev.ev = e /\ l' = l + 1

Init == l = 1 /\ bound = 0 /\ lastk = 0
Start == IsEvent("start") /\ bound' = 0 /\ lastk' = 0
Size ==
  /\ IsEvent("size")
  /\ Ev.k > lastk /\ lastk' = Ev.k
  /\ IF Ev.k <= 8 THEN bound' = (IF Ev.size > bound THEN Ev.size ELSE bound)
     ELSE Ev.size <= bound /\ UNCHANGED bound
End == IsEvent("end") /\ Ev.delivered >= lastk /\ lastk >= 100 /\ UNCHANGED <<bound, lastk>>     \* the case really streamed many records
\* what the Transform retains besides that tree (reader buffers, caches): the live heap after a collection, at two points
\* of a long stream of identical records; it may not grow by more than a megabyte unless that is less than 8 bytes per
\* record delivered in between (noise of the allocator)
Heap ==
  /\ IsEvent("heap")
  /\ (Ev.live2 - Ev.live <= 1048576 \/ Ev.live2 - Ev.live <= 8 * (Ev.at2 - Ev.at))
  /\ UNCHANGED <<bound, lastk>>
Next == Start \/ Size \/ End \/ Heap
Spec == Init /\ [][Next]_<<l, bound, lastk>>
TraceAccepted == TLCGet("stats").diameter - 1 = Len(Trace)
=============================================================================
