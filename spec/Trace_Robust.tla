----------------------------- MODULE Trace_Robust -----------------------------
(* C03 on recorded executions: every NewSchema / NewTransform / Read of every    *)
(* mutated schema and input returned (no panic escaped, no call exceeded the     *)
(* watchdog), and a finite input reached a terminal result within a number of    *)
(* Reads bounded by its size (Transform.tla's BoundedIngesterCalls, with the     *)
(* reader's units bounded by the bytes).                                         *)
EXTENDS Integers, Sequences, TLC, Json, IOUtils
VARIABLE l
Trace == ndJsonDeserialize(IOEnv.TRACE_FILE)
Ev == Trace[l]
Init == l = 1
Next ==
  /\ l <= Len(Trace)
  /\ ~Ev.panic /\ ~Ev.timeout
  /\ Ev.end \in {"rejected", "newtransform-error", "eof", "fatal"}
  /\ Ev.reads <= Ev.bytes + 2
  /\ l' = l + 1
Spec == Init /\ [][Next]_l
TraceAccepted == TLCGet("stats").diameter - 1 = Len(Trace)
=============================================================================
