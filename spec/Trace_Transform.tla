--------------------------- MODULE Trace_Transform ---------------------------
(* Trace validation for C01: events recorded from the real read loop over the  *)
(* built-in formats are replayed through the actions of Transform.  The        *)
(* ingester's result is not logged; it is inferred: an un-latched Read takes   *)
(* whichever ingester result explains the logged reply, a latched Read must    *)
(* reproduce the latched error.  Many traces are concatenated, separated by    *)
(* Reset events.                                                               *)
EXTENDS Transform, Json, IOUtils

VARIABLE l
Trace == ndJsonDeserialize(IOEnv.TRACE_FILE)
vars == <<tvars, l>>

Ev == Trace[l]
IsEvent(e) == l <= Len(Trace) /\ Ev.ev = e /\ l' = l + 1

TraceInit == TInit /\ l = 1

TraceReset ==
  /\ IsEvent("Reset")
  /\ lastErr' = NoErr /\ lastRaw' = NoRaw /\ ingCalls' = 0 /\ reply' = None
  /\ op' = "init" /\ lastRead' = None /\ terminal' = None

\* the ingester result that would explain the logged reply of an un-latched Read
ResOf(ev) ==
  CASE ev.class = "ok"     -> [k |-> "ok", v |-> ev.v, junk |-> FALSE]
    [] ev.class = "failed" -> [k |-> "cont", v |-> ev.v, junk |-> FALSE]
    [] ev.class = "fatal"  -> [k |-> "fatal", v |-> ev.v, junk |-> FALSE]
    [] ev.class = "eof"    -> [k |-> "eof", v |-> 0, junk |-> FALSE]

ReplyMatches == reply'.class = Ev.class /\ reply'.v = Ev.v /\ reply'.nilb = Ev.nilb

TraceRead ==
  /\ IsEvent("Read")
  /\ Ev.class \in {"ok", "failed", "fatal", "eof"}
  /\ (ReadLatched \/ ReadThrough(ResOf(Ev)))
  /\ ReplyMatches
  /\ (Ev.class = "ok" => Ev.valid)       \* a record is valid UTF-8 JSON (observed by the driver)

TraceRaw ==
  /\ IsEvent("Raw")
  /\ RawRecord
  /\ ReplyMatches

TraceNext == TraceReset \/ TraceRead \/ TraceRaw
TraceSpec == TraceInit /\ [][TraceNext]_vars

\* every line of the trace was consumed (TraceInit does not consume one)
TraceAccepted == TLCGet("stats").diameter - 1 = Len(Trace)
\* where the longest accepted prefix ends, for diagnosis
Progress == TLCSet(1, l)
=============================================================================
