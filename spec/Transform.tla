------------------------------ MODULE Transform ------------------------------
(***************************************************************************)
(* The result latch of omniparser.Transform (transform.go:44-81) over an   *)
(* abstract ingester.                                                      *)
(*                                                                         *)
(* Impl layer: the two variables the code really keeps (lastErr,           *)
(* lastRaw), one action per public call, written line for line from the    *)
(* code.  The ingester is abstract: each un-latched Read consumes one      *)
(* ingester result `res`; where `res` comes from (a finite script in the   *)
(* bounded model, a logged event in the trace specification) is left to    *)
(* the extending module.                                                   *)
(*                                                                         *)
(* Ref layer: the history variables lastRead / terminal, which remember    *)
(* what the property talks about (the reply of the most recent Read, the   *)
(* first terminal reply) independently of the latch variables.             *)
(***************************************************************************)
EXTENDS Naturals, Sequences, TLC

\* An ingester result: [k, v, junk]
\*   k    : "ok" | "cont" | "fatal" | "eof"
\*   v    : a natural identifying the record (ok) or the error value (cont, fatal); 0 for eof
\*   junk : the ingester handed back a non-nil byte slice together with an error
\* A reply of Read / RawRecord: [class, v, nilb]
\*   class: "ok" | "failed" | "fatal" | "eof"   (Read)
\*          "raw" | "failed" | "fatal" | "eof" | "mustread"   (RawRecord)

NoErr == [class |-> "nil", v |-> 0]
NoRaw == 0       \* lastRawRecord == nil; record ids are >= 1

VARIABLES
  lastErr,    \* Impl: [class, v]: nil | failed(e) | fatal(e) | eof
  lastRaw,    \* Impl: record id or NoRaw
  ingCalls,   \* number of calls made to ingester.Read
  reply,      \* the reply of the last public call
  op,         \* "init" | "Read" | "Raw"  (the last public call)
  lastRead,   \* Ref history: reply of the most recent Read, or [class |-> "none"]
  terminal    \* Ref history: the first terminal reply, or [class |-> "none"]

tvars == <<lastErr, lastRaw, ingCalls, reply, op, lastRead, terminal>>

None == [class |-> "none", v |-> 0, nilb |-> TRUE]

TInit ==
  /\ lastErr = NoErr
  /\ lastRaw = NoRaw
  /\ ingCalls = 0
  /\ reply = None
  /\ op = "init"
  /\ lastRead = None
  /\ terminal = None

Latched == lastErr.class \in {"fatal", "eof"}

\* transform.go:49-51: a latched non-continuable error is returned again, ingester untouched.
ReadLatched ==
  /\ Latched
  /\ reply' = [class |-> lastErr.class, v |-> lastErr.v, nilb |-> TRUE]
  /\ op' = "Read"
  /\ lastRead' = reply'
  /\ UNCHANGED <<lastErr, lastRaw, ingCalls, terminal>>

\* transform.go:52-69.  IsContinuableError(err) is the "cont" kind.
\* A continuable error is rewrapped (new value, same text): its identity is the text id v.
ErrOf(res) ==
  CASE res.k = "ok"    -> NoErr
    [] res.k = "cont"  -> [class |-> "failed", v |-> res.v]
    [] res.k = "fatal" -> [class |-> "fatal",  v |-> res.v]
    [] res.k = "eof"   -> [class |-> "eof",    v |-> 0]

ReadThrough(res) ==
  /\ ~Latched
  /\ ingCalls' = ingCalls + 1
  /\ lastErr' = ErrOf(res)
  /\ lastRaw' = IF res.k = "ok" THEN res.v ELSE NoRaw
  /\ reply' = IF res.k = "ok"
                THEN [class |-> "ok", v |-> res.v, nilb |-> FALSE]
                ELSE [class |-> ErrOf(res).class, v |-> ErrOf(res).v, nilb |-> TRUE]
  /\ op' = "Read"
  /\ lastRead' = reply'
  /\ terminal' = IF terminal.class = "none" /\ res.k \in {"fatal", "eof"} THEN reply' ELSE terminal

\* transform.go:73-81
RawRecord ==
  /\ reply' = IF lastErr # NoErr
                THEN [class |-> lastErr.class, v |-> lastErr.v, nilb |-> TRUE]
                ELSE IF lastRaw = NoRaw
                  THEN [class |-> "mustread", v |-> 0, nilb |-> TRUE]
                  ELSE [class |-> "raw", v |-> lastRaw, nilb |-> FALSE]
  /\ op' = "Raw"
  /\ UNCHANGED <<lastErr, lastRaw, ingCalls, lastRead, terminal>>

-----------------------------------------------------------------------------
(* Properties (C01).  They are phrased over reply / op / lastRead /        *)
(* terminal / ingCalls only, i.e. over what a caller observes.             *)

\* exactly one of the three shapes; no bytes with any error
Shape ==
  op = "Read" =>
     /\ reply.class \in {"ok", "failed", "fatal", "eof"}
     /\ (reply.class = "ok") = ~reply.nilb

\* a terminal result is returned again, unchanged, by every later Read
TerminalSticky ==
  (op = "Read" /\ terminal.class # "none") => reply = terminal

\* RawRecord succeeds exactly when the most recent Read succeeded, and then describes that record;
\* otherwise that Read's error; "must call Read first" before any Read.
RawGate ==
  op = "Raw" =>
     reply = CASE lastRead.class = "none" -> [class |-> "mustread", v |-> 0, nilb |-> TRUE]
               [] lastRead.class = "ok"   -> [class |-> "raw", v |-> lastRead.v, nilb |-> FALSE]
               [] OTHER                   -> [class |-> lastRead.class, v |-> lastRead.v, nilb |-> TRUE]

\* after a terminal result the ingester is never called again (action property)
NoIngesterAfterTerminal ==
  [][(terminal.class # "none" /\ terminal'.class # "none") => ingCalls' = ingCalls]_tvars

\* Inductive strengthening used by Apalache / documentation
LatchInv ==
  /\ (Latched => lastRaw = NoRaw)
  /\ (lastErr # NoErr => lastRaw = NoRaw)
  /\ (terminal.class # "none" <=> Latched)
  /\ (Latched => terminal = [class |-> lastErr.class, v |-> lastErr.v, nilb |-> TRUE])
=============================================================================
