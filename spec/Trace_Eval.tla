----------------------------- MODULE Trace_Eval -----------------------------
(* Recorded evaluations of random larger schemas on random records by the    *)
(* real Transform.  For each logged (declaration tree, record, emitted JSON  *)
(* as tokens) TLC evaluates the documented semantics (RefRecord) and the      *)
(* cached evaluator model and requires all three to agree.                    *)
EXTENDS Eval, Json, IOUtils

VARIABLE l
Trace == ndJsonDeserialize(IOEnv.TRACE_FILE)
Ev == Trace[l]

RECURSIVE Canon(_)
\* kept-empty composites are compared modulo rendering ({} / [] / null)
Canon(v) ==
  IF v = <<>> THEN <<>>
  ELSE IF Len(v) >= 2 /\ ((v[1] = "{" /\ v[2] = "}") \/ (v[1] = "[" /\ v[2] = "]")) THEN <<"null">> \o Canon(SubSeq(v, 3, Len(v)))
  ELSE <<v[1]>> \o Canon(Tail(v))

Init == l = 1
Next ==
  /\ l <= Len(Trace)
  /\ LET ref == RefRecord(Ev.d, Ev.t, 1)
         imp == ImplRecord(Ev.d, Ev.t, 1, TRUE, FALSE)
     IN /\ imp = ref
        /\ Canon(ref) = Ev.got
  /\ l' = l + 1
Spec == Init /\ [][Next]_l
TraceAccepted == TLCGet("stats").diameter - 1 = Len(Trace)
=============================================================================
