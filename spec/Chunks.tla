------------------------------- MODULE Chunks -------------------------------
(***************************************************************************)
(* Why the result sequence cannot depend on the delivery schedule for the   *)
(* one place where omniparser itself keeps references into a buffer that   *)
(* the next read may overwrite: the fixedlength2 reader                    *)
(* (flatfile/fixedlength/reader.go:161-199).  ios.ByteReadLine returns a   *)
(* slice into bufio.Reader's window; whether the next ReadLine refills     *)
(* (and thereby invalidates) that window depends on how the io.Reader      *)
(* delivers its bytes - i.e. on the schedule.  The reader therefore keeps  *)
(* a `copied` flag on the last buffered line and turns the alias into a     *)
(* copy before it reads again.                                             *)
(*                                                                         *)
(* Model: lines are numbered 1..NLines.  `gen` is the generation of the    *)
(* bufio window; a refill (any ReadLine may or may not cause one: that is   *)
(* the schedule) increments it.  A buffered line is [id, copied, gen].      *)
(* Dereferencing a line (matching a header/footer regexp, slicing columns)  *)
(* is sound iff it is a copy or its window generation is still current.     *)
(* CopyBeforeRead = FALSE is the reader as it was before issue #213.        *)
(***************************************************************************)
EXTENDS Integers, Sequences, TLC

CONSTANTS NLines, MaxRows, CopyBeforeRead

VARIABLES gen, next, buf, bad
cvars == <<gen, next, buf, bad>>

CInit == gen = 0 /\ next = 1 /\ buf = <<>> /\ bad = FALSE

Valid(ln) == ln.copied \/ ln.gen = gen

\* readLine(): copy the aliased tail first, then read; the read may refill the window
ReadLine(refill) ==
  /\ next <= NLines
  /\ LET b1 == IF CopyBeforeRead /\ buf # <<>> /\ ~buf[Len(buf)].copied
                 THEN [buf EXCEPT ![Len(buf)].copied = TRUE] ELSE buf
         g == IF refill THEN gen + 1 ELSE gen
     IN /\ gen' = g
        /\ buf' = Append(b1, [id |-> next, copied |-> FALSE, gen |-> g])
  /\ next' = next + 1
  /\ UNCHANGED bad

\* matching against the first k buffered lines (header/footer search, rows-based envelope) dereferences them
Deref(k) ==
  /\ k \in 1..Len(buf)
  /\ bad' = (bad \/ \E i \in 1..k : ~Valid(buf[i]))
  /\ UNCHANGED <<gen, next, buf>>

\* linesToNode + popFrontLinesBuf(k): the first k lines become a record and leave the buffer
Pop(k) ==
  /\ k \in 1..Len(buf) /\ k <= MaxRows
  /\ bad' = (bad \/ \E i \in 1..k : ~Valid(buf[i]))
  /\ buf' = SubSeq(buf, k + 1, Len(buf))
  /\ UNCHANGED <<gen, next>>

CNext == (\E r \in BOOLEAN : Len(buf) < MaxRows /\ ReadLine(r)) \/ (\E k \in 1..MaxRows : Deref(k) \/ Pop(k))
CSpec == CInit /\ [][CNext]_cvars

\* every line the reader looks at is intact, for every refill pattern (= every delivery schedule)
AliasValidWhenRead == ~bad
\* at most the last buffered line is an alias
OnlyTailAliased == \A i \in 1..Len(buf) : i < Len(buf) => (buf[i].copied \/ ~CopyBeforeRead)
=============================================================================
