-------------------------- MODULE Trace_EDITokens --------------------------
(* Recorded tokenizations of random logical segments (unicode payloads,       *)
(* values made of delimiter and release characters, long elements, random     *)
(* chunked delivery).  The driver logs the input as a symbol string and what   *)
(* the real NonValidatingReader returned (values rendered as text); TLC        *)
(* re-tokenizes the symbol string with the reference scanner and compares.     *)
EXTENDS EDITokens, Json, IOUtils

VARIABLE l
Trace == ndJsonDeserialize(IOEnv.TRACE_FILE)
Ev == Trace[l]

RECURSIVE Render(_, _)
\* text of a symbol sequence under the event's concrete delimiter choice
Render(syms, v) == IF v = <<>> THEN "" ELSE (IF v[1] \in DOMAIN syms THEN syms[v[1]] ELSE v[1]) \o Render(syms, Tail(v))

Init == l = 1
Next ==
  /\ l <= Len(Trace)
  /\ LET t == RefTokens(Ev.cfg, Ev.str)
         i == ImplTokens(Ev.cfg, Ev.str)
     IN /\ ~t.err /\ i = t
        /\ Len(Ev.obs) = Len(t.segs)
        /\ \A s \in 1..Len(t.segs) :
             /\ Len(Ev.obs[s]) = Len(t.segs[s])
             /\ \A p \in 1..Len(t.segs[s]) :
                  /\ Ev.obs[s][p][1] = t.segs[s][p][1] /\ Ev.obs[s][p][2] = t.segs[s][p][2]
                  /\ Ev.obs[s][p][3] = Render(Ev.syms, t.segs[s][p][3])
  /\ l' = l + 1
Spec == Init /\ [][Next]_l
TraceAccepted == TLCGet("stats").diameter - 1 = Len(Trace)
=============================================================================
