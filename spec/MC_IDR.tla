------------------------------- MODULE MC_IDR -------------------------------
(* All reachable arena configurations with K cells under every interleaving of *)
(* CreateNode / AddChild / RemoveAndReleaseTree (operation words of any length *)
(* -- the search is over states).  ViewNoIds hides the ID history so that the   *)
(* exploration is finite; MaxId bounds it in the configuration without VIEW.    *)
EXTENDS IDR

CONSTANTS MaxId

Next ==
  \/ \E c \in Cells, t \in {1, 2}, f \in {0, 1} : Create(c, t, 1, f, CounterId)
  \/ \E p, n \in Cells : AddChild(p, n)
  \/ \E n \in Cells : Remove(n, CounterIds(n))

Spec == IInit /\ [][Next]_ivars
ViewNoIds == <<par, first, last, prev, next, ty, data, fs, st>>
IdBound == nextId <= MaxId
=============================================================================
