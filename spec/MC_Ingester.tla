---------------------------- MODULE MC_Ingester ----------------------------
(* the protocol state space for up to MaxNodes nodes handed out *)
EXTENDS Ingester
CONSTANT MaxNodes
Bound == Cardinality(seen) <= MaxNodes
=============================================================================
