----------------------------- MODULE Trace_JSVM -----------------------------
(* Events recorded by the verif VM hook inside execProgram (get / run / put,  *)
(* with the VM's identity, the call's argument names and the user-set globals  *)
(* actually present on the VM's global object), plus per-call observations of  *)
(* probe scripts.  The VM life cycle and the isolation clauses of JSVM.tla are *)
(* checked on every event.                                                     *)
EXTENDS Integers, Sequences, FiniteSets, TLC, Json, IOUtils

VARIABLES l, held, argsOf
Trace == ndJsonDeserialize(IOEnv.TRACE_FILE)
Ev == Trace[l]
IsEvent(e) == l <= Len(Trace) /\ Ev.ev = e /\ l' = l + 1
SetOf(s) == {s[i] : i \in 1..Len(s)}

Init == l = 1 /\ held = {} /\ argsOf = <<>>

\* a VM is handed to one caller at a time
TGet == IsEvent("get") /\ Ev.vm \notin held /\ held' = held \cup {Ev.vm} /\ argsOf' = [v \in DOMAIN argsOf \cup {Ev.vm} |-> IF v = Ev.vm THEN SetOf(Ev.args) ELSE argsOf[v]]
\* at run the visible user globals are exactly this call's arguments
TRun == IsEvent("run") /\ Ev.vm \in held /\ SetOf(Ev.globals) = SetOf(Ev.args) /\ SetOf(Ev.args) = argsOf[Ev.vm] /\ UNCHANGED <<held, argsOf>>
\* it goes back to the pool without any of them
TPut == IsEvent("put") /\ Ev.vm \in held /\ Ev.globals = <<>> /\ held' = held \ {Ev.vm} /\ UNCHANGED argsOf
\* what a probe script saw: only its own arguments
TCall == IsEvent("call") /\ SetOf(Ev.visible) = SetOf(Ev.args) /\ UNCHANGED <<held, argsOf>>
\* _node is the node as it is now
TNode == IsEvent("node") /\ Ev.seen = Ev.now /\ UNCHANGED <<held, argsOf>>
\* value mapping as the decision table of JSVM.tla says
TValue == IsEvent("value") /\ Ev.got = Ev.expected /\ UNCHANGED <<held, argsOf>>

Next == TGet \/ TRun \/ TPut \/ TCall \/ TNode \/ TValue
Spec == Init /\ [][Next]_<<l, held, argsOf>>
TraceAccepted == TLCGet("stats").diameter - 1 = Len(Trace)
=============================================================================
