---------------------------- MODULE Trace_DocTree ----------------------------
(* Random deeper JSON values: TLC builds the node tree from the logged token   *)
(* stream with DocTree!Build, converts it back with DocTree!ToTokens and       *)
(* requires both the specification's round trip and the real code's result     *)
(* (logged as a token stream; keys of one object may be reordered, objects are *)
(* unordered: the driver orders them by first appearance) to equal the input.  *)
EXTENDS DocTree, Json, IOUtils
VARIABLE l
Trace == ndJsonDeserialize(IOEnv.TRACE_FILE)
Ev == Trace[l]
Init == l = 1
Next ==
  /\ l <= Len(Trace)
  /\ ToTokens(Build(Ev.toks), FALSE) = Ev.toks
  /\ Len(Ev.back) = Len(Ev.toks)
  /\ \A k \in 1..Len(Ev.toks) : Ev.back[k].t = Ev.toks[k].t /\ (Ev.toks[k].t \in {"num", "bool", "str", "null"} => Ev.back[k].v = Ev.toks[k].v)
  /\ l' = l + 1
Spec == Init /\ [][Next]_l
TraceAccepted == TLCGet("stats").diameter - 1 = Len(Trace)
=============================================================================
