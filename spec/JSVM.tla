-------------------------------- MODULE JSVM --------------------------------
(***************************************************************************)
(* javascript / javascript_with_context                                    *)
(* (extensions/omniv21/customfuncs/javascript.go): a pool of JS VMs, the   *)
(* per-call protocol get VM -> set each named argument (and _node) as a     *)
(* global -> run -> delete exactly those globals -> put the VM back, and    *)
(* the process-wide node-JSON cache keyed by node ID.                      *)
(*                                                                         *)
(* Goroutines 1..G each execute a list of calls; a call is                  *)
(* [args : set of argument names, node : 0 (none) or a node id].            *)
(* Node ids: Records get a fresh id for every record (idr nodes are         *)
(* re-identified when recycled); an Ancestor keeps its id while its         *)
(* content changes between records (ver[n] counts the changes).             *)
(*                                                                         *)
(* C20: at `run` the VM's visible globals are exactly this call's           *)
(* arguments (NoForeignGlobals) and _node is the node as it is now          *)
(* (NodeCurrent).  DeleteArgs = FALSE / CacheNodeJSON = TRUE with calls on  *)
(* ancestors are the deviations the model can exhibit.                      *)
(***************************************************************************)
EXTENDS Integers, Sequences, FiniteSets, TLC

CONSTANTS G, VMs, Names, Ancestors, Calls, DeleteArgs, CacheNodeJSON

VARIABLES pool,      \* idle VMs
          globals,   \* [VMs -> SUBSET (Names \cup {"_node"})]  user-set global variables
          pc,        \* [1..G -> "idle" | "got" | "set" | "ran" | "deleted"]
          todo,      \* [1..G -> Seq(call)]
          vmOf,      \* [1..G -> VMs \cup {0}]
          ver,       \* [Ancestors -> Nat]  content version of the long-lived nodes
          jcache,    \* [Ancestors -> Nat \cup {-1}]  version whose JSON sits in NodeToJSONCache (-1: none)
          seen,      \* version of the node content `_node` carried at the last run of each goroutine
          bad        \* "" or the name of the violated clause
jvars == <<pool, globals, pc, todo, vmOf, ver, jcache, seen, bad>>

ArgNames(c) == c.args \cup (IF c.node # 0 THEN {"_node"} ELSE {})

JInit ==
  /\ pool = {} /\ globals = [v \in VMs |-> {}]
  /\ pc = [g \in 1..G |-> "idle"] /\ todo \in [1..G -> Calls] /\ vmOf = [g \in 1..G |-> 0]
  /\ ver = [n \in Ancestors |-> 0] /\ jcache = [n \in Ancestors |-> -1] /\ seen = [g \in 1..G |-> 0]
  /\ bad = ""

InUse == {vmOf[g] : g \in 1..G} \ {0}

\* jsRuntimePool.Get(): an idle VM or a new one
Get(g, v) ==
  /\ pc[g] = "idle" /\ todo[g] # <<>>
  /\ v \in pool \/ (v \notin pool /\ v \notin InUse /\ globals[v] = {})    \* new VMs start without user globals
  /\ pool' = pool \ {v}
  /\ vmOf' = [vmOf EXCEPT ![g] = v] /\ pc' = [pc EXCEPT ![g] = "got"]
  /\ UNCHANGED <<globals, todo, ver, jcache, seen, bad>>

\* vm.Set(arg, val) for every argument; _node = getNodeJSON(n)
SetArgs(g) ==
  /\ pc[g] = "got"
  /\ LET c == Head(todo[g]) n == c.node IN
     /\ globals' = [globals EXCEPT ![vmOf[g]] = @ \cup ArgNames(c)]
     /\ IF n \in Ancestors
          THEN IF CacheNodeJSON /\ jcache[n] # -1
                 THEN seen' = [seen EXCEPT ![g] = jcache[n]] /\ UNCHANGED jcache              \* cache hit
                 ELSE seen' = [seen EXCEPT ![g] = ver[n]] /\ jcache' = (IF CacheNodeJSON THEN [jcache EXCEPT ![n] = ver[n]] ELSE jcache)
          ELSE UNCHANGED <<seen, jcache>>
  /\ pc' = [pc EXCEPT ![g] = "set"]
  /\ UNCHANGED <<pool, todo, vmOf, ver, bad>>

\* vm.RunProgram: the result is a function of the script and all visible globals
Run(g) ==
  /\ pc[g] = "set"
  /\ LET c == Head(todo[g]) IN
     bad' = IF bad # "" THEN bad
            ELSE IF globals[vmOf[g]] # ArgNames(c) THEN "NoForeignGlobals"
            ELSE IF c.node \in Ancestors /\ seen[g] # ver[c.node] THEN "NodeCurrent"
            ELSE ""
  /\ pc' = [pc EXCEPT ![g] = "ran"]
  /\ UNCHANGED <<pool, globals, todo, vmOf, ver, jcache, seen>>

\* deferred: delete the arguments set by this call
DelArgs(g) ==
  /\ pc[g] = "ran"
  /\ globals' = IF DeleteArgs THEN [globals EXCEPT ![vmOf[g]] = @ \ ArgNames(Head(todo[g]))] ELSE globals
  /\ pc' = [pc EXCEPT ![g] = "deleted"]
  /\ UNCHANGED <<pool, todo, vmOf, ver, jcache, seen, bad>>

Put(g) ==
  /\ pc[g] = "deleted"
  /\ pool' = pool \cup {vmOf[g]}
  /\ vmOf' = [vmOf EXCEPT ![g] = 0] /\ pc' = [pc EXCEPT ![g] = "idle"] /\ todo' = [todo EXCEPT ![g] = Tail(@)]
  /\ UNCHANGED <<globals, ver, jcache, seen, bad>>

\* between records the reader changes the children of a long-lived ancestor (same node, same ID)
Mutate(n) ==
  /\ \A g \in 1..G : pc[g] = "idle"
  /\ ver[n] < 2
  /\ ver' = [ver EXCEPT ![n] = @ + 1]
  /\ UNCHANGED <<pool, globals, pc, todo, vmOf, jcache, seen, bad>>

JNext == \/ \E g \in 1..G : (\E v \in VMs : Get(g, v)) \/ SetArgs(g) \/ Run(g) \/ DelArgs(g) \/ Put(g)
         \/ \E n \in Ancestors : Mutate(n)
JSpec == JInit /\ [][JNext]_jvars

Isolated == bad = ""
SingleOwner == \A a, b \in 1..G : (a # b /\ vmOf[a] # 0) => vmOf[a] # vmOf[b]
IdleClean == \A v \in pool : DeleteArgs => globals[v] = {}

-----------------------------------------------------------------------------
(* value mapping of results (javascript.go:117-122): the decision table *)
ResultKinds == {"number", "string", "boolean", "array", "object", "NaN", "Infinity", "-Infinity", "null", "undefined", "throw"}
MapsTo(k) == CASE k \in {"number", "string", "boolean", "array", "object"} -> k
               [] OTHER -> "error"
=============================================================================
