-------------------------- MODULE MC_StreamSelect --------------------------
(* Folded bounded instance: one TLC state per (document, xpath) case; the    *)
(* whole token run of the reader model and the whole-document reference are  *)
(* evaluated inside the state.  Documents: every well-formed XML-shaped tree *)
(* with exactly N nodes (one root element, text leaves, no adjacent text     *)
(* siblings, optional attribute k="1"), restricted to the shapes with index  *)
(* Part modulo Parts so that several TLC processes share the work.           *)
EXTENDS StreamSelect, Json

CONSTANTS N, MaxSteps, Part, Parts, AnyNode, EmitCases, EmitMod,
          Pre,     \* BOOLEAN: also the xpaths with an attribute predicate in front of the last predicate
          Family   \* "mixed": r{ x{ t, y{t}, t } } with every naming and text;  "all": every document with N nodes; "nested": the 8-node shape  r{ x{ y{t} }, z{ w{ v{t} } } }  with every
                   \* naming - a candidate (x or y) that may be rejected, followed by a container z whose candidates lie deeper

VARIABLES D, X
vars == <<D, X>>

Labels == {<<"E", "a">>, <<"E", "b">>, <<"T", "1">>, <<"T", "2">>}

RECURSIVE AncSelfP(_, _)
AncSelfP(p, i) == IF i = 0 THEN {0} ELSE {i} \cup AncSelfP(p, p[i])

ShapeSet == { p \in [1..N -> 0..(N - 1)] :
                /\ p[1] = 0
                /\ \A i \in 2..N : p[i] \in (AncSelfP(p, i - 1) \ {0}) }      \* pre-order, single root element
ShapeSeq == CHOOSE s \in [1..Cardinality(ShapeSet) -> ShapeSet] : \A i, j \in DOMAIN s : i # j => s[i] # s[j]
MyShapes == {ShapeSeq[i] : i \in {j \in DOMAIN ShapeSeq : j % Parts = Part}}

Docs == { d \in [n : {N}, par : MyShapes, lab : [1..N -> Labels], at : [1..N -> {"", "1"}]] :
            /\ d.lab[1][1] = "E"
            /\ \A i \in 1..N : d.lab[i][1] = "T" => (d.at[i] = "" /\ \A j \in 1..N : d.par[j] # i)
            /\ \A i \in 2..N : d.lab[d.par[i]][1] = "E"
            /\ \A i, j \in 1..N : (i < j /\ d.par[i] = d.par[j] /\ d.lab[i][1] = "T" /\ d.lab[j][1] = "T")
                                   => \E m \in (i + 1)..(j - 1) : d.par[m] = d.par[i] }

Doc(d) == [n |-> d.n, par |-> d.par, kind |-> [i \in 1..d.n |-> d.lab[i][1]], nm |-> [i \in 1..d.n |-> d.lab[i][2]], at |-> d.at]

Steps == [axis : {"child", "desc"}, test : {"a", "b", "*"}]
Preds == {[pk |-> "none", pn |-> "", pv |-> ""],
          [pk |-> "child=", pn |-> "a", pv |-> "1"], [pk |-> "child=", pn |-> "b", pv |-> "1"],
          [pk |-> "self=", pn |-> "", pv |-> "1"], [pk |-> "attr=", pn |-> "", pv |-> "1"],
          [pk |-> "child", pn |-> "a", pv |-> ""], [pk |-> "child", pn |-> "b", pv |-> ""],
          \* predicates that a candidate without any content satisfies
          [pk |-> "nochild", pn |-> "a", pv |-> ""], [pk |-> "self=", pn |-> "", pv |-> ""]}
\* (a second predicate in front of the last one: on an attribute, the only thing known when the element opens)
\* (without a last predicate the attribute predicate would itself be the last one, i.e. pk = "attr=")
XPaths == { x \in { [steps |-> s, pk |-> p.pk, pn |-> p.pn, pv |-> p.pv, pre |-> pre] :
                      s \in UNION {[1..k -> Steps] : k \in 1..MaxSteps}, p \in Preds, pre \in (IF Pre THEN {"", "attr"} ELSE {""}) } :
              ~(x.pre = "attr" /\ x.pk = "none") }

NestedDocs == { [n |-> 8, par |-> <<0, 1, 2, 3, 1, 5, 6, 7>>,
                  kind |-> <<"E", "E", "E", "T", "E", "E", "E", "T">>,
                  nm |-> <<nms[1], nms[2], nms[3], t1, nms[4], nms[5], nms[6], t2>>,
                  at |-> <<"", a1, "", "", "", a2, "", "">>] :
                nms \in [1..6 -> {"a", "b"}], t1 \in {"1", "2"}, t2 \in (IF Part = 0 THEN {"1", "2"} ELSE {"1"}),
                a1 \in (IF Part = 0 THEN {"", "1"} ELSE {""}), a2 \in (IF Part = 0 THEN {"", "1"} ELSE {""}) }
                \* (Part # 0: the reduced variant of the quick tier - no attributes, second text fixed)

\* mixed content: r{ x{ t, y{t}, t } } - an element whose string value is spread over several text nodes, its own and its
\* descendants', the last of them a text node
MixedDocs == { [n |-> 6, par |-> <<0, 1, 2, 2, 4, 2>>,
                 kind |-> <<"E", "E", "T", "E", "T", "T">>,
                 nm |-> <<nms[1], nms[2], t1, nms[3], "1", t3>>,
                 at |-> <<"", "", "", "", "", "">>] :
               nms \in [1..3 -> {"a", "b"}], t1 \in {"1", "2"}, t3 \in {"1", "2"} }

Init == /\ D \in (IF Family = "nested" THEN NestedDocs ELSE IF Family = "mixed" THEN MixedDocs ELSE {Doc(d) : d \in Docs})
        /\ X \in XPaths
Next == UNCHANGED vars
Spec == Init /\ [][Next]_vars

R == Run(D, X, AnyNode)
Agree == R.out = RefOut(D, X)
CandidateIsMatch == R.bad = ""
\* after the run the last delivered node is still pending; everything else delivered/rejected has been pruned
Pruned == \A k \in 1..Len(R.out) : (R.out[k] \in R.P) => k = Len(R.out)

NonTrivial == Cardinality(PathSel(D, All(D), X)) >= 2 \/ Len(RefOut(D, X)) < Cardinality(PathSel(D, All(D), X))
Emit == (EmitCases /\ (EmitMod = 1 \/ RandomElement(1..EmitMod) = 1)) =>
          PrintT(<<"CASE", ToJson([d |-> D, x |-> X, out |-> RefOut(D, X), sel |-> SelectSeq([i \in 1..D.n |-> i], LAMBDA i: i \in FullSel(D, All(D), X)), nt |-> NonTrivial])>>)
=============================================================================
