------------------------------ MODULE Templates ------------------------------
(***************************************************************************)
(* Template expansion during schema validation                              *)
(* (extensions/omniv21/transform/validate.go:48-216: validateDecl,          *)
(* validateXPath, validateObject / Array / CustomFunc, validateTemplate).   *)
(*                                                                         *)
(* transform_declarations names templates; a declaration may refer to a     *)
(* template directly ("template"), from a child position (object field,     *)
(* array element, custom_func argument) or from the declaration that        *)
(* computes its xpath ("xpath_dynamic").  Validation inlines every          *)
(* reference, so a reference cycle must be detected or NewSchema never      *)
(* returns (C03).                                                           *)
(*                                                                         *)
(* The graph: every template T has one body Body[T] = [hop, tgt]: hop is    *)
(* how the body reaches its one reference ("none": no reference, "ref",     *)
(* "child", "dyn"), tgt the template referred to.  FINAL_OUTPUT refers to   *)
(* Start from a child position.                                             *)
(*                                                                         *)
(* State machine = the recursion of validateDecl: calls is the stack of     *)
(* templates being expanded (the Go call stack), refs is the                *)
(* templateRefStack argument the code passes down.  ForgetAtDyn = TRUE is   *)
(* the design in which the xpath_dynamic declaration is validated with a    *)
(* fresh reference stack: its cycle check goes blind and the recursion      *)
(* never ends (TLC: Terminates violated).                                   *)
(***************************************************************************)
EXTENDS Integers, Sequences, FiniteSets, TLC

CONSTANTS Templates, Start, ForgetAtDyn

VARIABLES Body,                    \* the reference graph (chosen initially, never changed)
          calls, refs, status      \* status: "run" | "ok" | "circular"
vars == <<Body, calls, refs, status>>

Hops == {"none", "ref", "child", "dyn"}
Bodies == {[hop |-> "none", tgt |-> Start]} \cup {[hop |-> h, tgt |-> t] : h \in Hops \ {"none"}, t \in Templates}

Init == Body \in [Templates -> Bodies] /\ calls = <<Start>> /\ refs = <<Start>> /\ status = "run"

InSeq(s, x) == \E i \in 1..Len(s) : s[i] = x

\* one step of the recursion: look at the body of the template on top
Step ==
  /\ status = "run" /\ UNCHANGED Body
  /\ LET t == calls[Len(calls)]
         b == Body[t]
     IN IF b.hop = "none"
          THEN \* the body has no reference: this expansion returns; so do all its callers (each body has one reference)
               /\ status' = "ok" /\ UNCHANGED <<calls, refs>>
          ELSE LET passed == IF ForgetAtDyn /\ b.hop = "dyn" THEN <<>> ELSE refs      \* the stack handed to the referred declaration
               IN IF InSeq(passed, b.tgt)
                    THEN status' = "circular" /\ UNCHANGED <<calls, refs>>             \* strs.HasDup(templateRefStack)
                    ELSE /\ calls' = Append(calls, b.tgt)
                         /\ refs' = Append(passed, b.tgt)
                         /\ status' = "run"
Next == Step
Spec == Init /\ [][Next]_vars /\ WF_vars(Next)

\* the documented verdict: a schema is rejected iff a reference cycle is reachable from FINAL_OUTPUT
RECURSIVE Reach(_, _)
Reach(t, seen) == IF t \in seen THEN seen ELSE IF Body[t].hop = "none" THEN seen \cup {t} ELSE Reach(Body[t].tgt, seen \cup {t})
RECURSIVE CyclicFrom(_, _)
CyclicFrom(t, seen) == IF t \in seen THEN TRUE ELSE IF Body[t].hop = "none" THEN FALSE ELSE CyclicFrom(Body[t].tgt, seen \cup {t})
Cyclic == CyclicFrom(Start, {})

\* the recursion never expands a template that is already being expanded: its depth is bounded by the number of templates
NoReentry == \A i, j \in 1..Len(calls) : i # j => calls[i] # calls[j]
Verdict == (status = "ok" => ~Cyclic) /\ (status = "circular" => Cyclic)
Terminates == <>(status # "run")
=============================================================================
