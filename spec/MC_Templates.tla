---------------------------- MODULE MC_Templates ----------------------------
(* every reference graph over the templates: one TLC run explores all of them (the graph is chosen in the initial state) *)
EXTENDS Templates, Json
CONSTANT EmitCases
DepthBound == Len(calls) <= Cardinality(Templates) + 2          \* state constraint for the non-terminating design
Emit == (EmitCases /\ status # "run") => PrintT(<<"CASE", ToJson([body |-> Body, status |-> status, cyclic |-> Cyclic])>>)
=============================================================================
