------------------------------ MODULE IDRStruct ------------------------------
(* Variable-free part of IDR: the structural soundness predicate of a pointer  *)
(* structure S = [n, par, first, last, prev, next, live] over cells 1..S.n     *)
(* (0 = nil).  Used on the model's state (IDR.tla) and on structures dumped    *)
(* from the real readers (Trace_IDRAudit.tla).                                 *)
EXTENDS Integers, Sequences, FiniteSets, TLC

NULL == 0
SeqToSet(s) == {s[i] : i \in 1..Len(s)}

RECURSIVE AncSelfF(_, _, _)
AncSelfF(p, c, fuel) == IF c = NULL \/ fuel = 0 THEN {} ELSE {c} \cup AncSelfF(p, p[c], fuel - 1)

RECURSIVE ChildSeqF(_, _, _)
ChildSeqF(nx, c, fuel) == IF c = NULL \/ fuel = 0 THEN <<>> ELSE <<c>> \o ChildSeqF(nx, nx[c], fuel - 1)

\* parent / first / last / prev / next mutually consistent, acyclic, listing exactly the attached nodes in
\* order -- stated over an explicit structure S = [n, par, first, last, prev, next, live] so that the same
\* predicate is evaluated on the model's state and on pointer structures dumped from the real readers.
SoundOn(S) ==
  \A p \in S.live :
    LET cs == ChildSeqF(S.next, S.first[p], S.n + 1) IN
    /\ (S.first[p] = NULL) = (S.last[p] = NULL)
    /\ Len(cs) <= S.n                                                  \* the sibling chain ends
    /\ \A i, j \in 1..Len(cs) : i # j => cs[i] # cs[j]
    /\ (cs # <<>> => (cs[Len(cs)] = S.last[p] /\ S.prev[cs[1]] = NULL /\ S.next[S.last[p]] = NULL))
    /\ \A i \in 1..Len(cs) : /\ cs[i] \in S.live /\ S.par[cs[i]] = p
                             /\ (i > 1 => S.prev[cs[i]] = cs[i - 1])
    /\ \A c \in S.live : S.par[c] = p => c \in SeqToSet(cs)
    /\ p \notin AncSelfF(S.par, S.par[p], S.n + 1)                     \* acyclic
    /\ (S.par[p] # NULL => S.par[p] \in S.live)
    /\ (S.par[p] = NULL => (S.prev[p] = NULL /\ S.next[p] = NULL))

=============================================================================
