--------------------------- MODULE Transform_proof ---------------------------
(* Unbounded counterpart of MC_Transform: for every sequence of ingester results  *)
(* (any length, any record / error identities) and every interleaving of Read and  *)
(* RawRecord calls, the latch of Transform.tla satisfies Shape, TerminalSticky and *)
(* RawGate (C01 at design level).  Proved with the TLA+ proof system.              *)
EXTENDS Transform, TLAPS

Res == { r \in [k : {"ok", "cont", "fatal", "eof"}, v : Nat, junk : BOOLEAN] :
           (r.k = "ok" => r.v >= 1) /\ (r.k = "eof" => r.v = 0) }
NextU == ReadLatched \/ (\E res \in Res : ReadThrough(res)) \/ RawRecord
SpecU == TInit /\ [][NextU]_tvars

ErrRec(c, v) == [class |-> c, v |-> v]
\* how the history variable lastRead relates to the two variables the code keeps
Link ==
  /\ (lastRead.class = "none" => lastErr = NoErr /\ lastRaw = NoRaw)
  /\ (lastRead.class = "ok" => lastErr = NoErr /\ lastRaw = lastRead.v /\ lastRead.v >= 1)
  /\ (lastRead.class \in {"failed", "fatal", "eof"} => lastErr = ErrRec(lastRead.class, lastRead.v))
  /\ lastRead.class \in {"none", "ok", "failed", "fatal", "eof"}
  /\ lastErr.class \in {"nil", "failed", "fatal", "eof"}
  /\ (lastErr.class = "nil" => lastErr = NoErr)
  /\ lastRaw \in Nat

IndInv == Link /\ LatchInv /\ Shape /\ TerminalSticky /\ RawGate

THEOREM InitInd == TInit => IndInv
  BY DEF TInit, IndInv, Link, LatchInv, Shape, TerminalSticky, RawGate, Latched, NoErr, NoRaw, None

THEOREM StepInd == IndInv /\ [NextU]_tvars => IndInv'
<1> SUFFICES ASSUME IndInv, [NextU]_tvars PROVE IndInv'
  OBVIOUS
<1>1. CASE ReadLatched
  BY <1>1 DEF ReadLatched, IndInv, Link, LatchInv, Shape, TerminalSticky, RawGate, Latched, NoErr, NoRaw, None, ErrRec
<1>2. ASSUME NEW res \in Res, ReadThrough(res) PROVE IndInv'
  <2>1. CASE res.k = "ok"
    BY <1>2, <2>1 DEF ReadThrough, ErrOf, Res, IndInv, Link, LatchInv, Shape, TerminalSticky, RawGate, Latched, NoErr, NoRaw, None, ErrRec
  <2>2. CASE res.k = "cont"
    BY <1>2, <2>2 DEF ReadThrough, ErrOf, Res, IndInv, Link, LatchInv, Shape, TerminalSticky, RawGate, Latched, NoErr, NoRaw, None, ErrRec
  <2>3. CASE res.k = "fatal"
    BY <1>2, <2>3 DEF ReadThrough, ErrOf, Res, IndInv, Link, LatchInv, Shape, TerminalSticky, RawGate, Latched, NoErr, NoRaw, None, ErrRec
  <2>4. CASE res.k = "eof"
    BY <1>2, <2>4 DEF ReadThrough, ErrOf, Res, IndInv, Link, LatchInv, Shape, TerminalSticky, RawGate, Latched, NoErr, NoRaw, None, ErrRec
  <2> QED
    BY <2>1, <2>2, <2>3, <2>4 DEF Res
<1>3. CASE RawRecord
  BY <1>3 DEF RawRecord, IndInv, Link, LatchInv, Shape, TerminalSticky, RawGate, Latched, NoErr, NoRaw, None, ErrRec
<1>4. CASE UNCHANGED tvars
  BY <1>4 DEF tvars, IndInv, Link, LatchInv, Shape, TerminalSticky, RawGate, Latched
<1> QED
  BY <1>1, <1>2, <1>3, <1>4 DEF NextU

THEOREM Contract == SpecU => [](Shape /\ TerminalSticky /\ RawGate)
<1>1. SpecU => []IndInv
  BY InitInd, StepInd, PTL DEF SpecU
<1>2. IndInv => Shape /\ TerminalSticky /\ RawGate
  BY DEF IndInv
<1> QED
  BY <1>1, <1>2, PTL
=============================================================================
