-------------------------------- MODULE Conc --------------------------------
(***************************************************************************)
(* Process-wide state shared by goroutines that each drive their own       *)
(* Transform (C14, C12's racing acquisitions): the node pool and the node  *)
(* ID counter of idr/node.go, at the granularity of the synchronisation    *)
(* operations the code uses: sync.Pool Get / Put are atomic hand-overs,    *)
(* newNodeID is atomic.AddInt64.  AtomicID = FALSE splits the increment    *)
(* into a read and a write (what a plain `nodeID++` would be) and lets TLC *)
(* exhibit the duplicate ID.  Each goroutine repeatedly: gets a cell (from *)
(* the pool or a fresh one), uses it, resets it (new ID) and puts it back. *)
(***************************************************************************)
EXTENDS Integers, FiniteSets, TLC
CONSTANTS G, Cells, Rounds, AtomicID

VARIABLES pool, owner, id, counter, pc, mine, tmp, done
cvars == <<pool, owner, id, counter, pc, mine, tmp, done>>

CInit == /\ pool = {} /\ owner = [c \in Cells |-> 0] /\ id = [c \in Cells |-> 0] /\ counter = 0
         /\ pc = [g \in 1..G |-> "get"] /\ mine = [g \in 1..G |-> 0] /\ tmp = [g \in 1..G |-> 0] /\ done = [g \in 1..G |-> 0]

Fresh == {c \in Cells : owner[c] = 0 /\ c \notin pool /\ id[c] = 0}

\* nodePool.Get(): a pooled cell, or allocNode() (which resets, i.e. draws an ID) when the pool is empty for this caller
Get(g, c) ==
  /\ pc[g] = "get" /\ done[g] < Rounds
  /\ c \in pool \/ c \in Fresh
  /\ pool' = pool \ {c}
  /\ owner' = [owner EXCEPT ![c] = g] /\ mine' = [mine EXCEPT ![g] = c]
  /\ pc' = [pc EXCEPT ![g] = IF id[c] = 0 THEN "idread" ELSE "use"]     \* a fresh cell still needs its first ID
  /\ UNCHANGED <<id, counter, tmp, done>>

Use(g) == pc[g] = "use" /\ pc' = [pc EXCEPT ![g] = "idread"] /\ UNCHANGED <<pool, owner, id, counter, mine, tmp, done>>

\* reset(): n.ID = newNodeID()
IdRead(g) ==
  /\ pc[g] = "idread"
  /\ IF AtomicID THEN /\ counter' = counter + 1 /\ id' = [id EXCEPT ![mine[g]] = counter + 1] /\ pc' = [pc EXCEPT ![g] = "put"] /\ UNCHANGED tmp
     ELSE /\ tmp' = [tmp EXCEPT ![g] = counter] /\ pc' = [pc EXCEPT ![g] = "idwrite"] /\ UNCHANGED <<counter, id>>
  /\ UNCHANGED <<pool, owner, mine, done>>
IdWrite(g) ==
  /\ pc[g] = "idwrite"
  /\ counter' = tmp[g] + 1 /\ id' = [id EXCEPT ![mine[g]] = tmp[g] + 1] /\ pc' = [pc EXCEPT ![g] = "put"]
  /\ UNCHANGED <<pool, owner, mine, tmp, done>>

\* nodePool.Put(n) after reset
Put(g) ==
  /\ pc[g] = "put"
  /\ pool' = pool \cup {mine[g]} /\ owner' = [owner EXCEPT ![mine[g]] = 0]
  /\ mine' = [mine EXCEPT ![g] = 0] /\ done' = [done EXCEPT ![g] = @ + 1] /\ pc' = [pc EXCEPT ![g] = "get"]
  /\ UNCHANGED <<id, counter, tmp>>

CNext == \E g \in 1..G : (\E c \in Cells : Get(g, c)) \/ Use(g) \/ IdRead(g) \/ IdWrite(g) \/ Put(g)
CSpec == CInit /\ [][CNext]_cvars

SingleOwner == \A c \in Cells : (c \in pool => owner[c] = 0) /\ Cardinality({g \in 1..G : mine[g] = c}) <= 1
DistinctIDs == \A a, b \in Cells : (a # b /\ id[a] # 0 /\ id[b] # 0) => id[a] # id[b]
=============================================================================
