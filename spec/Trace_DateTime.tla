--------------------------- MODULE Trace_DateTime ---------------------------
(* Calls of the four exported date-time functions recorded by the driver:     *)
(* civil fields of the input text, the zone offsets the tz database gives     *)
(* (for the input text's zone, for fromTZ at the input's wall reading, for    *)
(* toTZ at the wall reading and at the instant), and the functions' outputs   *)
(* split into civil fields / (day, second-or-millisecond of day).             *)
EXTENDS DateTime, Json, IOUtils
VARIABLE l
Trace == ndJsonDeserialize(IOEnv.TRACE_FILE)
Ev == Trace[l]

\* dateTimeToRFC3339 / dateTimeLayoutToRFC3339
ConvOK(e) ==
  LET eff == Eff(e.inHasTZ, e.inOff, e.fromGiven, e.fromOff)
      mode == ToMode(eff.has, e.toGiven)
  IN CASE mode = "keep" ->      /\ e.out = e.in                                     \* same wall-clock reading
                                /\ e.outHasTZ = eff.has /\ (eff.has => e.outOff = eff.off)
       [] mode = "overwrite" -> /\ e.out = e.in /\ e.outHasTZ /\ e.outOff = e.toOffWall
       [] mode = "convert" ->   /\ e.outHasTZ /\ e.outOff = e.toOffInst
                                /\ Instant(e.out, e.outOff) = Instant(e.in, eff.off)  \* the same instant

\* dateTimeToEpoch: Unix time in the requested unit, given as <<day, unit-of-day>>
EpochOK(e) ==
  LET eff == Eff(e.inHasTZ, e.inOff, e.fromGiven, e.fromOff)
      i == Instant(e.in, eff.off)
  IN /\ e.epochDay = i[1]
     /\ e.epochRem = IF e.unit = "SECOND" THEN i[2] ELSE i[2] * 1000 + e.ms

\* epochToDateTimeRFC3339 inverts it: the rendered civil time in zone tz is the same instant
InvOK(e) ==
  /\ Instant(e.out, e.outOff) = <<e.epochDay, IF e.unit = "SECOND" THEN e.epochRem ELSE e.epochRem \div 1000>>
  /\ e.outOff = e.tzOff

Init == l = 1
Next ==
  /\ l <= Len(Trace)
  /\ CASE Ev.ev = "conv" -> ConvOK(Ev)
       [] Ev.ev = "epoch" -> EpochOK(Ev)
       [] Ev.ev = "inv" -> InvOK(Ev)
       [] Ev.ev = "empty" -> Ev.out = "" /\ ~Ev.err                                  \* empty in, empty out
       [] Ev.ev = "bad" -> Ev.err                                                     \* unparsable input is an error
  /\ l' = l + 1
Spec == Init /\ [][Next]_l
TraceAccepted == TLCGet("stats").diameter - 1 = Len(Trace)
=============================================================================
