------------------------------ MODULE Hierarchy ------------------------------
(***************************************************************************)
(* The hierarchical record matcher of flatfile.HierarchyReader             *)
(* (extensions/omniv21/fileformat/flatfile/hierarchyReader.go), which      *)
(* csv2 and fixedlength2 use directly and whose skeleton edi/reader.go     *)
(* repeats.                                                                *)
(*                                                                         *)
(* Impl: the explicit stack machine, one Step per iteration of the `for`   *)
(* loop in Read (lines 50-121), recDone / recNext as the mutually          *)
(* recursive procedures they are (lines 219-277), the node arena with      *)
(* AddChild at creation time, the one-unit look-ahead of the RecReader.    *)
(* Ref : the documented greedy, non-backtracking recursive-descent         *)
(* matcher, written independently of the stack machine.                    *)
(*                                                                         *)
(* A hierarchy H is a record of sequences indexed by declaration 1..H.n in *)
(* pre-order: par (0 = the artificial root), grp, nm (name a non-group     *)
(* declaration matches), mn, mx (INF = unbounded), and tgt (the target).   *)
(* Units of the input are names; a non-group declaration consumes one      *)
(* unit whose name equals its own, or - the csv2 / fixedlength2 record     *)
(* shapes - two consecutive units whatever their names (rows = 2), or a    *)
(* header unit through the first footer unit (see Consumed).               *)
(***************************************************************************)
EXTENDS Integers, Sequences, FiniteSets, TLC

INF == 1000000

Range(f) == {f[x] : x \in DOMAIN f}
IsPrefixOf(a, b) == Len(a) <= Len(b) /\ SubSeq(b, 1, Len(a)) = a

\* ordered children of declaration p (0 = root)
Kids(H, p) == SelectSeq([i \in 1..H.n |-> i], LAMBDA i: H.par[i] = p)

RECURSIVE FirstLeaf(_, _)
\* "a group matches through its first non-group descendant" (readRec, lines 139-150)
FirstLeaf(H, d) ==
  IF ~H.grp[d] THEN d
  ELSE IF Kids(H, d) = <<>> THEN 0 ELSE FirstLeaf(H, Kids(H, d)[1])

\* How a non-group declaration matches units (csv2 / fixedlength2 record shapes; EDI has "name" only):
\*   "name"  one unit whose name is nm[d]                       (header without footer; an EDI segment)
\*   "rows2" any two consecutive units                          (rows-based record, rows = 2: a wildcard)
\*   "hf"    a unit named nm[d] through the first following unit named "Z" (header ... footer span)
\* Consumed = number of units one instance takes at pos, 0 = no match.  A rows-based record with fewer
\* units left and a header without a footer before the end of input do not match (the lines stay buffered).
MkOf(H, d) == IF "mk" \in DOMAIN H THEN H.mk[d] ELSE "name"
FooterName == "Z"
Consumed(H, in, d, pos) ==
  IF pos > Len(in) THEN 0
  ELSE CASE MkOf(H, d) = "name"  -> IF in[pos] = H.nm[d] THEN 1 ELSE 0
         [] MkOf(H, d) = "rows2" -> IF pos + 1 <= Len(in) THEN 2 ELSE 0
         [] MkOf(H, d) = "hf"    -> IF in[pos] # H.nm[d] THEN 0
                                    ELSE LET js == {j \in pos..Len(in) : in[j] = FooterName}
                                         IN IF js = {} THEN 0 ELSE (CHOOSE j \in js : \A k \in js : j <= k) - pos + 1

MatchesAt(H, in, d, pos) ==
  LET f == FirstLeaf(H, d) IN f # 0 /\ Consumed(H, in, f, pos) > 0

Grp(H, d) == IF d = 0 THEN TRUE ELSE H.grp[d]
Mn(H, d)  == IF d = 0 THEN 1 ELSE H.mn[d]
Mx(H, d)  == IF d = 0 THEN 1 ELSE H.mx[d]
Tgt(H, d) == d # 0 /\ d = H.tgt
\* The target filter (FINAL_OUTPUT's xpath on flat formats / EDI): H.flt = TRUE keeps only the instances of a *leaf*
\* target whose first unit has an odd index (`.[u mod 2 = 1]`).  A filtered-out instance is removed from the tree and
\* not delivered, but it has occurred: it counts towards min and max like any other.
Flt(H) == "flt" \in DOMAIN H /\ H.flt /\ ~H.grp[H.tgt]
Passes(H, u) == ~Flt(H) \/ u % 2 = 1

-----------------------------------------------------------------------------
(* Impl *)

\* state record s:
\*   stack  : Seq([d, node, cur, occ])   bottom = artificial root (d = 0)
\*   pos    : index of the first unprocessed unit
\*   target : node id of the completed, not yet delivered target instance (0 = none)
\*   nodes  : Seq([d, u, par])  arena in creation order; node 1 is the root document node
\*   gone   : node ids removed from the tree (released)
\*   out    : delivered instances, each a pre-order sequence of <<d, u, depth, e>>: declaration, first unit,
\*            depth below the instance root, last unit (u = e = 0 for a group)
\*   status : "run" | "eof" | "min" | "unexpected";  errd: declaration whose minimum is unmet
\*   panic  : name of a panic guard of the code that would have fired ("" = none)

InitState(H) ==
  LET root == [d |-> 0, node |-> 1, cur |-> 0, occ |-> 0]
      ks == Kids(H, 0)
  IN [stack |-> IF ks = <<>> THEN <<root>> ELSE <<root, [d |-> ks[1], node |-> 0, cur |-> 0, occ |-> 0]>>,
      pos |-> 1, target |-> 0, nodes |-> <<[d |-> 0, u |-> 0, n |-> 0, par |-> 0]>>, gone |-> {},
      out |-> <<>>, status |-> "run", errd |-> 0, panic |-> ""]

Top(s) == s.stack[Len(s.stack)]
Pop(s) == [s EXCEPT !.stack = SubSeq(@, 1, Len(@) - 1)]
Push(s, d) == [s EXCEPT !.stack = Append(@, [d |-> d, node |-> 0, cur |-> 0, occ |-> 0])]

RECURSIVE RecDone(_, _), RecNext(_, _)

\* hierarchyReader.go:219-249
RecDone(H, s0) ==
  LET n  == Len(s0.stack)
      s1 == [s0 EXCEPT !.stack[n].cur = 0, !.stack[n].occ = @ + 1]
      cur == s1.stack[n]
      s2 == IF Tgt(H, cur.d)
              THEN IF s1.target # 0 THEN [s1 EXCEPT !.panic = "r.target != nil"]
                   ELSE IF cur.node = 0 THEN [s1 EXCEPT !.panic = "cur.recNode == nil"]
                   ELSE IF ~Passes(H, s1.nodes[cur.node].u) THEN [s1 EXCEPT !.gone = @ \cup {cur.node}]     \* filtered out: removed, not delivered
                   ELSE [s1 EXCEPT !.target = cur.node]
              ELSE s1
  IN IF cur.occ < Mx(H, cur.d) THEN s2
     ELSE LET r == RecNext(H, s2)
          IN \* `_ = r.recNext()`: an error returned here is dropped (line 248)
             IF r.status = "min" THEN [s2 EXCEPT !.panic = "recNext failed inside recDone"] ELSE r

\* hierarchyReader.go:256-277
RecNext(H, s0) ==
  LET cur == Top(s0)
  IN IF cur.occ < Mn(H, cur.d) THEN [s0 EXCEPT !.status = "min", !.errd = cur.d]
     ELSE IF Len(s0.stack) <= 1 THEN s0
     ELSE LET s1 == Pop(s0)
              n  == Len(s1.stack)
              p  == s1.stack[n]
              ks == Kids(H, p.d)
          IN IF p.cur < Len(ks) - 1
               THEN Push([s1 EXCEPT !.stack[n].cur = p.cur + 1], ks[p.cur + 2])
               ELSE RecDone(H, s1)

RECURSIVE DepthTo(_, _, _)
\* number of parent links from node i up to node t; -1 if t is not an ancestor-or-self of i
DepthTo(nodes, i, t) ==
  IF i = t THEN 0
  ELSE IF i = 0 \/ nodes[i].par = 0 THEN -1
  ELSE LET k == DepthTo(nodes, nodes[i].par, t) IN IF k < 0 THEN -1 ELSE k + 1

\* pre-order encoding of the subtree below node t (creation order is document order)
SubtreeEnc(nodes, t) ==
  LET ids == SelectSeq([i \in 1..Len(nodes) |-> i], LAMBDA i: i >= t /\ DepthTo(nodes, i, t) >= 0)
  IN [k \in 1..Len(ids) |-> <<nodes[ids[k]].d, nodes[ids[k]].u, DepthTo(nodes, ids[k], t),
                               IF nodes[ids[k]].n = 0 THEN 0 ELSE nodes[ids[k]].u + nodes[ids[k]].n - 1>>]

\* One iteration of the loop in Read (a pending target is handed out first: lines 51-53; the
\* ingester's Release before the next Read removes it from the tree).
Step(H, in, s) ==
  IF s.target # 0
    THEN [s EXCEPT !.out = Append(@, SubtreeEnc(s.nodes, s.target)), !.gone = @ \cup {s.target}, !.target = 0]
  ELSE IF s.pos > Len(in)                      \* MoreUnprocessedData() = false
    THEN IF Len(s.stack) <= 1 THEN [s EXCEPT !.status = "eof"] ELSE RecNext(H, s)
  ELSE IF Len(s.stack) <= 1
    THEN \* flatfile: data left after the last top-level declaration is unexpected (lines 84-88).
         \* edi/reader.go:263-291: the artificial root is itself matched through its first child, so the
         \* top-level declarations start over ("multiple root level segments" is a repository test).
         IF H.edi /\ Kids(H, 0) # <<>> /\ MatchesAt(H, in, Kids(H, 0)[1], s.pos)
           THEN Push([s EXCEPT !.nodes = Append(@, [d |-> 0, u |-> 0, n |-> 0, par |-> 0]),
                               !.stack[1].node = Len(s.nodes) + 1], Kids(H, 0)[1])
           ELSE [s EXCEPT !.status = "unexpected"]
  ELSE LET n == Len(s.stack)
           d == s.stack[n].d
       IN IF ~MatchesAt(H, in, d, s.pos) THEN RecNext(H, s)
          ELSE LET leaf == ~Grp(H, d)
                   pn   == s.stack[n - 1].node
                   id   == Len(s.nodes) + 1
                   cn   == IF leaf THEN Consumed(H, in, d, s.pos) ELSE 0
                   s1   == [s EXCEPT !.nodes = Append(@, [d |-> d, u |-> IF leaf THEN s.pos ELSE 0, n |-> cn, par |-> pn]),
                                     !.pos = @ + cn,
                                     !.stack[n].node = id,
                                     !.panic = IF pn = 0 \/ pn \in s.gone THEN "AddChild to a nil/released parent" ELSE @]
               IN IF Kids(H, d) # <<>> THEN Push(s1, Kids(H, d)[1]) ELSE RecDone(H, s1)

-----------------------------------------------------------------------------
(* Ref: recursive descent.  Results are records                              *)
(*   [ok, pos, toks, outs, errd]                                            *)
(* toks: pre-order tokens <<d, u, depth, e>> of everything matched by this     *)
(* call; outs: completed target instances in order (also kept on failure:   *)
(* they were delivered before the failure).                                 *)

Norm(toks) == [k \in 1..Len(toks) |-> <<toks[k][1], toks[k][2], toks[k][3] - toks[1][3], toks[k][4]>>]

RECURSIVE RefSeq(_, _, _, _, _, _), RefRepeat(_, _, _, _, _, _), RefInst(_, _, _, _, _)

\* one instance of declaration d starting at unit pos (caller established MatchesAt)
RefInst(H, in, d, pos, depth) ==
  LET leaf == ~H.grp[d]
      self == <<d, IF leaf THEN pos ELSE 0, depth, IF leaf THEN pos + Consumed(H, in, d, pos) - 1 ELSE 0>>
      r    == RefSeq(H, in, Kids(H, d), 1, IF leaf THEN pos + Consumed(H, in, d, pos) ELSE pos, depth + 1)
      toks == <<self>> \o r.toks
  IN IF ~r.ok THEN [r EXCEPT !.toks = toks]
     ELSE [ok |-> TRUE, pos |-> r.pos, toks |-> toks,
           outs |-> IF d = H.tgt /\ Passes(H, pos) THEN Append(r.outs, Norm(toks)) ELSE r.outs, errd |-> 0]

\* up to mx instances of d, greedily; fewer than mn is the failure
RefRepeat(H, in, d, pos, depth, count) ==
  IF count < H.mx[d] /\ MatchesAt(H, in, d, pos)
    THEN LET r == RefInst(H, in, d, pos, depth)
         IN IF ~r.ok THEN r
            ELSE LET q == RefRepeat(H, in, d, r.pos, depth, count + 1)
                 IN [q EXCEPT !.toks = r.toks \o @, !.outs = r.outs \o @]
    ELSE IF count < H.mn[d]
      THEN [ok |-> FALSE, pos |-> pos, toks |-> <<>>, outs |-> <<>>, errd |-> d]
      ELSE [ok |-> TRUE, pos |-> pos, toks |-> <<>>, outs |-> <<>>, errd |-> 0]

\* the declarations ds[i..] in order
RefSeq(H, in, ds, i, pos, depth) ==
  IF i > Len(ds) THEN [ok |-> TRUE, pos |-> pos, toks |-> <<>>, outs |-> <<>>, errd |-> 0]
  ELSE LET r == RefRepeat(H, in, ds[i], pos, depth, 0)
       IN IF ~r.ok THEN r
          ELSE LET q == RefSeq(H, in, ds, i + 1, r.pos, depth)
               IN [q EXCEPT !.toks = r.toks \o @, !.outs = r.outs \o @]

RECURSIVE RefTop(_, _, _)
\* the top-level declarations; for EDI they repeat as long as the first of them matches again
RefTop(H, in, pos) ==
  LET r == RefSeq(H, in, Kids(H, 0), 1, pos, 1)
  IN IF r.ok /\ H.edi /\ Kids(H, 0) # <<>> /\ MatchesAt(H, in, Kids(H, 0)[1], r.pos)
       THEN LET q == RefTop(H, in, r.pos) IN [q EXCEPT !.toks = r.toks \o @, !.outs = r.outs \o @]
       ELSE r

Ref(H, in) ==
  LET r == RefTop(H, in, 1)
  IN [out |-> r.outs,
      status |-> IF ~r.ok THEN "min" ELSE IF r.pos <= Len(in) THEN "unexpected" ELSE "eof",
      errd |-> r.errd]

\* the whole behaviour in one evaluation (used by the trace specification)
RECURSIVE RunFrom(_, _, _)
RunFrom(H, in, s) == IF s.status # "run" \/ s.panic # "" THEN s ELSE RunFrom(H, in, Step(H, in, s))
Run(H, in) == RunFrom(H, in, InitState(H))

-----------------------------------------------------------------------------
(* well-formed hierarchies: what the csv2 / fixedlength2 / EDI validators accept *)

RECURSIVE AncSelf(_, _)
AncSelf(par, i) == IF i = 0 THEN {0} ELSE {i} \cup AncSelf(par, par[i])

WellFormed(H) ==
  /\ \A i \in 1..H.n : H.par[i] \in 0..(i - 1)
  /\ \A i \in 2..H.n : H.par[i] \in AncSelf(H.par, i - 1)            \* pre-order numbering
  /\ \A i \in 1..H.n : H.grp[i] => \E j \in 1..H.n : H.par[j] = i      \* a group has children
  /\ \A i \in 1..H.n : H.mn[i] <= H.mx[i] /\ H.mx[i] >= 1
  /\ H.tgt \in 1..H.n
=============================================================================
