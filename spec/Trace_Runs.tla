----------------------------- MODULE Trace_Runs -----------------------------
(***************************************************************************)
(* Multi-run trace specification for the "does not depend on X"            *)
(* properties (2-safety): C09 delivery schedule, C13 cache configuration,  *)
(* C15 process history, C18 encoding/BOM, and the algebraic laws of C10    *)
(* and C16.  In the specification a transform's result sequence is a       *)
(* function of the content alone: the variable `gold` holds that function's*)
(* value for the family being replayed, and every further run of the       *)
(* family must be explained by it.  Results are fingerprints               *)
(* (class|out|err|checksum) computed by the driver.                        *)
(*                                                                         *)
(* events                                                                  *)
(*   golden  results           first run of a family: defines gold         *)
(*   same    results           must equal gold                             *)
(*   concat  a b ab            results(A.B) = body(a) . body(b) . eof       *)
(*   perm    base perm out     permuting records permutes results           *)
(*   replace base repl pos     position pos becomes a per-record failure,   *)
(*                             every other result unchanged                 *)
(*   fault   base faulted reads bound   C16 (see Fault)                     *)
(*   distinct x y / equal x y  C15 checksum sensitivity                     *)
(***************************************************************************)
EXTENDS Integers, Sequences, TLC, Json, IOUtils

VARIABLES l, gold
Trace == ndJsonDeserialize(IOEnv.TRACE_FILE)
Ev == Trace[l]
IsEvent(e) == l <= Len(Trace) /\ Ev.ev = e /\ l' = l + 1


Body(t) == IF t # <<>> /\ t[Len(t)] = "eof" THEN SubSeq(t, 1, Len(t) - 1) ELSE t
EndsEof(t) == t # <<>> /\ t[Len(t)] = "eof"
IsPrefix(a, b) == Len(a) <= Len(b) /\ SubSeq(b, 1, Len(a)) = a

Init == l = 1 /\ gold = <<>>

Golden == IsEvent("golden") /\ gold' = Ev.results

Same == IsEvent("same") /\ Ev.results = gold /\ UNCHANGED gold

\* C10: classes only at the end marker: transcripts here use "eof" as the literal terminal fingerprint
Concat ==
  /\ IsEvent("concat")
  /\ EndsEof(Ev.a) /\ EndsEof(Ev.b)
  /\ Ev.ab = Body(Ev.a) \o Body(Ev.b) \o <<"eof">>
  /\ UNCHANGED gold

Perm ==
  /\ IsEvent("perm")
  /\ EndsEof(Ev.base)
  /\ Len(Ev.out) = Len(Ev.base)
  /\ \A k \in 1..Len(Ev.perm) : Ev.out[k] = Ev.base[Ev.perm[k]]
  /\ Ev.out[Len(Ev.out)] = "eof"
  /\ UNCHANGED gold

Replace ==
  /\ IsEvent("replace")
  /\ Len(Ev.repl) = Len(Ev.base)
  /\ \A k \in 1..Len(Ev.base) : IF k = Ev.pos THEN Ev.replclass = "failed" ELSE Ev.repl[k] = Ev.base[k]
  /\ UNCHANGED gold

\* C16: a non-EOF reader error at some point of the input.
\*   - the faulted run ends with a fatal (non-continuable, non-EOF) result after at most `bound` Reads
\*   - every result before it, except possibly the last one, equals the fault-free run's
\*   - EOF may be reported only if no record of the fault-free run is missing
Fault ==
  /\ IsEvent("fault")
  /\ LET f == Ev.faulted
         n == Len(f)
     IN /\ n >= 1 /\ n <= Ev.bound
        /\ \/ Ev.lastclass = "fatal"
           \/ Ev.lastclass = "eof" /\ f = Ev.base               \* the fault was never reached / nothing is missing
        /\ Ev.lastclass = "fatal" =>
             \/ IsPrefix(SubSeq(f, 1, n - 1), Ev.base)
             \/ n >= 2 /\ IsPrefix(SubSeq(f, 1, n - 2), Ev.base)  \* "except possibly the last" result before the fatal one
        /\ Ev.sticky                                              \* the terminal error is returned again unchanged (C01)
  /\ UNCHANGED gold

\* C15: checksums separate raw records that differ in an ingested value, and agree on equal raw records
Distinct == IsEvent("distinct") /\ Ev.x # Ev.y /\ UNCHANGED gold
Equal == IsEvent("equal") /\ Ev.x = Ev.y /\ UNCHANGED gold

Next == Golden \/ Same \/ Concat \/ Perm \/ Replace \/ Fault \/ Distinct \/ Equal
Spec == Init /\ [][Next]_<<l, gold>>
TraceAccepted == TLCGet("stats").diameter - 1 = Len(Trace)
=============================================================================
