------------------------------ MODULE Ingester ------------------------------
(***************************************************************************)
(* The protocol between Transform, the omni.2.1 ingester and a              *)
(* FormatReader (transform.go:44-81, extensions/omniv21/ingester.go:40-66,  *)
(* fileformat/fileformat.go:24-40).                                         *)
(*                                                                         *)
(* One Transform.Read is at most one ingester.Read, which is                *)
(*     [reader.Release(node of the previous Read)]  reader.Read  [ParseNode, *)
(*     json.Marshal]                                                        *)
(* The reader hands out nodes (identified by their node ID); "a node handed  *)
(* out by Read is given back by exactly one Release, before the next Read"   *)
(* is what lets every reader detach the record from its tree (C17) and what  *)
(* keeps a released node from being used again (C12).                       *)
(*                                                                         *)
(* Variables are the abstract protocol state; the actions are the calls as   *)
(* a recording FormatReader (wrapped around the real one) and the driver     *)
(* observe them, in order.                                                  *)
(***************************************************************************)
EXTENDS Integers, Sequences, FiniteSets, TLC

VARIABLES
  inRead,    \* a Transform.Read call is in progress
  sub,       \* "start" | "released" | "read": how far the ingester got inside it
  held,      \* node handed out by reader.Read and not given back yet (0 = none)
  seen,      \* node ids ever handed out by the reader
  freed,     \* node ids given back
  rlast,     \* class of the last reader.Read result: "none" | "node" | "eof" | "fatal" | "cont"
  rdone,     \* the reader reported EOF or a non-continuable error
  term,      \* the terminal class Transform.Read latched ("" = none)
  lastOK,    \* the last completed Transform.Read returned a record
  sawNonCont \* within this Read the reader was asked IsContinuableError and said no

vars == <<inRead, sub, held, seen, freed, rlast, rdone, term, lastOK, sawNonCont>>

Init == /\ inRead = FALSE /\ sub = "start" /\ held = 0 /\ seen = {} /\ freed = {} /\ rlast = "none"
        /\ rdone = FALSE /\ term = "" /\ lastOK = FALSE /\ sawNonCont = FALSE

\* Transform.Read is entered
TRead == /\ ~inRead
         /\ inRead' = TRUE /\ sub' = "start" /\ sawNonCont' = FALSE
         /\ UNCHANGED <<held, seen, freed, rlast, rdone, term, lastOK>>

\* reader.Release(n): only the node of the previous Read, only once, only at the start of the next ingester.Read
RRelease(n) == /\ inRead /\ sub = "start" /\ term = ""
               /\ held # 0 /\ n = held /\ n \notin freed
               /\ held' = 0 /\ freed' = freed \cup {n} /\ sub' = "released"
               /\ UNCHANGED <<inRead, seen, rlast, rdone, term, lastOK, sawNonCont>>

\* reader.Read() returns: cls = "node" with a node never handed out before, or an error class
RRead(n, cls) == /\ inRead /\ sub \in {"start", "released"} /\ term = ""
                 /\ held = 0                         \* the previous node has been given back
                 /\ ~rdone                           \* a reader that ended is not read again
                 /\ IF cls = "node" THEN n # 0 /\ n \notin seen ELSE n = 0
                 /\ held' = n /\ seen' = IF cls = "node" THEN seen \cup {n} ELSE seen
                 /\ rlast' = cls /\ rdone' = (cls \in {"eof", "fatal"}) /\ sub' = "read"
                 /\ UNCHANGED <<inRead, freed, term, lastOK, sawNonCont>>

\* reader.IsContinuableError(err) = b, asked by the ingester while classifying an error
RCont(b) == /\ inRead
            /\ sawNonCont' = (sawNonCont \/ ~b)
            /\ UNCHANGED <<inRead, sub, held, seen, freed, rlast, rdone, term, lastOK>>

\* Transform.Read returns class cls ("ok" | "failed" | "eof" | "fatal"); nilb: the byte slice is nil
TReadEnd(cls, nilb) ==
  /\ inRead
  /\ nilb = (cls # "ok")
  /\ IF term # "" THEN sub = "start" /\ cls = term                     \* latched: the ingester is not called again
     ELSE /\ sub = "read"
          /\ CASE rlast = "node"  -> cls \in {"ok", "failed"} \/ (cls = "fatal" /\ sawNonCont)
               [] rlast = "eof"   -> cls = "eof"
               [] rlast = "fatal" -> cls = "fatal"
               [] rlast = "cont"  -> cls = "failed"
               [] OTHER -> FALSE
  /\ term' = IF term = "" /\ cls \in {"eof", "fatal"} THEN cls ELSE term
  /\ lastOK' = (cls = "ok")
  /\ inRead' = FALSE
  /\ UNCHANGED <<sub, held, seen, freed, rlast, rdone, sawNonCont>>

\* Transform.RawRecord() between Reads: the raw record of an ok Read is the node the reader handed out
TRaw(cls, n) == /\ ~inRead
                /\ IF lastOK THEN cls = "raw" /\ n = held /\ n # 0 ELSE cls # "raw"
                /\ UNCHANGED vars

Next == TRead \/ (\E n \in 0..6 : RRelease(n) \/ \E c \in {"node", "eof", "fatal", "cont"} : RRead(n, c))
        \/ (\E b \in BOOLEAN : RCont(b))
        \/ (\E c \in {"ok", "failed", "eof", "fatal"}, nb \in BOOLEAN : TReadEnd(c, nb))
        \/ (\E c \in {"raw", "err"}, n \in 0..6 : TRaw(c, n))
Spec == Init /\ [][Next]_vars

\* consequences (checked on the bounded model and on every validated trace)
AtMostOneOut == Cardinality(seen \ freed) <= 1                 \* at most one node is out of the reader's hands
HeldIsOut == held # 0 => held \in seen \ freed
FreedWereSeen == freed \subseteq seen
NoReadAfterEnd == rdone => (sub = "read" \/ term # "" \/ inRead)
=============================================================================
