------------------------------ MODULE DateTime ------------------------------
(***************************************************************************)
(* dateTimeToRFC3339 / dateTimeLayoutToRFC3339 / dateTimeToEpoch /          *)
(* epochToDateTimeRFC3339 (customfuncs/datetime.go).                        *)
(*                                                                         *)
(* 1. The decision logic of parseDateTime (lines 32-68): from (does the     *)
(*    text carry a zone?, is fromTZ given?, is toTZ given?) which of        *)
(*    keep / overwrite-with-from / convert-to / overwrite-with-to applies.  *)
(* 2. Calendar arithmetic independent of Go's time package: proleptic       *)
(*    Gregorian days-from-civil, instants as <<day, secondOfDay>> relative  *)
(*    to 1970-01-01 (TLC integers are 32 bit; seconds since the epoch are   *)
(*    not).                                                                 *)
(* Zone offsets are inputs (logged from the tz database, the trusted base). *)
(***************************************************************************)
EXTENDS Integers, Sequences, TLC

\* --- 1. decision table
\* eff: the zone the parsed time is bound to before toTZ is looked at
Eff(inHasTZ, inOff, fromGiven, fromOff) ==
  IF inHasTZ THEN [has |-> TRUE, off |-> inOff]              \* fromTZ is ignored when the text carries a zone
  ELSE IF fromGiven THEN [has |-> TRUE, off |-> fromOff]     \* OverwriteTZ(t, fromTZ): same wall reading, that zone
  ELSE [has |-> FALSE, off |-> 0]
ToMode(effHas, toGiven) == IF ~toGiven THEN "keep" ELSE IF effHas THEN "convert" ELSE "overwrite"

\* --- 2. calendar
DaysFromCivil(y, m, d) ==
  LET yy == IF m <= 2 THEN y - 1 ELSE y
      era == yy \div 400
      yoe == yy - era * 400
      mp == IF m > 2 THEN m - 3 ELSE m + 9
      doy == (153 * mp + 2) \div 5 + d - 1
      doe == yoe * 365 + yoe \div 4 - yoe \div 100 + doy
  IN era * 146097 + doe - 719468

SecOfDay(c) == c[4] * 3600 + c[5] * 60 + c[6]
\* the instant (UTC) of civil reading c = <<y, m, d, h, mi, s>> in a zone `off` seconds east of UTC
Norm(day, sec) == <<day + (sec \div 86400), sec % 86400>>          \* TLA+ \div and % are floored: sec may be negative
Instant(c, off) == Norm(DaysFromCivil(c[1], c[2], c[3]), SecOfDay(c) - off)

ASSUME DaysFromCivil(1970, 1, 1) = 0
ASSUME DaysFromCivil(9999, 12, 31) = 2932896
ASSUME DaysFromCivil(1, 1, 1) = -719162
ASSUME DaysFromCivil(2000, 2, 29) = 11016 /\ DaysFromCivil(2000, 3, 1) = 11017
ASSUME DaysFromCivil(1900, 2, 28) + 1 = DaysFromCivil(1900, 3, 1)          \* 1900 is not a leap year
ASSUME DaysFromCivil(2038, 1, 19) = 24855 /\ DaysFromCivil(2262, 4, 11) = 106751
ASSUME Instant(<<1970, 1, 1, 0, 0, 0>>, 3600) = <<-1, 82800>>
=============================================================================
