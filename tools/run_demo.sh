#!/bin/sh
# tools/run_demo.sh <seed dir> <dest dir relative to repo root> <go test -run regex> [extra go test flags]
# scratch worktree of /repo HEAD: the demo must PASS without the patch and FAIL with it
set -u
dir=$1; dest=$2; re=$3; shift 3
export GOFLAGS=-mod=mod GOPROXY=off GOSUMDB=off GOTOOLCHAIN=local
sv=$(mktemp -d /tmp/sd-XXXXXX)
git -C /repo worktree add -q --detach "$sv/wt" HEAD || exit 2
mkdir -p "$sv/wt/$dest"; cp "$dir"/demo/*.go "$sv/wt/$dest/" 2>/dev/null
(cd "$sv/wt" && go test -vet=off -count=1 -run "$re" "$@" "./$dest/" > "$sv/without.log" 2>&1); rc1=$?
git -C "$sv/wt" apply "$dir/patch.diff" || echo "PATCH DOES NOT APPLY"
(cd "$sv/wt" && go test -vet=off -count=1 -run "$re" "$@" "./$dest/" > "$sv/with.log" 2>&1); rc2=$?
echo "demo without patch rc=$rc1 ($(tail -1 $sv/without.log | cut -c1-80)); with patch rc=$rc2 ($(grep -m1 -- '--- FAIL\|^FAIL\|panic' $sv/with.log | cut -c1-100))"
git -C /repo worktree remove --force "$sv/wt"; rm -rf "$sv"
[ $rc1 -eq 0 ] && [ $rc2 -ne 0 ]
