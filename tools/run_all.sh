#!/bin/sh
# run every registered check at the given tier, print exit code and wall time per property
tier=${1:-quick}
cd "$(dirname "$0")/.."
for id in $(python3 -c "import json;print(' '.join(c['property_id'] for c in json.load(open('MANIFEST.json'))['checks']))"); do
  s=$(date +%s)
  bin/check $id --tier $tier > /tmp/verif-runall-$id.log 2>&1
  rc=$?
  e=$(date +%s)
  echo "$id rc=$rc $((e-s))s $(grep -c '^KNOWN-FINDING' /tmp/verif-runall-$id.log) known $(grep -c '^VIOLATION' /tmp/verif-runall-$id.log) violations"
done
