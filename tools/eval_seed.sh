#!/bin/sh
# tools/eval_seed.sh <seed dir containing patch.diff> <property id> [more property ids ...]
# scratch worktree of /repo HEAD with the change applied (never /repo itself): builds, existing tests pass,
# then the quick checks of the given properties run against it (VERIF_REPO) with evidence/replays going to a
# scratch directory (VERIF_OUT), so /repo and /verif/evidence stay untouched.
set -u
dir=$1; shift
export GOFLAGS=-mod=mod GOPROXY=off GOSUMDB=off GOTOOLCHAIN=local
sv=$(mktemp -d /tmp/sv-XXXXXX)
git -C /repo worktree add -q --detach "$sv/wt" HEAD || exit 2
if ! git -C "$sv/wt" apply "$dir/patch.diff"; then echo "PATCH DOES NOT APPLY"; git -C /repo worktree remove --force "$sv/wt"; rm -rf "$sv"; exit 2; fi
(cd "$sv/wt" && go build ./... ) || echo "BUILD FAILS"
echo "existing-tests: $(cd "$sv/wt" && go test -vet=off -count=1 ./... 2>&1 | grep -c '^FAIL\|^---') failures"
for id in "$@"; do
  VERIF_REPO="$sv/wt" VERIF_OUT="$sv/out" VERIF_SCRATCH_BASE="$sv" ${VERIF_HOME:-/verif}/bin/check "$id" --tier ${TIER:-quick} > "$sv/seed-$id.log" 2>&1
  echo "check $id rc=$? : $(grep -c '^VIOLATION' "$sv/seed-$id.log") violations; $(grep '^VIOLATION' -A1 "$sv/seed-$id.log" | grep -v '^VIOLATION' | head -1 | cut -c1-260)"
done
git -C /repo worktree remove --force "$sv/wt"; rm -rf "$sv"
