#!/bin/sh
# tools/eval_seed.sh <seed dir containing patch.diff> <property id> [more property ids ...]
# 1. scratch worktree: patch applies, builds, existing tests pass
# 2. apply to /repo, run the quick checks of the given properties, undo
set -u
dir=$1; shift
export GOFLAGS=-mod=mod GOPROXY=off GOSUMDB=off GOTOOLCHAIN=local
sv=$(mktemp -d /tmp/sv-XXXXXX)
git -C /repo worktree add -q --detach "$sv/wt" HEAD || exit 2
if ! git -C "$sv/wt" apply "$dir/patch.diff"; then echo "PATCH DOES NOT APPLY"; git -C /repo worktree remove --force "$sv/wt"; rm -rf "$sv"; exit 2; fi
(cd "$sv/wt" && go build ./... && go test -vet=off -count=1 ./... 2>&1 | grep -v "no test files" | grep -v "^ok" | head -5)
echo "existing-tests: $(cd "$sv/wt" && go test -vet=off -count=1 ./... 2>&1 | grep -c '^FAIL\|^---') failures"
git -C /repo worktree remove --force "$sv/wt"; rm -rf "$sv"
git -C /repo apply "$dir/patch.diff" || exit 2
for id in "$@"; do
  /verif/bin/check "$id" --tier quick > /tmp/seed-$id.log 2>&1
  echo "check $id rc=$? : $(grep -c '^VIOLATION' /tmp/seed-$id.log) violations; $(grep '^VIOLATION' -A1 /tmp/seed-$id.log | grep -v '^VIOLATION' | head -1 | cut -c1-260)"
done
git -C /repo checkout -- .
git -C /repo status --short | head -3
