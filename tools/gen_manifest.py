#!/usr/bin/env python3
"""Regenerates MANIFEST.json from the table below (single source of truth for what is claimed)."""
import json, os, subprocess
ROOT = os.path.dirname(os.path.dirname(os.path.abspath(__file__)))
props = [json.loads(l)["id"] for l in open(os.path.join(ROOT, "properties.jsonl"))]

CHECKS = {
 "C01": dict(cat="model_checking", design="5/C01",
   technique="TLA+ spec Transform.tla model-checked by TLC (all ingester scripts x call words); TLC-generated cases replayed on the real Transform via a scripted Extension; traces of real read loops over all 7 formats validated by TLC against Trace_Transform.tla",
   text="TLC exhaustively checks shape, stickiness and the RawRecord gate of the latch model for every ingester script (<=3/4 results) and every Read/RawRecord word (<=6/8 calls); every such behaviour is replayed step by step on the real omniparser.Transform (caller-supplied handler half of the quantifier) and every call of randomized read loops over the seven built-in formats on intact and damaged inputs is validated against the same actions. Bounded exhaustive for the latch, sampled for inputs.",
   note="Trusted: TLC, the 60-line scripted ingester, error identity = (class, text) for format traces. Inputs of the built-in formats are sampled (samples + mutations), not enumerated."),
 "C05": dict(cat="model_checking", design="5/C05",
   technique="TLA+ spec Hierarchy.tla (stack machine Impl + recursive-descent Ref) model-checked by TLC over all small hierarchies x unit sequences; TLC-emitted cases replayed on flatfile.HierarchyReader, csv2, fixedlength2 and edi; recorded runs on random larger hierarchies validated by TLC (Trace_Hierarchy.tla)",
   text="TLC checks for every well-formed hierarchy with <=2 (quick) / <=3 (thorough) declarations and every unit sequence of <=3/4 units over declared and undeclared names that the stack machine transcribed from hierarchyReader.go/edi reader.go delivers exactly the instances of the documented greedy recursive-descent matcher, ends with the same terminal class, never consumes a unit twice, never drops one and never reaches a panic guard. Every such case (51,840 quick; ~400k thorough, N=3 sampled 1/25) is replayed on four real implementations with terminated/unterminated/blank-line/non-UTF-8 input variants; random hierarchies up to 8 declarations and 40 units are checked by TLC evaluating the reference matcher on the recorded case.",
   note="Trusted: TLC; the concretiser (unit index carried in a column/element named u); units are single-line, name-matched. Bounded: exhaustive only at N<=3, sampled beyond."),
 "C12": dict(cat="model_checking", design="5/C12",
   technique="TLA+ spec IDR.tla (node arena, AddChild, 4-case unlink, recycle/reset, pool, ID counter) model-checked by TLC over all reachable arenas; operation words executed on the real idr package and every step trace-validated by TLC with the full pointer structure; reader-produced trees dumped and checked by TLC; pool ownership via verif hook",
   text="TLC explores every reachable configuration of a 4-cell (thorough: 5-cell) arena under all interleavings of CreateNode/AddChild/RemoveAndReleaseTree, pooling on and off, and checks link consistency, acyclicity, blank pooled cells, no dangling references and ID distinctness in each. The code is bound by executing every legal operation word (<=5/6 ops) plus random long words on the real package and having TLC accept each step only if the real pointer structure equals the specified one; trees handed out by all seven readers are dumped after every Read and checked by the same structural predicate; get/put hook events check single ownership, blankness and ID uniqueness of every acquisition.",
   note="Trusted: TLC, sync.Pool's own hand-out discipline, the harness's pointer numbering. Racing acquisitions are covered by C14's driver, not here."),
 "C04": dict(cat="model_checking", design="5/C04",
   technique="TLA+ spec StreamSelect.tla (token-driven reader model with partial tree, candidate marking, final check, pruning vs. whole-document outermost selection), checked by TLC on every small document x xpath; emitted cases replayed on the real XML/JSON stream readers; random runs validated by TLC (Trace_StreamSelect.tla)",
   text="TLC evaluates, for every XML-shaped document with <=3 (thorough: 4) nodes and every xpath of the property's class with <=2 (3) steps and 7 predicate forms, the reader state machine transcribed from xmlreader.go/jsonreader.go against whole-document outermost selection, plus pruning and candidate-identity invariants; each case is replayed on the real XMLStreamReader and JSONStreamReader, and the real engine's whole-document result validates the specification's xpath semantics on every case (mismatch = exit 2). Random documents up to 40 nodes are validated by TLC evaluating the reference on the logged case.",
   note="Trusted: TLC, the XML/JSON renderers of the harness. Document payloads are small alphabets; arrays/numbers in JSON are covered by C08, not here."),
 "C02": dict(cat="model_checking", design="5/C02",
   technique="TLA+ spec Eval.tla (documented evaluation RefEval vs. cached evaluator ImplEval with the code's cache key) checked by TLC on all small declaration trees x records; TLC-emitted expectations replayed on the real Transform in three renderings (inline / templates / xpath_dynamic) x XML/JSON; random larger cases validated by TLC (Trace_Eval.tla)",
   text="TLC evaluates for every declaration tree with <=3 (thorough: 4, sampled) nodes over 34 node variants and every record with <=3 nodes, plus directed families for cache-key collisions and array order, both the documented denotational evaluation and the evaluator with its result cache, and requires them equal (cache hits and visiting order invisible). Every case's expected JSON is replayed on the real NewSchema/NewTransform/Read with the tree rendered inline, with every subtree as a template and with xpath_dynamic, for XML and JSON input. Random trees up to 10 nodes are checked by TLC evaluating the reference on the logged case.",
   note="Trusted: TLC, the schema/record renderers. Payload alphabet is tiny; types are none/int; custom_func is concat; kept-empty values compared modulo rendering. CSV/fixed-length/EDI records reach ParseNode as the same node trees (C05/C06 bind those readers)."),
 "C09": dict(cat="exploration", design="5/C09",
   technique="multi-run trace validation: real runs of the same bytes under enumerated/sampled delivery schedules are checked by TLC against Trace_Runs.tla (result sequence is a function of content); the reader's own buffer-aliasing discipline is model-checked in Chunks.tla for every refill pattern",
   text="For every corpus input (all 7 formats, 3 encodings, BOM, generated multi-row inputs that straddle bufio's window) the golden whole-buffer run is compared by TLC with 1-byte delivery, data-with-EOF, every single split point (exhaustive up to 700/4200 bytes) and random chunkings with empty reads; TLC also explores every refill pattern of the fixedlength2 alias-then-copy model. Exploration: schedules beyond single split points are sampled.",
   note="Trusted: TLC, the chunking reader of the harness; stdlib/go-corelib layers are axiomatised (not modelled). JSON reader line numbers in messages are masked (documented as rough)."),
 "C16": dict(cat="fault_enumeration", design="5/C16",
   technique="fault enumeration: real runs with the io.Reader failing at every byte position (two failure modes x two delivery schedules) are recorded and validated by TLC against the Fault action of Trace_Runs.tla (bounded reads to a sticky fatal error, prefix equality with the fault-free run)",
   text="Every fault position of every small corpus input (all formats; sampled positions for large inputs) is executed on the real Transform; TLC accepts a faulted run only if it ends within fault-free-length+2 Reads in a non-continuable, sticky error (or in EOF with nothing missing) and every earlier result except possibly the last equals the fault-free run's. Calls run under a 2 s watchdog; hangs and panics are violations.",
   note="Trusted: TLC, the fault-injecting reader. Error identity for stickiness is (value or text). Faults are persistent from the first failure on (a reader that recovers is outside the property)."),
 "C10": dict(cat="exploration", design="5/C10",
   technique="multi-run trace validation: real runs of record sequences A, B, A.B, permutations and single-position replacements by failing records, for all 7 formats, checked by TLC against the Concat/Perm/Replace laws of Trace_Runs.tla",
   text="Seeded record sequences drawn from per-format pools (ok records; records failing by type cast, multiple xpath matches, custom function error) are transformed alone, concatenated, permuted and with one position replaced; TLC checks the concatenation, permutation and replacement laws on every recorded family. Exploration: sequences are sampled; pools are small.",
   note="Trusted: TLC; the record pools (validated on every run). Only (class, output bytes) are compared."),
 "C13": dict(cat="model_checking", design="5/C13",
   technique="TLC checks the cached evaluator of Eval.tla against the cache-free reference on the declaration families the property names; real runs under all 24 cache/pool configurations (cold and warm) are recorded and validated by TLC against Trace_Runs.tla (every transcript equals the all-off transcript)",
   text="Design: for textually identical declarations in anchoring/non-anchoring positions (and, thorough, all 3-node trees) TLC shows evaluation with the result cache (key as in the code) equals evaluation without it. Code: the whole corpus plus schemas with identical declarations, shared templates, xpath_dynamic and javascript_with_context on record and ancestor is run under every on/off/capacity-1 combination of node pool, transform cache, JS caches and xpath cache, twice per configuration; TLC requires equality with the all-off run. One known finding (node-JSON cache on an ancestor) is listed in known_findings.json.",
   note="Trusted: TLC, lru/sync.Pool implementations. Cache switches are verif-tagged setters; the xpath cache has no off switch (capacity 1 instead)."),
 "C15": dict(cat="exploration", design="5/C15",
   technique="multi-run trace validation: transcripts (with checksums) of the same (schema, input) recorded in several fresh processes, after different seeded histories of other transforms and repeated, are checked by TLC against Trace_Runs.tla (Same); checksum sensitivity pairs against Distinct/Equal",
   text="Each corpus item is run in 3 (thorough 6) fresh processes, twice per process at seeded positions of a whole-corpus history, and alone in a fresh process; TLC requires every transcript to be byte-identical (fingerprints over class, output, error text, checksum) to the item's golden run. Per format, equal raw records must have equal checksums and pairs differing in exactly one ingested value distinct ones; three XML value classes the canonical JSON drops by design are listed as known findings.",
   note="Trusted: TLC. Histories are sampled. `now` and randomness are excluded by construction of the corpus."),
 "C18": dict(cat="exploration", design="5/C18",
   technique="TLA+ spec Encoding.tla (code-page tables as total functions, UTF-8 encoding, BOM-stripping reader over every chunking) checked by TLC; its tables are replayed on the real decoder (512 pairs) and used to build UTF-8 reference inputs; declared-encoding runs vs reference runs validated by TLC (Trace_Runs.tla)",
   text="TLC checks the BOM machine for every chunking of small inputs and the table axioms; the tables TLC emits are (i) compared with the real WrapEncoding decoder on all 512 (byte, encoding) pairs and (ii) used to convert inputs whose payloads cover all 256 byte values to UTF-8; for all 7 formats the run with the encoding declared must equal the run on the converted bytes with utf-8 declared, and a UTF-8 BOM must be invisible (also under 1-byte delivery). Exhaustive over single byte values, sampled over byte strings.",
   note="Trusted: TLC; x/text's decoder is bound to the table, not modelled. XML/JSON inputs are decoded by omniparser first and then by the format decoders, both sides of the comparison alike."),
 "C17": dict(cat="model_checking", design="5/C17",
   technique="TLC checks size stationarity of the stream-reader model (StreamSelect.tla via MC_Retention.tla) for k repeated records with and without filtered-out records; real transforms of 3000 / 200000 repeated records per format are probed for the node count reachable from the k-th record and validated by TLC (Trace_Retention.tla)",
   text="Model: the partial tree at the k-th delivery has the same size for all k>=2 (k<=6/8) when nothing is attached outside the records; with separators attached outside records the model exhibits the accumulation. Code: 16 cases over all seven formats stream thousands (thorough: 200k) of records through the real Transform; the harness counts the nodes reachable from each probed record's root and TLC requires size_k <= max(size_1..8). One known finding (XML whitespace character data between records) is listed.",
   note="Trusted: TLC; node count as the measure of retention (reader buffers are bounded by construction and not measured). Records are identical within a case."),
 "C07": dict(cat="model_checking", design="5/C07",
   technique="TLA+ spec EDITokens.tla (left-to-right reference scanner vs. the code's escape-parity index search, split and unescape; CR/LF rules; element lookup) checked by TLC on every short symbol string x configuration; emitted cases replayed on edi.NonValidatingReader and the full EDI reader; random logical segments re-tokenized by TLC (Trace_EDITokens.tla)",
   text="TLC proves, for every symbol string up to 4 (thorough 5) symbols and all 24 delimiter/release/CRLF configurations, that the code's formulation of splitting and unescaping equals the left-to-right reference and that escaping round-trips. All cases (sampled above length 3) are replayed on the real tokenizer in ASCII, multi-byte-rune and two-character renderings, and on the full reader for six element-declaration sets. Random unicode segments with long elements and chunked delivery are round-tripped and re-tokenized by TLC.",
   note="Trusted: TLC, the symbol renderer. go-corelib's scanner/ByteUnescape are exercised but not modelled beyond what EDITokens.tla states."),
 "C08": dict(cat="model_checking", design="5/C08",
   technique="TLA+ spec DocTree.tla (JSON token handlers building the typed tree; marshal2 conversion back) checked by TLC for ToTokens(Build(v)) = v on every small value; cases replayed on the real reader, J2NodeToInterface/JSONify2 and the copy function; random deeper values re-built by TLC (Trace_DocTree.tla); XML trees compared with an independent DOM",
   text="TLC checks the round trip of the reader/marshal model for every JSON value of depth 1 over keys {'',a,b} and six scalars; each value is replayed on the real JSONStreamReader, both converters and the copy custom_func through a full Transform, in a plain and a payload-substituted rendering, against encoding/json's decoding; random values up to depth 4 are rebuilt by TLC from the logged token stream. XML fidelity is decided by comparing the node tree of hand-written and random documents with a DOM built independently from encoding/xml events.",
   note="Trusted: TLC, encoding/json and encoding/xml as references, the renderers. The XML half is a differential exploration (no TLA+ model of XML events)."),
 "C11": dict(cat="model_checking", design="5/C11",
   technique="TLA+ spec Nav.tla: idr.navigator and the reference DOM navigator as two transition systems over abstract XML documents; TLC checks a one-step bisimulation from every position for every small document; every (position, move) replayed on both real navigators; expression-level differential traces validated by TLC",
   text="TLC checks for every document with up to 4 (thorough 5) nodes and 0..2 attributes per element that all six move methods of the two navigator models agree from every position (document, element, text, attribute); each of these steps is replayed on idr's navigator and on xmlquery's, so both models are bound to code. Random expressions over the engine's axes, node tests, positional/string predicates and functions are evaluated from the document and inner nodes by idr.QueryIter and by the reference DOM and the result lists compared.",
   note="Trusted: TLC, antchfx/xpath itself (shared by both sides), label-based position identification. Reference quirks (text Value(), attribute NamespaceURL, DeclarationNode) are excluded from observations."),
 "C20": dict(cat="model_checking", design="5/C20",
   technique="TLA+ spec JSVM.tla (VM pool, set/run/delete/put protocol, node-JSON cache under node mutation, value-mapping table) model-checked by TLC over all interleavings of 2 goroutines; real calls observed through the verif VM hook and probe scripts are trace-validated by TLC (Trace_JSVM.tla); the mapping table is replayed",
   text="TLC explores every interleaving of two goroutines making two calls each on two pooled VMs and checks that at run time a VM's user globals are exactly the running call's arguments, that a VM has a single owner and returns clean. The code is bound by recording get/run/put of every pooled VM (identity, argument names, globals actually present) during hundreds of sequential and concurrent calls with random argument sets plus probe-script observations, _node probes on recreated and on mutating nodes, and the value-mapping table with several scripts per kind; TLC validates every event. Known finding: stale _node on an ancestor.",
   note="Trusted: TLC, goja. VM reuse is required to be observed (else exit 2). Scripts assigning globals are excluded."),
 "C19": dict(cat="exploration", design="5/C19",
   technique="TLA+ spec DateTime.tla (overwrite/convert decision table of parseDateTime; proleptic-Gregorian calendar with instants as (day, second)) checked by TLC; its 16 table rows are concretised by the driver and every call of the four functions is trace-validated by TLC (Trace_DateTime.tla) with the specification's own calendar",
   text="TLC enumerates the decision table and checks the calendar anchors; the driver concretises every row for a boundary grid of instants (years 1-9999) plus random ones, 38 IANA zones and the smart parser's advertised layouts, and records inputs, tz-database offsets and outputs as small integers; TLC checks instant preservation, wall-clock preservation when no zone is involved, output offsets, Unix time in both units and the inverse, empty->empty and unparsable->error. Numeric fidelity is the weak end of TLA+; instants beyond the grid are sampled.",
   note="Trusted: TLC, Go's time package and the tz database for offsets and for parsing the functions' RFC 3339 output. LMT-era second-granular offsets are excluded."),
 "C14": dict(cat="exploration", design="5/C14",
   technique="TLC enumerates the interleavings of the shared-state models (Conc.tla: node pool + ID counter; JSVM.tla: VM pool); the real code runs 4-32 goroutines under several GOMAXPROCS in a -race build, transcripts are validated by TLC against the serial run (Trace_Runs.tla) and pool hand-overs against Trace_Pool.tla; race reports are violations",
   text="Model: all interleavings of 2-3 goroutines on the pool/ID-counter and VM-pool protocols keep single ownership and distinct IDs. Code: for GOMAXPROCS 1/4/16 (thorough also 2) the -race harness drives the whole corpus concurrently (same schema at once, mixed schemas; with and without javascript); every goroutine's transcript must equal the serial transcript, the get/put events of the node pool must respect single ownership and ID uniqueness, and any data race the detector reports is a violation. Exploration: real schedules are sampled, not enumerated.",
   note="Trusted: TLC, the Go race detector, sync.Pool/atomic. Schedules are those the runtime happens to produce."),
 "C06": dict(cat="model_checking", design="5/C06",
   technique="TLA+ spec FlatLines.tla (csv2 line buffer with one flat field slice, offset shifting, rows-based and header/footer matching, column selection; rune slicing of fixed-length columns) checked by TLC against the logical-table reference; cases replayed on csv2, fixedlength2, legacy fixed-length and legacy csv with rich payloads; random tables re-evaluated by TLC (Trace_FlatLines.tla)",
   text="TLC checks on every small table x record declaration x column set that the values the buffer model hands to node creation are the texts at the declared positions, in input order, with consistent offsets and no reachable panic guard, and that rune slicing equals the clipped slice. Every case is concretised (delimiters incl. multi-byte runes, quoting, embedded delimiters/quotes/newlines, leading/trailing blanks, payloads beyond 4 KiB and 64 KiB, CRLF, missing final terminator) and run on four real readers; larger random tables are validated by TLC.",
   note="Trusted: TLC, the CSV encoder of the harness, encoding/csv and bufio. Payload space is sampled; shape space is exhaustive at small scope."),
 "C03": dict(cat="exploration", design="5/C03",
   technique="panic-guard and progress invariants of the state-machine specifications (Hierarchy.tla, FlatLines.tla, Transform.tla) model-checked by TLC; structural schema mutation and bytewise input mutation of the real code under recover + watchdog, outcomes validated by TLC against Trace_Robust.tla",
   text="TLC shows the panic guards of the hierarchical matcher and the csv2 line buffer unreachable and the read loop bounded on the bounded models. The whole byte space cannot be enumerated: a seeded driver applies single structural mutations to every corpus schema and bytewise mutations to the inputs, runs NewSchema, NewTransform and the read loop under recover and a per-call watchdog, and TLC checks each recorded outcome (no panic, no timeout, terminal result within len(input)+3 Reads). Exploration, not proof.",
   note="Trusted: TLC, the watchdog (3-5 s per call). Third-party panics are observed only. Every other check's drivers also run under recover."),
}

def main():
    hooks_commits = []
    try:
        out = subprocess.run(["git", "-C", "/repo", "log", "--format=%h %s"], stdout=subprocess.PIPE, text=True).stdout
        hooks_commits = [l.split()[0] for l in out.splitlines() if l.split(" ", 1)[1].startswith("verif hook")]
    except Exception:
        pass
    checks = []
    for p in props:
        if p not in CHECKS:
            continue
        c = CHECKS[p]
        checks.append({
            "property_id": p,
            "quick_cmd": "bin/check %s --tier quick" % p,
            "thorough_cmd": "bin/check %s --tier thorough" % p,
            "evidence_file": "evidence/%s.json" % p,
            "replay_cmd_template": "bin/check %s --replay {path}" % p,
            "engine": "tlc+vh",
            "level_claimed": {"category": c["cat"], "text": c["text"], "design_ref": c["design"]},
            "level_note": c["note"],
            "technique": c["technique"],
        })
    na = [{"property_id": p, "reason": NA.get(p, "not built yet (machinery under construction; DESIGN.md section 7 gives the order)")} for p in props if p not in CHECKS]
    m = {
        "version": 1,
        "setup_cmd": "bin/setup",
        "hooks": {"guard": "verif", "enable": "go build -tags verif (harness module: replace github.com/jf-tech/omniparser => /repo)",
                  "baseline_off_cmd": "cd /repo && GOFLAGS=-mod=mod GOPROXY=off GOSUMDB=off GOTOOLCHAIN=local go test -vet=off -count=1 ./...",
                  "source_commits": hooks_commits, "add_only": True},
        "engines": [
            {"name": "tlc+vh", "path": "bin/check", "serves_properties": [c["property_id"] for c in checks],
             "kind_free_text": "python orchestrator: TLC (spec/*.tla, cfg/*.cfg) model checking + case emission; Go harness (harness/cmd/vh, built with -tags verif against /repo's working tree) replays TLC cases on the real packages and records traces that TLC validates against Trace_*.tla"}],
        "checks": checks,
        "notes": "See DESIGN.md. exit 2 = machinery problem (inconclusive), never an alarm.",
        "not_applicable": na,
    }
    json.dump(m, open(os.path.join(ROOT, "MANIFEST.json"), "w"), indent=1)
    print("checks:", [c["property_id"] for c in checks], "n/a:", len(na))

NA = {}

# what was added to each check after its first registration (DESIGN.md 12.2, 12.4-12.6); appended to technique / text
ADDED = {
 "C01": ("; Ingester.tla (call protocol Transform / ingester / FormatReader) model-checked, proved for unbounded histories with TLAPS (Transform_proof.tla, Ingester_proof.tla, thorough tier) and validated on call sequences recorded by a recording FormatReader around all 7 readers",
         " A finite input must reach a terminal result within len(input)+3 Reads (reading can continue past a per-record failure)."),
 "C02": ("; Stream.tla composes selection and evaluation over whole inputs (partial tree at delivery, declarations leaving the record, per-record vs shared result cache); families cast (conversion matrix over typed sources), dyn (xpath_dynamic), functions concat / coalesce / upper, external properties",
         " Streams of several records with ancestor-anchored declarations are replayed with the expected value per record; result types int/float/boolean/string over typed sources."),
 "C03": ("; Templates.tla (template expansion recursion: NoReentry, Verdict, Terminates under fairness) model-checked and every reference graph over 3 templates replayed on NewSchema; a Go runtime fatal error inside omniparser code is a violation (RepoCrash)", ""),
 "C04": ("; qualified-name renderings (prefixes), family 'nested' (rejected candidate followed by a container with deeper candidates), XPathSplit.tla for the last-predicate splitter", ""),
 "C05": ("; record shapes (one named unit / two units of any name / header..first footer) and a last-unit component in every delivered instance, bound to csv2, fixedlength2 and the scripted reader", ""),
 "C06": ("; leading optional header/footer declaration whose look-ahead may fail, cached line text surviving popFrontLinesBuf; buffer-boundary sweep; two fixed-length payload renderings; FixedLegacy.tla for the by_header_footer envelopes of the legacy fixed-length reader", ""),
 "C07": ("; a missing declared element must be a fatal error (class, not wording)", ""),
 "C08": ("; XMLTree.tla: namespace scoping with three designs of URI -> prefix (declaration stack = the code; both map designs refuted by TLC, counterexamples reproduced on the real reader and repaired: 980d548, c2dca8b), every unambiguous document of 2/3 elements replayed; reference DOM from raw decoder tokens with its own scoping", ""),
 "C10": ("; bulk concatenation rounds (hundreds / thousands of records across buffer refills); failure kinds incl. throwing scripts", ""),
 "C12": ("; several owners alive at once (stream readers driven directly with interleaved Read / Release + hand-built trees, audited after every call); acquisitions racing on 8 goroutines under the pool tracker", ""),
 "C13": ("; pool-history phase (every compact item right after namespaced XML / typed JSON with GC held off); scripts that throw followed by scripts probing globals", ""),
 "C15": ("; every process of the history under another TZ / locale environment; date-time and throwing-script corpus items", ""),
 "C17": ("; Ingester.tla protocol validation (Release of exactly the delivered node, once, before the next Read) on recorded call sequences of all readers + TLAPS proof (thorough); cases with records failing their transform", ""),
 "C18": ("; the code-page tables of Encoding.tla are bound to x/text charmap (specification sanity) and to the repository's decoder (verdict); utf-8 declared explicitly with BOM", ""),
 "C19": ("; wall readings around every offset change of every zone (1975 / 2011 / 2021) bound to that zone", ""),
 "C20": ("; typed declarations (int 0, float 0.0, boolean false, ...) as named arguments through a schema", ""),
}
ADDED6 = {   # round 6
 "C01": "; accepted schema variants with one number at an integer boundary (max int64, 2^62, 2^31)",
 "C02": "; Eval.tla function kind 'sig': a user function with the signature (string, int64, float64, bool) registered by an Extension, family 'sig' (every argument present / absent / empty)",
 "C03": "; every number of every corpus schema at the integer boundaries, exhaustively",
 "C09": "; the built-in format readers driven on plain io.Readers (byte source substituted through CustomFileFormats), XML with a declared single-byte encoding",
 "C10": "; record pool with computed xpaths (nested / flat function calls, fields, arrays, templates), every baseline on a Schema object of its own",
 "C11": "; MC_Nav documents with adjacent text nodes (CDATA boundaries), CDATA runs in the random documents",
 "C12": "; random declaration hierarchies (csv2 / fixedlength2 / edi) under the pool tracker and Trace_IDRAudit; Ingester.tla protocol validation of the Read / Release calls on the real readers",
 "C13": "; B1 replay of the MC_Eval cases (collide / ietwin / dyn / sig) on the real Transform with every cache off and every cache on",
 "C14": "; tenant Extensions binding one function name differently; goldens from single-item processes",
 "C15": "; items that build an Extension of their own when they first run; single-item processes for the items using re-bindable functions",
 "C16": "; Ctx kinds fresh / served an earlier transform / caller-set CtxAwareErr",
 "C17": "; attribute filters whose literal contains the other quote character",
 "C18": "; long multi-line inputs (several buffer refills) under both code pages and four delivery sizes",
 "C20": "; what a call sees through a schema (no _node for the plain variant, an argument named _node)",
}
ADDED7 = {   # round 7
 "C02": "; every case also rendered with field names made of the naming scheme's own separator / escape characters",
 "C03": "; declarations nested 1..11 deep (fixedlength2, csv2, edi)",
 "C04": "; StreamSelect.tla: an attribute predicate in front of the last predicate (decided when the element opens)",
 "C05": "; EDI with the line feed as segment delimiter, undeclared units of non-ASCII characters only",
 "C06": "; csv2 record nested below a column-bearing parent with default column indexes",
 "C10": "; pools with a plain non-target parent record and several child record types",
 "C11": "; trees streamed record by record (records with their own namespace declarations) vs the reference DOM of the partial document",
 "C13": "; items with a target filter next to lines the csv readers reject",
 "C15": "; two transforms open at once in one goroutine with alternating Reads",
 "C16": "; seven error values of real sources (io.ErrUnexpectedEOF, closed pipe, timeout, cancellation, ...)",
 "C20": "; the same call on the record and below an ancestor-anchored object through a schema",
}
ADDED8 = {   # round 8
 "C03": "; XML declarations naming ~85 character sets",
 "C04": "; rendering with prefixes bound again on inner elements",
 "C13": "; compiled-xpath cache vs no cache over expressions with white space / quotes / brackets in literals",
 "C15": "; dotted sibling field names failing together",
 "C16": "; optional multi-line preambles before single-line records",
 "C18": "; long XML documents with their own encoding declaration at every buffer alignment",
 "C20": "; _node of flat-file records right after transforms of typed formats",
}
ADDED9 = {   # round 9
 "C01": "; a fatal error that wraps a per-record failure",
 "C02": "; an external property that is defined and empty",
 "C06": "; CsvSkip.tla: legacy csv row indexes as physical line numbers (loop vs fold, per-record counting refuted), every case on the real reader",
 "C08": "; empty attribute values and empty CDATA sections",
 "C09": "; an empty read after every byte",
 "C10": "; pool whose inputs are looked ahead to their end by a declaration that never completes",
 "C11": "; documents in single-byte encodings named in their declaration",
 "C12": "; racing acquisitions that are all fresh",
 "C13": "; union xpaths in arrays",
 "C15": "; outputs differ => checksums differ, over inputs that may or may not be one value",
 "C17": "; Heap law in Trace_Retention (live heap at two points of a long stream)",
 "C18": "; JSON documents ending at a buffer edge with trailing data",
 "C19": "; fixed-offset and POSIX-style zone names",
 "C20": "; a failing script as a computed xpath and then as a value",
}
ADDED10 = {   # round 10
 "C01": "; long runs of filtered-out records",
 "C02": "; script kind 'probe' next to a throwing script that was given the probed name",
 "C03": "; xpaths that leave the record in every declaration position",
 "C04": "; family 'mixed' (string value spread over several text nodes)",
 "C06": "; U+FFFD in fixed-width cells",
 "C07": "; CR LF as segment delimiter, also through NewSchema",
 "C08": "; every XMLTree case also streamed record by record",
 "C11": "; the prefix of a URI changing from document to document",
 "C12": "; directed release / acquire-and-attach / read interleaving",
 "C13": "; scripts with odd endings",
 "C15": "; xpaths differing only in white space inside a literal",
 "C17": "; property names that differ from record to record",
 "C19": "; one text under several parsing regimes",
 "C20": "; calls that differ only in ignore_error",
}
ADDED11 = {   # round 11
 "C01": "; two Transforms of one Schema alive at once (RawRecord after the other's Reads)",
 "C13": "; EDI elements filled from defaults under one template / context scripts",
 "C15": "; external property names differing only in case",
 "C17": "; a javascript_with_context case probed beyond the cache capacity",
 "C20": "; _node of legacy csv / fixed-length records",
}
ADDED12 = {   # session after round 11
 "C02": "; positional predicates in Eval.tla's xpath table (StreamSelect!PosOK: n[1], n[2], n[last()], *[last()], *[2], a/b[last()]), family 'pos' (records <=4 / <=5 nodes with equally named siblings separated by text); declarations with equal bodies share one template in the template rendering (family 'tplshare'), a template rendering refused while the inlined one is accepted is a violation",
}
for _p, _t in ADDED12.items():
    CHECKS[_p]["technique"] += _t
for _p, _t in ADDED11.items():
    CHECKS[_p]["technique"] += _t
for _p, _t in ADDED10.items():
    CHECKS[_p]["technique"] += _t
for _p, _t in ADDED9.items():
    CHECKS[_p]["technique"] += _t
for _p, _t in ADDED8.items():
    CHECKS[_p]["technique"] += _t
for _p, _t in ADDED7.items():
    CHECKS[_p]["technique"] += _t
for _p, _t in ADDED6.items():
    CHECKS[_p]["technique"] += _t
for _p, (_t, _x) in ADDED.items():
    CHECKS[_p]["technique"] += _t
    CHECKS[_p]["text"] += _x

if __name__ == "__main__":
    main()
