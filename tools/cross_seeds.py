#!/usr/bin/env python3
"""tools/cross_seeds.py [-j N] [seed ids...]  -- every seeded change against every quick check.

Each seeded change is applied to its own scratch worktree of /repo (never to /repo), the checks run with
VERIF_REPO pointing at it and VERIF_OUT at a scratch directory, so /repo and /verif/evidence stay untouched and
several changes are evaluated in parallel.  Writes seeded/MATRIX.md: rc per (change, check); 1 = alarm, 0 = quiet,
2 = inconclusive.  Informational (regression aid for the checks), not a registered check.
"""
import concurrent.futures as cf, json, os, shutil, subprocess, sys, tempfile, time

ROOT = os.path.dirname(os.path.dirname(os.path.abspath(__file__)))
ids = [c["property_id"] for c in json.load(open(os.path.join(ROOT, "MANIFEST.json")))["checks"]]
args = sys.argv[1:]
jobs = 3
diag = False
if args[:1] == ["--diag"]:      # every change against the check of its own property only
    diag = True; args = args[1:]
if args[:1] == ["-j"]:
    jobs = int(args[1]); args = args[2:]
seeds = args or sorted(d for d in os.listdir(os.path.join(ROOT, "seeded")) if os.path.isfile(os.path.join(ROOT, "seeded", d, "patch.diff")))


# run from a snapshot of /verif so that work going on in /verif meanwhile cannot disturb the matrix
SNAP = tempfile.mkdtemp(prefix="xs-snap-", dir="/tmp")
subprocess.run(["rsync", "-a", "--exclude", ".git", "--exclude", "replays", "--exclude", "evidence", ROOT + "/", SNAP + "/"], check=True)


def one(seed):
    base = tempfile.mkdtemp(prefix="xs-%s-" % seed, dir="/tmp")
    wt = os.path.join(base, "wt")
    row = {}
    try:
        subprocess.run(["git", "-C", "/repo", "worktree", "add", "-q", "--detach", wt, "HEAD"], check=True)
        subprocess.run(["git", "-C", wt, "apply", os.path.join(ROOT, "seeded", seed, "patch.diff")], check=True)
        env = dict(os.environ, VERIF_REPO=wt, VERIF_OUT=os.path.join(base, "out"), VERIF_SCRATCH_BASE=base)
        for cid in ([seed.split("-")[-1]] if diag else ids):
            t = time.time()
            p = subprocess.run([os.path.join(SNAP, "bin", "check"), cid, "--tier", "quick"], env=env,
                               stdout=subprocess.PIPE, stderr=subprocess.STDOUT, text=True)
            row[cid] = (p.returncode, round(time.time() - t))
            print(seed, cid, p.returncode, flush=True)
    finally:
        subprocess.run(["git", "-C", "/repo", "worktree", "remove", "--force", wt])
        shutil.rmtree(base, ignore_errors=True)
    return seed, row


with cf.ThreadPoolExecutor(jobs) as ex:
    rows = dict(ex.map(one, seeds))
if diag:
    out = ["# every seeded change against the quick check of the property it was written against (rc: 1 alarm, 0 quiet, 2 inconclusive)", "",
           "| seed | check | rc | seconds |", "|---|---|---|---|"]
    for s in seeds:
        c = s.split("-")[-1]
        out.append("| %s | %s | %s | %s |" % (s, c, rows[s].get(c, ("-", "-"))[0], rows[s].get(c, ("-", "-"))[1]))
    open(os.path.join(ROOT, "seeded", "DIAGONAL.md"), "w").write("\n".join(out) + "\n")
    shutil.rmtree(SNAP, ignore_errors=True)
    print("\n".join(out))
    sys.exit(0)
out = ["# seeded change x quick check (rc: 1 alarm, 0 quiet, 2 inconclusive)", "",
       "| seed \\\\ check | " + " | ".join(i[1:] for i in ids) + " |", "|---|" + "---|" * len(ids)]
for s in seeds:
    out.append("| %s | " % s + " | ".join(("**1**" if rows[s].get(c, ("-",))[0] == 1 else str(rows[s].get(c, ("-",))[0])) for c in ids) + " |")
open(os.path.join(ROOT, "seeded", "MATRIX.md"), "w").write("\n".join(out) + "\n")
shutil.rmtree(SNAP, ignore_errors=True)
print("\n".join(out))
