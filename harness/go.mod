module verif

go 1.16

require github.com/jf-tech/omniparser v0.0.0

replace github.com/jf-tech/omniparser => /repo
