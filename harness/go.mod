module verif

go 1.16

require (
	github.com/antchfx/xmlquery v1.3.1
	github.com/antchfx/xpath v1.1.11
	github.com/dop251/goja v0.0.0-20230812105242-81d76064690d
	github.com/jf-tech/go-corelib v0.0.14
	github.com/jf-tech/omniparser v0.0.0
	golang.org/x/net v0.0.0-20220722155237-a158d28d115b
	golang.org/x/text v0.3.8
)

replace github.com/jf-tech/omniparser => /repo
