package main

import (
	"encoding/json"
	"fmt"
	"math/rand"
	"regexp"
	"strconv"
	"strings"

	"github.com/antchfx/xpath"
	"github.com/jf-tech/omniparser"
	"github.com/jf-tech/omniparser/extensions/omniv21/fileformat/flatfile"
	"github.com/jf-tech/omniparser/idr"
	"github.com/jf-tech/omniparser/transformctx"
)

// ---- abstract hierarchy as emitted by MC_Hierarchy / Trace_Hierarchy

const hINF = 1000000

type hier struct {
	Edi bool     `json:"edi"`
	N   int      `json:"n"`
	Par []int    `json:"par"`
	Grp []bool   `json:"grp"`
	Nm  []string `json:"nm"`
	Mk  []string `json:"mk,omitempty"` // record shape of a non-group declaration: "name" (default) | "rows2" | "hf"
	Mn  []int    `json:"mn"`
	Mx  []int    `json:"mx"`
	Tgt int      `json:"tgt"`
	Flt bool     `json:"flt,omitempty"` // the target (a leaf) carries the filter "first unit has an odd index"
}

type c05Case struct {
	H      hier      `json:"h"`
	Input  []string  `json:"input"`
	Out    [][][]int `json:"out"` // instances; each a pre-order list of [d, u, depth, e]
	Status string    `json:"status"`
	Errd   int       `json:"errd"`
}

func (h *hier) mk(d int) string {
	if len(h.Mk) < d || h.Mk[d-1] == "" {
		return "name"
	}
	return h.Mk[d-1]
}

const footerName = "Z"

// consumed mirrors Hierarchy!Consumed only for the *scripted* RecReader (a stand-in for csv2 / fixedlength2 line
// matching, which have their own, real implementation): units one instance of d takes at 0-based pos; 0 = no match.
func (h *hier) consumed(in []string, d, pos int) int {
	if pos >= len(in) {
		return 0
	}
	switch h.mk(d) {
	case "rows2":
		if pos+1 < len(in) {
			return 2
		}
		return 0
	case "hf":
		if in[pos] != h.Nm[d-1] {
			return 0
		}
		for j := pos; j < len(in); j++ {
			if in[j] == footerName {
				return j - pos + 1
			}
		}
		return 0
	}
	if in[pos] == h.Nm[d-1] {
		return 1
	}
	return 0
}

func (h *hier) kids(p int) []int {
	var out []int
	for i := 1; i <= h.N; i++ {
		if h.Par[i-1] == p {
			out = append(out, i)
		}
	}
	return out
}

// observed result of one implementation on one case
type c05Obs struct {
	Out     [][][]interface{} `json:"out"` // instances; pre-order [node name, u, depth, e]
	Status  string            `json:"status"`
	Errname string            `json:"errname"`
	Extra   string            `json:"extra,omitempty"`
}

// nameOfDecl: the node name an implementation gives to an instance of declaration d
func nameOfDecl(h *hier, d int, impl string) string {
	if d == 0 {
		return ""
	}
	if impl == "edi" && !h.Grp[d-1] {
		return h.Nm[d-1]
	}
	return "d" + strconv.Itoa(d)
}

func viewOf(h *hier, out [][][]int, impl string) [][][]interface{} {
	res := [][][]interface{}{}
	for _, inst := range out {
		var e [][]interface{}
		for _, t := range inst {
			e = append(e, []interface{}{nameOfDecl(h, t[0], impl), t[1], t[2], t[3]})
		}
		res = append(res, e)
	}
	return res
}

// Hierarchy!Passes as an xpath on the delivered instance (its first unit travels in the column / element "u")
// (number(u): the engine's arithmetic operators do not convert node-sets themselves - C03 known finding)
const hierFilter = ".[number(u) mod 2 = 1]"

// ---- implementation 1: flatfile.HierarchyReader with a scripted RecReader

type hDecl struct {
	h   *hier
	idx int
}

func (d *hDecl) DeclName() string { return "d" + strconv.Itoa(d.idx) }
func (d *hDecl) Target() bool     { return d.h.Tgt == d.idx }
func (d *hDecl) Group() bool      { return d.h.Grp[d.idx-1] }
func (d *hDecl) MinOccurs() int   { return d.h.Mn[d.idx-1] }
func (d *hDecl) MaxOccurs() int {
	if d.h.Mx[d.idx-1] >= hINF {
		return int(^uint(0) >> 1)
	}
	return d.h.Mx[d.idx-1]
}
func (d *hDecl) ChildDecls() []flatfile.RecDecl {
	var out []flatfile.RecDecl
	for _, k := range d.h.kids(d.idx) {
		out = append(out, &hDecl{d.h, k})
	}
	return out
}

type scriptedRecReader struct {
	units []string
	pos   int
	log   []string
}

func (r *scriptedRecReader) MoreUnprocessedData() (bool, error) {
	return r.pos < len(r.units), nil
}
func (r *scriptedRecReader) ReadAndMatch(decl flatfile.RecDecl, createIDR bool) (bool, *idr.Node, error) {
	d := decl.(*hDecl)
	cn := d.h.consumed(r.units, d.idx, r.pos)
	if cn == 0 {
		return false, nil, nil
	}
	if !createIDR {
		return true, nil, nil
	}
	n := idr.CreateNode(idr.ElementNode, d.DeclName())
	u := idr.CreateNode(idr.ElementNode, "u")
	idr.AddChild(n, u)
	idr.AddChild(u, idr.CreateNode(idr.TextNode, strconv.Itoa(r.pos+1)))
	e := idr.CreateNode(idr.ElementNode, "e")
	idr.AddChild(n, e)
	idr.AddChild(e, idr.CreateNode(idr.TextNode, strconv.Itoa(r.pos+cn)))
	r.pos += cn
	return true, n, nil
}

// encodeInstance turns a delivered IDR subtree into pre-order [node name, u, depth, e] tokens; the index of the
// first unit travels in the "u" column/element of every non-group instance, that of its last unit in "e".
func encodeInstance(n *idr.Node, depth int, out *[][]interface{}) {
	u, e := 0, 0
	for c := n.FirstChild; c != nil; c = c.NextSibling {
		if c.Type == idr.ElementNode && c.Data == "u" && c.FirstChild != nil {
			u, _ = strconv.Atoi(strings.TrimSpace(c.FirstChild.Data))
		}
		if c.Type == idr.ElementNode && c.Data == "e" && c.FirstChild != nil {
			e, _ = strconv.Atoi(strings.TrimSpace(c.FirstChild.Data))
		}
	}
	*out = append(*out, []interface{}{n.Data, u, depth, e})
	for c := n.FirstChild; c != nil; c = c.NextSibling {
		if c.Type == idr.ElementNode && c.Data != "u" && c.Data != "e" {
			encodeInstance(c, depth+1, out)
		}
	}
}

func runScripted(c *c05Case) (obs c05Obs) {
	h := &c.H
	var decls []flatfile.RecDecl
	for _, k := range h.kids(0) {
		decls = append(decls, &hDecl{h, k})
	}
	rr := &scriptedRecReader{units: c.Input}
	var flt *xpath.Expr
	if h.Flt {
		flt = xpath.MustCompile(hierFilter)
	}
	hr := flatfile.NewHierarchyReader(decls, rr, flt)
	obs.Out = [][][]interface{}{}
	for i := 0; i < 10*(len(c.Input)+h.N+2); i++ {
		n, err := hr.Read()
		if err == nil {
			var enc [][]interface{}
			encodeInstance(n, 0, &enc)
			obs.Out = append(obs.Out, enc)
			hr.Release(n)
			continue
		}
		switch {
		case err.Error() == "EOF":
			obs.Status = "eof"
		case flatfile.IsErrFewerThanMinOccurs(err):
			obs.Status = "min"
			obs.Errname = err.(flatfile.ErrFewerThanMinOccurs).RecDecl.DeclName()
		case flatfile.IsErrUnexpectedData(err):
			obs.Status = "unexpected"
		default:
			obs.Status = "other"
			obs.Extra = err.Error()
		}
		return
	}
	obs.Status = "unbounded"
	return
}

// ---- implementations 2-4: csv2 / fixedlength2 / edi through full schemas and the public Transform

func occJSON(h *hier, d int, ediDefaults bool) string {
	mx := h.Mx[d-1]
	if mx >= hINF {
		mx = -1
	}
	return fmt.Sprintf(`"min": %d, "max": %d`, h.Mn[d-1], mx)
}

func renderDecl(h *hier, d int, format string) string {
	var sb strings.Builder
	kidsKey, groupType, match, cols := "", "", "", ""
	switch format {
	case "csv2":
		kidsKey, groupType = "child_records", "record_group"
		sep, eSel := ",", ""
		match = fmt.Sprintf(`"header": "^%s%s", `, h.Nm[d-1], sep)
		switch h.mk(d) {
		case "rows2":
			match, eSel = `"rows": 2, `, `, "line_index": 2`
		case "hf":
			match += fmt.Sprintf(`"footer": "^%s%s", `, footerName, sep)
			eSel = fmt.Sprintf(`, "line_pattern": "^%s%s"`, footerName, sep)
		}
		cols = `"columns": [{"name": "u", "index": 2}, {"name": "e", "index": 2` + eSel + `}], `
	case "fixedlength2":
		kidsKey, groupType = "child_envelopes", "envelope_group"
		eSel := ""
		match = fmt.Sprintf(`"header": "^%s", `, h.Nm[d-1])
		switch h.mk(d) {
		case "rows2":
			match, eSel = `"rows": 2, `, `, "line_index": 2`
		case "hf":
			match += fmt.Sprintf(`"footer": "^%s", `, footerName)
			eSel = fmt.Sprintf(`, "line_pattern": "^%s"`, footerName)
		}
		cols = `"columns": [{"name": "u", "start_pos": 2, "length": 4}, {"name": "e", "start_pos": 2, "length": 4` + eSel + `}], `
	case "edi":
		kidsKey, groupType = "child_segments", "segment_group"
		cols = `"elements": [{"name": "u", "index": 1}, {"name": "e", "index": 1}], `
	}
	name := "d" + strconv.Itoa(d)
	if format == "edi" && !h.Grp[d-1] {
		name = h.Nm[d-1] // an EDI segment declaration is matched by its own name
	}
	sb.WriteString(`{"name": "` + name + `", `)
	if h.Grp[d-1] {
		sb.WriteString(`"type": "` + groupType + `", `)
	} else {
		sb.WriteString(match + cols)
	}
	if h.Tgt == d {
		sb.WriteString(`"is_target": true, `)
	}
	sb.WriteString(occJSON(h, d, format == "edi"))
	ks := h.kids(d)
	if len(ks) > 0 {
		sb.WriteString(`, "` + kidsKey + `": [`)
		for i, k := range ks {
			if i > 0 {
				sb.WriteString(", ")
			}
			sb.WriteString(renderDecl(h, k, format))
		}
		sb.WriteString("]")
	}
	sb.WriteString("}")
	return sb.String()
}

func renderSchema(h *hier, format string) string {
	nl := format == "edi-nl" // EDI with the line feed as segment delimiter
	if nl {
		format = "edi"
	}
	var ds []string
	for _, k := range h.kids(0) {
		ds = append(ds, renderDecl(h, k, format))
	}
	body := strings.Join(ds, ", ")
	fd := ""
	if nl {
		fd = `"segment_delimiter": "\n", "element_delimiter": "*", "segment_declarations": [` + body + `]`
	}
	switch {
	case nl:
	default:
		fd = renderFileDecl(format, body)
	}
	return renderSchemaWith(h, format, fd)
}

func renderFileDecl(format, body string) string {
	fd := ""
	switch format {
	case "csv2":
		fd = `"delimiter": ",", "records": [` + body + `]`
	case "fixedlength2":
		fd = `"envelopes": [` + body + `]`
	case "edi":
		fd = `"segment_delimiter": "~", "element_delimiter": "*", "segment_declarations": [` + body + `]`
	}
	return fd
}

func renderSchemaWith(h *hier, format, fd string) string {
	fx := ""
	if h.Flt {
		fx = `"xpath": ` + jstr(hierFilter) + `, `
	}
	return `{"parser_settings": {"version": "omni.2.1", "file_format_type": "` + format + `"},
 "file_declaration": {` + fd + `},
 "transform_declarations": {"FINAL_OUTPUT": {` + fx + `"object": {"x": {"const": "1"}}}}}`
}

// renderInput concretises units; variant 0: every unit terminated; variant 1: last unit unterminated and
// insignificant separators (blank lines) interspersed.
func renderInput(units []string, format string, variant int) string {
	var sb strings.Builder
	nl := format == "edi-nl"
	if nl {
		format = "edi"
	}
	for i, u := range units {
		if format == "edi" && variant >= 4 && u == "X" {
			// an undeclared unit that is nothing but non-ASCII characters (no elements): a segment like any other
			sb.WriteString(map[int]string{4: "日本", 5: "\u00a0"}[variant])
			if nl {
				sb.WriteString("\n")
			} else if i < len(units)-1 {
				sb.WriteString("~")
			} // (variant 5: as the last unit it is unterminated trailing data)
			continue
		}
		switch format {
		case "csv2":
			sb.WriteString(fmt.Sprintf("%s,%d", u, i+1))
		case "fixedlength2":
			sb.WriteString(fmt.Sprintf("%s%04d", u, i+1))
		case "edi":
			if variant == 2 && u == "X" {
				u = "\xffX" // an undeclared segment whose name starts with a byte that is not valid UTF-8
			} else if variant == 3 && u == "X" {
				u = "\uFFFDX" // ... or with U+FFFD itself
			}
			sb.WriteString(fmt.Sprintf("%s*%d", u, i+1))
		}
		last := i == len(units)-1
		term := "\n"
		if format == "edi" && !nl {
			term = "~"
		}
		if variant == 1 && last {
			term = ""
		}
		sb.WriteString(term)
		if variant == 1 && !last && format != "edi" && i%2 == 0 {
			sb.WriteString("\n")
		}
	}
	return sb.String()
}

var minRe = regexp.MustCompile(`'([^']*)' needs min occur`)

func runSchema(sch omniparser.Schema, c *c05Case, format string, variant int) (obs c05Obs) {
	h := &c.H
	in := renderInput(c.Input, format, variant)
	tr, err := sch.NewTransform("in", strings.NewReader(in), &transformctx.Ctx{})
	obs.Out = [][][]interface{}{}
	if err != nil {
		obs.Status, obs.Extra = "other", err.Error()
		return
	}
	for i := 0; i < 10*(len(c.Input)+h.N+2); i++ {
		_, err := tr.Read()
		if err == nil {
			rr, e2 := tr.RawRecord()
			if e2 != nil {
				obs.Status, obs.Extra = "other", "RawRecord: "+e2.Error()
				return
			}
			var enc [][]interface{}
			encodeInstance(rr.Raw().(*idr.Node), 0, &enc)
			obs.Out = append(obs.Out, enc)
			continue
		}
		// the class of the error is what the property fixes; its wording only refines "fatal" into min / unexpected
		msg := err.Error()
		switch {
		case classify(err) == "eof":
			obs.Status = "eof"
		case strings.Contains(msg, "needs min occur"):
			obs.Status = "min"
			if m := minRe.FindStringSubmatch(msg); m != nil {
				parts := strings.Split(m[1], "/")
				obs.Errname = parts[len(parts)-1]
			}
		case strings.Contains(msg, "unexpected data"), strings.Contains(msg, "is either not declared in schema or appears in an invalid order"):
			obs.Status = "unexpected"
		default:
			obs.Status, obs.Extra = "fatal", msg // a fatal error whose wording is not recognised
		}
		if classify(err) != "fatal" && classify(err) != "eof" {
			obs.Extra += " [terminal result is not fatal: " + classify(err) + "]"
			obs.Status = "nonfatal-" + obs.Status
		}
		return
	}
	obs.Status = "unbounded"
	return
}

func hasX(in []string) bool {
	for _, u := range in {
		if u == "X" {
			return true
		}
	}
	return false
}

func sameOut(a, b interface{}) bool {
	x, _ := json.Marshal(a)
	y, _ := json.Marshal(b)
	return string(x) == string(y)
}

func c05Nontrivial(c *c05Case) bool {
	rich := false
	for i := 0; i < c.H.N; i++ {
		if c.H.Grp[i] || c.H.Mx[i] > 1 {
			rich = true
		}
	}
	return len(c.Input) >= 2 && (len(c.Out) > 0 || c.Status != "eof") && rich
}

// c05Replay: args: cases.ndjson impls(comma list) [edimode]
func c05Replay(args []string) int {
	impls := strings.Split(args[1], ",")
	sum := newSummary()
	schemaCache := map[string]omniparser.Schema{}
	getSchema := func(h *hier, format string) (omniparser.Schema, error) {
		key := format + hashOf(h)
		if s, ok := schemaCache[key]; ok {
			return s, nil
		}
		if len(schemaCache) > 20000 {
			schemaCache = map[string]omniparser.Schema{}
		}
		s, err, p := newSchema([]byte(renderSchema(h, format)))
		if p != "" {
			return nil, fmt.Errorf("panic: %s", p)
		}
		if err != nil {
			return nil, err
		}
		schemaCache[key] = s
		return s, nil
	}
	nviol := 0
	err := readLines(args[0], func(line []byte) error {
		var c c05Case
		if e := json.Unmarshal(line, &c); e != nil {
			return e
		}
		if c.Input == nil {
			c.Input = []string{}
		}
		if c.Out == nil {
			c.Out = [][][]int{}
		}
		for _, impl := range impls {
			if (impl == "edi") != c.H.Edi {
				continue
			}
			variants := []int{0}
			if impl != "recreader" {
				variants = []int{0, 1}
			}
			if impl == "edi" && hasX(c.Input) {
				variants = []int{0, 1, 2, 3, 4, 5}
			}
			for _, variant := range variants {
				format := impl
				if impl == "edi" && variant == 4 {
					format = "edi-nl"
				}
				var obs c05Obs
				expOut, expErr := viewOf(&c.H, c.Out, impl), nameOfDecl(&c.H, c.Errd, impl)
				var pv string
				if impl == "recreader" {
					pv, _ = guarded(0, func() { obs = runScripted(&c) })
				} else {
					sch, e := getSchema(&c.H, format)
					if e != nil {
						violation("C05", "schema-rejected", "a well-formed hierarchy was rejected by "+impl+": "+e.Error(),
							M{"impl": impl, "case": c, "schema": renderSchema(&c.H, format)})
						nviol++
						continue
					}
					pv, _ = guarded(0, func() { obs = runSchema(sch, &c, format, variant) })
				}
				sum.eval(c05Nontrivial(&c), M{"c": c, "i": impl, "v": variant})
				if pv != "" {
					violation("C05", "panic", "panic in "+impl+": "+pv, M{"impl": impl, "variant": variant, "case": c})
					nviol++
					continue
				}
				statusOK := obs.Status == c.Status || (obs.Status == "fatal" && (c.Status == "min" || c.Status == "unexpected"))
				if !statusOK || !sameOut(obs.Out, expOut) || (obs.Status == "min" && obs.Errname != "" && obs.Errname != expErr) {
					if nviol < 200 {
						key := "mismatch-" + impl
						if variant == 1 && len(c.Input) > 0 {
							key += "-unterminated-or-blank"
						} else if variant >= 2 {
							key += "-nonutf8-segment-name"
						}
						violation("C05", key,
							fmt.Sprintf("%s variant %d: expected status=%s err=%s out=%v; got status=%s err=%s out=%v %s",
								impl, variant, c.Status, expErr, expOut, obs.Status, obs.Errname, obs.Out, obs.Extra),
							M{"impl": impl, "variant": variant, "case": c, "observed": obs,
								"schema": func() string {
									if impl == "recreader" {
										return ""
									}
									return renderSchema(&c.H, format)
								}(),
								"input": renderInput(c.Input, format, variant)})
					}
					nviol++
				}
			}
		}
		sum.sample(c)
		return nil
	})
	if err != nil {
		fmt.Println("error:", err)
		return 3
	}
	sum.inc("mismatches", nviol)
	sum.done()
	return 0
}

// ---- B2: randomized hierarchies and long unit sequences; one trace event per (case, implementation)

func genHier(r *rand.Rand, n int, names []string) hier {
	h := hier{N: n, Edi: r.Intn(4) == 0}
	for i := 1; i <= n; i++ {
		// parent: an ancestor-or-self of i-1, or the root
		cands := []int{0}
		for a := i - 1; a > 0; a = h.Par[a-1] {
			cands = append(cands, a)
		}
		h.Par = append(h.Par, cands[r.Intn(len(cands))])
		h.Grp = append(h.Grp, r.Intn(10) < 3)
		h.Nm = append(h.Nm, names[r.Intn(len(names))])
		mn := []int{0, 0, 1, 1, 2}[r.Intn(5)]
		mxs := []int{1, 2, hINF}
		mx := mxs[r.Intn(3)]
		for mx < mn {
			mx = mxs[r.Intn(3)]
		}
		h.Mn = append(h.Mn, mn)
		h.Mx = append(h.Mx, mx)
	}
	shaped := !h.Edi && r.Intn(2) == 0 // csv2 / fixedlength2 record shapes beyond the single named line
	for i := 1; i <= n; i++ {
		if h.Grp[i-1] && len(h.kids(i)) == 0 {
			h.Grp[i-1] = false
		}
		mk := "name"
		if shaped && !h.Grp[i-1] {
			mk = []string{"name", "name", "rows2", "hf", "hf"}[r.Intn(5)]
		}
		if h.Grp[i-1] || mk == "rows2" {
			h.Nm[i-1] = names[0]
		}
		if shaped {
			h.Mk = append(h.Mk, mk)
		}
	}
	h.Tgt = 1 + r.Intn(n)
	h.Flt = !h.Grp[h.Tgt-1] && r.Intn(3) == 0
	return h
}

var names3 = []string{"A", "B", "C", "X"}

func genUnits(r *rand.Rand, h *hier, ds []int, out *[]string, budget int) {
	for _, d := range ds {
		cnt := h.Mn[d-1] + r.Intn(3)
		if cnt > h.Mx[d-1] {
			cnt = h.Mx[d-1]
		}
		for k := 0; k < cnt && len(*out) < budget; k++ {
			if !h.Grp[d-1] {
				switch h.mk(d) {
				case "rows2":
					*out = append(*out, names3[r.Intn(3)], names3[r.Intn(4)])
				case "hf":
					*out = append(*out, h.Nm[d-1])
					for m := r.Intn(3); m > 0; m-- {
						*out = append(*out, names3[r.Intn(4)])
					}
					*out = append(*out, footerName)
				default:
					*out = append(*out, h.Nm[d-1])
				}
			}
			genUnits(r, h, h.kids(d), out, budget)
		}
	}
}

func c05Drive(args []string) int {
	outPath := args[0]
	ncases, maxN, maxLen := 300, 6, 24
	if len(args) > 1 {
		fmt.Sscanf(args[1], "%d", &ncases)
	}
	if len(args) > 2 {
		fmt.Sscanf(args[2], "%d", &maxN)
	}
	if len(args) > 3 {
		fmt.Sscanf(args[3], "%d", &maxLen)
	}
	r := rng(505)
	sum := newSummary()
	names := []string{"A", "B", "C"}
	var events []interface{}
	for ci := 0; ci < ncases; ci++ {
		h := genHier(r, 1+r.Intn(maxN), names)
		var units []string
		rounds := 1
		if h.Edi {
			rounds += r.Intn(2)
		}
		for k := 0; k < rounds; k++ {
			genUnits(r, &h, h.kids(0), &units, maxLen)
		}
		for m := r.Intn(3); m > 0 && len(units) > 0; m-- { // damage: insert / delete / duplicate
			p := r.Intn(len(units))
			switch r.Intn(3) {
			case 0:
				units = append(units[:p], append([]string{[]string{"X", "A", "B", "C", footerName}[r.Intn(5)]}, units[p:]...)...)
			case 1:
				units = append(units[:p], units[p+1:]...)
			default:
				units = append(units[:p], append([]string{units[p]}, units[p:]...)...)
			}
		}
		if len(units) > maxLen {
			units = units[:maxLen]
		}
		if units == nil {
			units = []string{}
		}
		c := c05Case{H: h, Input: units}
		impls := []string{"recreader", "csv2", "fixedlength2"}
		if h.Edi {
			impls = []string{"edi"}
		}
		for _, impl := range impls {
			var obs c05Obs
			var pv string
			if impl == "recreader" {
				pv, _ = guarded(0, func() { obs = runScripted(&c) })
			} else {
				sch, err, p := newSchema([]byte(renderSchema(&h, impl)))
				if err != nil || p != "" {
					violation("C05", "schema-rejected", "a well-formed hierarchy was rejected by "+impl+": "+fmt.Sprint(err, p),
						M{"impl": impl, "case": c, "schema": renderSchema(&h, impl)})
					continue
				}
				pv, _ = guarded(0, func() { obs = runSchema(sch, &c, impl, r.Intn(2)) })
			}
			if pv != "" {
				violation("C05", "panic", "panic in "+impl+": "+pv, M{"impl": impl, "case": c})
				continue
			}
			events = append(events, M{"tr": len(events) + 1, "impl": impl, "h": h, "input": units, "out": obs.Out,
				"status": obs.Status, "errname": obs.Errname, "extra": obs.Extra})
			rich := false
			for i := 0; i < h.N; i++ {
				rich = rich || h.Grp[i] || h.Mx[i] > 1
			}
			sum.eval(len(units) >= 2 && rich && (len(obs.Out) > 0 || obs.Status != "eof"), M{"h": h, "u": units, "i": impl})
			sum.Traces++
		}
		if ci < 2 {
			sum.sample(M{"h": h, "input": units})
		}
	}
	mustWriteNDJSON(outPath, events)
	sum.done()
	return 0
}

func init() {
	cmds["c05-replay"] = c05Replay
	cmds["c05-drive"] = c05Drive
}
