package main

import (
	"encoding/json"
	"fmt"
	"reflect"
	"runtime/debug"
	"sort"
	"strings"
	"sync"
	"sync/atomic"

	"github.com/dop251/goja"

	v21 "github.com/jf-tech/omniparser/extensions/omniv21/customfuncs"
	"github.com/jf-tech/omniparser/idr"
)

// C20 driver: calls on the exported JavaScript / JavaScriptWithContext functions, observed through the verif VM hook.

type vmEvent struct {
	Ev      string   `json:"ev"`
	VM      int      `json:"vm"`
	Args    []string `json:"args"`
	Globals []string `json:"globals"`
	Seq     int64    `json:"seq"`
	Tr      int      `json:"tr"`
}

type vmRecorder struct {
	mu     sync.Mutex
	ids    map[*goja.Runtime]int
	events []interface{}
	seq    int64
	tr     int
}

func (r *vmRecorder) hook(ev string, vm *goja.Runtime, args map[string]interface{}) {
	r.mu.Lock()
	defer r.mu.Unlock()
	id, ok := r.ids[vm]
	if !ok {
		id = len(r.ids) + 1
		r.ids[vm] = id
	}
	names := []string{}
	for k := range args {
		names = append(names, k)
	}
	sort.Strings(names)
	globals := []string{}
	if ev != "get" {
		globals = append(globals, vm.GlobalObject().Keys()...)
		sort.Strings(globals)
	}
	r.events = append(r.events, vmEvent{Ev: ev, VM: id, Args: names, Globals: globals, Seq: atomic.AddInt64(&r.seq, 1), Tr: r.tr})
}

var probeNames = []string{"x", "y", "z", "w"}

// probe script: which of the names ever used are visible as globals right now
const probeScript = `[typeof x, typeof y, typeof z, typeof w].map(function(t){return t === 'undefined' ? '0' : '1';}).join('')`

func c20Drive(args []string) int {
	outPath := args[0]
	n := 300
	if len(args) > 1 {
		fmt.Sscanf(args[1], "%d", &n)
	}
	r := rng(2020)
	sum := newSummary()
	rec := &vmRecorder{ids: map[*goja.Runtime]int{}}
	v21.VerifResetCaches()
	v21.VerifVMHook = rec.hook
	defer func() { v21.VerifVMHook = nil }()
	var calls []interface{}
	randArgs := func(rr interface{ Intn(int) int }) (names []string, flat []interface{}) {
		for _, nm := range probeNames {
			if rr.Intn(2) == 0 {
				names = append(names, nm)
				var v interface{}
				switch rr.Intn(4) {
				case 0:
					v = "s"
				case 1:
					v = int64(7)
				case 2:
					v = 1.5
				default:
					v = true
				}
				flat = append(flat, nm, v)
			}
		}
		return
	}
	visibleOf := func(res interface{}) []string {
		s, _ := res.(string)
		out := []string{}
		for i, nm := range probeNames {
			if i < len(s) && s[i] == '1' {
				out = append(out, nm)
			}
		}
		return out
	}
	// (1) sequential call words: VM reuse is certain (same goroutine, no GC in between matters little: sync.Pool private slot)
	rec.tr = 1
	for i := 0; i < n; i++ {
		names, flat := randArgs(r)
		res, err := v21.JavaScript(nil, probeScript, flat...)
		if err != nil {
			violation("C20", "probe-failed", "probe script failed: "+err.Error(), M{"args": names})
			continue
		}
		if names == nil {
			names = []string{}
		}
		calls = append(calls, M{"ev": "call", "tr": 1, "args": names, "visible": visibleOf(res), "mode": "sequential"})
		sum.eval(i > 0, M{"i": i, "a": names})
	}
	// (2) concurrent mix on G goroutines
	rec.tr = 2
	var wg sync.WaitGroup
	var cmu sync.Mutex
	for g := 0; g < 8; g++ {
		wg.Add(1)
		go func(g int) {
			defer wg.Done()
			rr := rng(int64(3000 + g))
			for i := 0; i < n/4; i++ {
				names, flat := randArgs(rr)
				res, err := v21.JavaScript(nil, probeScript, flat...)
				if names == nil {
					names = []string{}
				}
				cmu.Lock()
				if err != nil {
					violation("C20", "probe-failed", "probe script failed: "+err.Error(), M{"args": names})
				} else {
					calls = append(calls, M{"ev": "call", "tr": 2, "args": names, "visible": visibleOf(res), "mode": "concurrent"})
					sum.eval(true, M{"g": g, "i": i, "a": names})
				}
				cmu.Unlock()
			}
		}(g)
	}
	wg.Wait()
	// (3) _node reflects the node as it is now: a node that changes while keeping its ID (an ancestor), and record-like
	// nodes that are released and recreated
	rec.tr = 3
	parent := idr.CreateNode(idr.ElementNode, "parent")
	for i := 0; i < 6; i++ {
		child := idr.CreateNode(idr.ElementNode, "rec")
		idr.AddChild(child, idr.CreateNode(idr.TextNode, fmt.Sprintf("v%d", i)))
		idr.AddChild(parent, child)
		for _, tgt := range []struct {
			name string
			n    *idr.Node
		}{{"record", child}, {"ancestor", parent}} {
			want := idr.JSONify2(tgt.n)
			got, err := v21.JavaScriptWithContext(nil, tgt.n, "_node")
			if err != nil {
				violation("C20", "node-probe-failed", err.Error(), M{})
				continue
			}
			calls = append(calls, M{"ev": "node", "tr": 1000 + len(calls), "on": tgt.name, "round": i, "now": want, "seen": fmt.Sprint(got)})
			sum.eval(i > 0, M{"n": tgt.name, "i": i})
		}
		idr.RemoveAndReleaseTree(child)
	}
	// (4) value mapping
	table := map[string]string{}
	if len(args) > 2 {
		_ = readLines(args[2], func(line []byte) error {
			var t struct {
				Table map[string]string `json:"table"`
			}
			if e := json.Unmarshal(line, &t); e == nil && t.Table != nil {
				table = t.Table
			}
			return nil
		})
	}
	scripts := map[string][]string{
		"number": {"1", "1.5", "-0", "x", "y", "1e300*10 > 1 ? 2 : 3"}, "string": {"'s'", "s", "'' + 1", "s + s"}, "boolean": {"true", "b", "!b", "1 < 2"},
		"array": {"[1, 'a', true]", "[]", "[x, s]"}, "object": {"({a: 1, b: [2]})", "({})", "JSON.parse('{\"k\": null}')"},
		"NaN": {"NaN", "0/0", "Math.sqrt(-1)", "parseInt('q')"}, "Infinity": {"Infinity", "1/0"}, "-Infinity": {"-Infinity", "-1/0"},
		"null": {"null", "JSON.parse('null')"}, "undefined": {"undefined", "(function(){})()", "void 0"}, "throw": {"throw 'boom'", "nosuch.prop", "null.x", "syntax error here("},
	}
	wantKind := func(v interface{}) string {
		switch reflect.ValueOf(v).Kind() {
		case reflect.Int, reflect.Int64, reflect.Float64:
			return "number"
		case reflect.String:
			return "string"
		case reflect.Bool:
			return "boolean"
		case reflect.Slice:
			return "array"
		case reflect.Map:
			return "object"
		}
		return fmt.Sprintf("%T", v)
	}
	for kind, exp := range table {
		for _, sc := range scripts[kind] {
			res, err := v21.JavaScript(nil, sc, "x", int64(3), "y", 2.5, "s", "str", "b", true)
			got := "error"
			if err == nil {
				got = wantKind(res)
				if _, e := json.Marshal(res); e != nil {
					got = "unmarshalable"
				}
			}
			calls = append(calls, M{"ev": "value", "tr": 1000 + len(calls), "kind": kind, "script": sc, "expected": exp, "got": got})
			sum.eval(true, M{"k": kind, "s": sc})
		}
	}
	// argument values arrive unchanged
	for _, a := range []struct {
		v    interface{}
		want string
	}{{"str", `"str"`}, {int64(42), "42"}, {2.5, "2.5"}, {true, "true"}, {"", `""`}, {int64(-1), "-1"}, {"é世", `"é世"`}} {
		res, err := v21.JavaScript(nil, "JSON.stringify(v)", "v", a.v)
		calls = append(calls, M{"ev": "value", "tr": 1000 + len(calls), "kind": "argument", "script": fmt.Sprint(a.v), "expected": a.want, "got": fmt.Sprint(res, errStr(err))})
	}
	// scripts that differ only in white space *inside a literal* are different scripts: each must give its own result,
	// in either order, with the program cache warm
	for _, pr := range [][2]string{{"a + '  ' + b", "a + ' ' + b"}, {"(a + ' x').split('  ').length", "(a + ' x').split(' ').length"},
		{"'l1\\n  l2'.length", "'l1\\n l2'.length"}, {"/a  b/.test('a  b')", "/a b/.test('a  b')"}} {
		wants := [2]string{}
		for k := 0; k < 2; k++ { // the expectation: what the script yields on its own with caching off
			v21.VerifSetDisableCaching(true)
			r0, e0 := v21.JavaScript(nil, pr[k], "a", "p", "b", "q")
			v21.VerifSetDisableCaching(false)
			wants[k] = fmt.Sprint(r0, errStr(e0))
		}
		for _, order := range [][2]int{{0, 1}, {1, 0}} {
			v21.VerifResetCaches()
			for _, k := range order {
				res, err := v21.JavaScript(nil, pr[k], "a", "p", "b", "q")
				calls = append(calls, M{"ev": "value", "tr": 1000 + len(calls), "kind": "argument", "script": fmt.Sprintf("%q (after its white-space twin: %v)", pr[k], k == order[1]),
					"expected": wants[k], "got": fmt.Sprint(res, errStr(err))})
				sum.eval(true, M{"twin": pr[k], "o": order})
			}
		}
	}
	// ... also on the way through a schema: typed declarations as named arguments (zero values are values, not "absent")
	argSchema := `{"parser_settings": {"version": "omni.2.1", "file_format_type": "json"},
 "transform_declarations": {"FINAL_OUTPUT": {"xpath": "/*", "object": {
   "plain": {"custom_func": {"name": "javascript", "args": [{"const": "JSON.stringify([i, f, b, s])"},
      {"const": "i"}, {"xpath": "i", "type": "int"}, {"const": "f"}, {"xpath": "f", "type": "float"},
      {"const": "b"}, {"xpath": "b", "type": "boolean"}, {"const": "s"}, {"xpath": "s"}]}},
   "ctx": {"custom_func": {"name": "javascript_with_context", "args": [{"const": "typeof i + ':' + i + ',' + typeof b + ':' + b + ',' + (i === 0) + ',' + (f === 0)"},
      {"const": "i"}, {"xpath": "i", "type": "int"}, {"const": "f"}, {"xpath": "f", "type": "float"}, {"const": "b"}, {"xpath": "b", "type": "boolean"}]}}}}}}`
	if sch, e, p := newSchema([]byte(argSchema)); e != nil || p != "" {
		fmt.Println("error: c20 argument schema rejected", e, p)
		return 3
	} else {
		in := `[{"i": "7", "f": "2.50", "b": "true", "s": "x"}, {"i": "0", "f": "0.0", "b": "false", "s": "y"}, {"i": "-1", "f": "0", "b": "false", "s": "é"}]`
		wantPlain := []string{`[7,2.5,true,"x"]`, `[0,0,false,"y"]`, `[-1,0,false,"é"]`}
		wantCtx := []string{"number:7,boolean:true,false,false", "number:0,boolean:false,true,true", "number:-1,boolean:false,false,true"}
		out := runTranscript(sch, strings.NewReader(in), RunOpts{MaxReads: 6})
		for k := range wantPlain {
			got := "missing"
			if k < len(out.Results) {
				got = out.Results[k].Class + " " + out.Results[k].Out + out.Results[k].Err
			}
			wb, _ := json.Marshal(M{"ctx": wantCtx[k], "plain": wantPlain[k]})
			calls = append(calls, M{"ev": "value", "tr": 1000 + len(calls), "kind": "argument", "script": fmt.Sprintf("through a schema, record %d", k+1), "expected": "ok " + string(wb), "got": got})
			sum.eval(true, M{"schema-arg": k})
		}
	}
	// what a call sees besides its named arguments, through a schema (where the library decides what to pass): the plain
	// variant sees nothing of the record - no _node unless it is one of its own arguments - and gives the same result on
	// every record; the context variant sees the record as it is now
	depSchema := `{"parser_settings": {"version": "omni.2.1", "file_format_type": "json"},
 "transform_declarations": {"FINAL_OUTPUT": {"xpath": "/*", "object": {
   "p_type": {"custom_func": {"name": "javascript", "args": [{"const": "typeof _node + '/' + typeof s + '/' + typeof i"}]}},
   "p_arg": {"custom_func": {"name": "javascript", "args": [{"const": "_node + '!'"}, {"const": "_node"}, {"xpath": "s"}]}},
   "p_same": {"custom_func": {"name": "javascript", "args": [{"const": "a + (typeof _node === 'undefined' ? '' : _node.length)"}, {"const": "a"}, {"const": "k"}]}},
   "c_type": {"custom_func": {"name": "javascript_with_context", "args": [{"const": "typeof _node + '/' + typeof s"}]}},
   "c_s": {"custom_func": {"name": "javascript_with_context", "args": [{"const": "JSON.parse(_node).s + a"}, {"const": "a"}, {"const": "+"}]}}}}}}`
	refSchema := `{"parser_settings": {"version": "omni.2.1", "file_format_type": "json"},
 "transform_declarations": {"FINAL_OUTPUT": {"xpath": "/*", "object": {
   "p_ref": {"custom_func": {"name": "javascript", "args": [{"const": "_node.length > 0 ? 'sees the record' : 'empty'"}]}}}}}}`
	depIn := `[{"i": "7", "s": "x"}, {"i": "0", "s": "yy", "more": [1, 2, 3]}, {"s": "é"}]`
	// the same call evaluated on the record and below an object anchored on an ancestor that outlives the record: its
	// arguments are those of the present record every time
	ancSchema := `{"parser_settings": {"version": "omni.2.1", "file_format_type": "xml"},
 "transform_declarations": {"FINAL_OUTPUT": {"xpath": "/root/rec", "object": {
   "on_record": {"custom_func": {"name": "javascript", "args": [{"const": "'T:' + q"}, {"const": "q"}, {"xpath": "qty"}]}},
   "on_ancestor": {"xpath": "..", "object": {
      "label": {"custom_func": {"name": "javascript", "args": [{"const": "'T:' + q"}, {"const": "q"}, {"xpath": "rec/qty"}]}},
      "ctx": {"custom_func": {"name": "javascript_with_context", "args": [{"const": "q + '/' + h"}, {"const": "q"}, {"xpath": "rec/qty"}, {"const": "h"}, {"xpath": "hdr"}]}}}}}}}}`
	twinSchema := `{"parser_settings": {"version": "omni.2.1", "file_format_type": "json"},
 "transform_declarations": {"FINAL_OUTPUT": {"xpath": "/*", "object": {"id": {"xpath": "id"},
   "a_ref": {"xpath_dynamic": {"custom_func": {"name": "javascript", "args": [{"const": "if (k == 'throw') { throw 'boom' }; k == 'nan' ? 0/0 : (k == 'undef' ? undefined : k)"}, {"const": "k"}, {"xpath": "k"}]}}},
   "b_val": {"custom_func": {"name": "javascript", "args": [{"const": "if (k == 'throw') { throw 'boom' }; k == 'nan' ? 0/0 : (k == 'undef' ? undefined : k)"}, {"const": "k"}, {"xpath": "k"}]}}}}}}`
	ieTwinSchema := `{"parser_settings": {"version": "omni.2.1", "file_format_type": "json"},
 "transform_declarations": {"FINAL_OUTPUT": {"xpath": "/*", "object": {"id": {"xpath": "id"},
   "a_lenient": {"custom_func": {"name": "javascript", "args": [{"const": "if (k == 'throw') { throw 'boom' }; k == 'nan' ? 0/0 : (k == 'undef' ? undefined : k)"}, {"const": "k"}, {"xpath": "k"}], "ignore_error": true}},
   "b_strict": {"custom_func": {"name": "javascript", "args": [{"const": "if (k == 'throw') { throw 'boom' }; k == 'nan' ? 0/0 : (k == 'undef' ? undefined : k)"}, {"const": "k"}, {"xpath": "k"}]}}}}}}`
	twinIn := `[{"id": "r1", "k": "v", "v": "v1"}, {"id": "r2", "k": "throw"}, {"id": "r3", "k": "nan"}, {"id": "r4", "k": "undef"}, {"id": "r5", "k": "w", "w": "w5"}]`
	ancIn := `<root><hdr>H</hdr><rec><qty>3</qty></rec><rec><qty>7.5</qty></rec><rec><qty>1</qty></rec></root>`
	for _, d := range []struct {
		name, schema, in string
		want             []string
	}{
		{"a call below an object anchored on an ancestor", ancSchema, ancIn, []string{
			`ok {"on_ancestor":{"ctx":"3/H","label":"T:3"},"on_record":"T:3"}`,
			`ok {"on_ancestor":{"ctx":"7.5/H","label":"T:7.5"},"on_record":"T:7.5"}`,
			`ok {"on_ancestor":{"ctx":"1/H","label":"T:1"},"on_record":"T:1"}`}},
		{"a script that fails, first as a computed xpath (where a failure means 'no xpath') and then as a value", twinSchema, twinIn, []string{
			`ok {"a_ref":"v1","b_val":"v","id":"r1"}`, "failed", "failed", "failed", `ok {"a_ref":"w5","b_val":"w","id":"r5"}`}},
		{"two calls that differ only in ignore_error, the lenient one first", ieTwinSchema, twinIn, []string{
			`ok {"a_lenient":"v","b_strict":"v","id":"r1"}`, "failed", "failed", "failed", `ok {"a_lenient":"w","b_strict":"w","id":"r5"}`}},
		{"what a call sees", depSchema, depIn, []string{
			`ok {"c_s":"x+","c_type":"string/undefined","p_arg":"x!","p_same":"k","p_type":"undefined/undefined/undefined"}`,
			`ok {"c_s":"yy+","c_type":"string/undefined","p_arg":"yy!","p_same":"k","p_type":"undefined/undefined/undefined"}`,
			`ok {"c_s":"é+","c_type":"string/undefined","p_arg":"é!","p_same":"k","p_type":"undefined/undefined/undefined"}`}},
		{"a plain script that reads _node", refSchema, depIn, []string{"failed", "failed", "failed"}},
	} {
		sch, e, p := newSchema([]byte(d.schema))
		if e != nil || p != "" {
			fmt.Println("error: c20 dependence schema rejected", e, p)
			return 3
		}
		out := runTranscript(sch, strings.NewReader(d.in), RunOpts{MaxReads: 6})
		for k, w := range d.want {
			got := "missing"
			if k < len(out.Results) {
				got = out.Results[k].Class
				if got == "ok" {
					got += " " + out.Results[k].Out
				}
			}
			calls = append(calls, M{"ev": "value", "tr": 1000 + len(calls), "kind": "argument", "script": fmt.Sprintf("%s, through a schema, record %d", d.name, k+1), "expected": w, "got": got})
			sum.eval(true, M{"schema-dep": d.name, "k": k})
		}
	}
	// _node of a flat-file record is what that record holds - also when the nodes it is built from had an earlier life in
	// a transform of a format whose nodes carry type information (garbage collection held off so that they are reused)
	{
		csvCtx := `{"parser_settings": {"version": "omni.2.1", "file_format_type": "csv2"},
 "file_declaration": {"delimiter": ",", "records": [{"name": "R", "columns": [{"name": "A", "index": 1}, {"name": "B", "index": 2}, {"name": "C", "index": 3}]}]},
 "transform_declarations": {"FINAL_OUTPUT": {"custom_func": {"name": "javascript_with_context", "args": [{"const": "_node"}]}}}}`
		fixCtx := `{"parser_settings": {"version": "omni.2.1", "file_format_type": "fixedlength2"},
 "file_declaration": {"envelopes": [{"name": "R", "columns": [{"name": "A", "start_pos": 1, "length": 2}, {"name": "B", "start_pos": 3, "length": 2}]}]},
 "transform_declarations": {"FINAL_OUTPUT": {"custom_func": {"name": "javascript_with_context", "args": [{"const": "_node"}]}}}}`
		ediCtx := `{"parser_settings": {"version": "omni.2.1", "file_format_type": "edi"},
 "file_declaration": {"segment_delimiter": "~", "element_delimiter": "*", "segment_declarations": [{"name": "S", "is_target": true, "max": -1, "elements": [{"name": "A", "index": 1}, {"name": "B", "index": 2}]}]},
 "transform_declarations": {"FINAL_OUTPUT": {"custom_func": {"name": "javascript_with_context", "args": [{"const": "_node"}]}}}}`
		typed := `{"parser_settings": {"version": "omni.2.1", "file_format_type": "json"},
 "transform_declarations": {"FINAL_OUTPUT": {"xpath": "/*", "object": {"n": {"xpath": "n", "type": "float"}}}}}`
		typedIn := `[{"n": 1, "b": true, "z": null, "arr": [1, 2, [3]], "o": {"k": false}}, {"n": 2, "b": false, "z": null, "arr": [], "o": {}}, {"n": 3, "arr": [null, 0, ""]}]`
		nsX := `{"parser_settings": {"version": "omni.2.1", "file_format_type": "xml"}, "transform_declarations": {"FINAL_OUTPUT": {"xpath": "/p:r/p:e", "object": {"v": {"xpath": "."}}}}}`
		nsIn := `<p:r xmlns:p="urn:p"><p:e p:k="1">a</p:e><p:e>b</p:e><p:e><p:f>c</p:f></p:e></p:r>`
		flat := []struct {
			name, schema, in string
			nodes            []string
		}{
			{"csv2", csvCtx, "a1,b1,c1\na2,b2,c2\na3,b3,c3\n", []string{`{"A":"a1","B":"b1","C":"c1"}`, `{"A":"a2","B":"b2","C":"c2"}`, `{"A":"a3","B":"b3","C":"c3"}`}},
			{"fixedlength2", fixCtx, "a1b1\na2b2\n", []string{`{"A":"a1","B":"b1"}`, `{"A":"a2","B":"b2"}`}},
			{"edi", ediCtx, "S*a1*b1~S*a2*b2~", []string{`{"A":"a1","B":"b1"}`, `{"A":"a2","B":"b2"}`}},
			{"csv (legacy)", `{"parser_settings": {"version": "omni.2.1", "file_format_type": "csv"},
 "file_declaration": {"delimiter": ",", "data_row_index": 1, "columns": [{"name": "A"}, {"name": "B"}]},
 "transform_declarations": {"FINAL_OUTPUT": {"custom_func": {"name": "javascript_with_context", "args": [{"const": "_node"}]}}}}`,
				"a1,b1\na2,b2\na3,b3\n", []string{`{"A":"a1","B":"b1"}`, `{"A":"a2","B":"b2"}`, `{"A":"a3","B":"b3"}`}},
			{"fixed-length (legacy)", `{"parser_settings": {"version": "omni.2.1", "file_format_type": "fixed-length"},
 "file_declaration": {"envelopes": [{"columns": [{"name": "A", "start_pos": 1, "length": 2}, {"name": "B", "start_pos": 3, "length": 2}]}]},
 "transform_declarations": {"FINAL_OUTPUT": {"custom_func": {"name": "javascript_with_context", "args": [{"const": "_node"}]}}}}`,
				"a1b1\na2b2\na3b3\n", []string{`{"A":"a1","B":"b1"}`, `{"A":"a2","B":"b2"}`, `{"A":"a3","B":"b3"}`}}}
		prior := []struct{ name, schema, in string }{{"nothing", "", ""}, {"a JSON transform", typed, typedIn}, {"a namespaced XML transform", nsX, nsIn}}
		old := debug.SetGCPercent(-1)
		for _, pr := range prior {
			for _, f := range flat {
				if pr.schema != "" {
					psch, e, p := newSchema([]byte(pr.schema))
					if e != nil || p != "" {
						fmt.Println("error: c20 prior schema rejected", e, p)
						return 3
					}
					for k := 0; k < 3; k++ {
						runTranscript(psch, strings.NewReader(pr.in), RunOpts{MaxReads: 10})
					}
				}
				sch, e, p := newSchema([]byte(f.schema))
				if e != nil || p != "" {
					fmt.Println("error: c20 flat schema rejected", f.name, e, p)
					return 3
				}
				out := runTranscript(sch, strings.NewReader(f.in), RunOpts{MaxReads: 6})
				got := ""
				for _, r := range out.Results {
					got += r.Class + " " + r.Out + ";"
				}
				want := ""
				for _, n := range f.nodes {
					b, _ := json.Marshal(n)
					want += "ok " + string(b) + ";"
				}
				want += "eof ;"
				calls = append(calls, M{"ev": "value", "tr": 1000 + len(calls), "kind": "argument", "script": fmt.Sprintf("_node of every %s record right after %s", f.name, pr.name),
					"expected": want, "got": got})
				sum.eval(true, M{"ctx-after": pr.name, "f": f.name})
			}
		}
		debug.SetGCPercent(old)
	}
	var events []interface{}
	events = append(events, rec.events...)
	events = append(events, calls...)
	mustWriteNDJSON(outPath, events)
	sum.Traces = len(events)
	if len(rec.events) > 3 {
		sum.sample(rec.events[:3])
	}
	reused := 0
	seenVM := map[int]int{}
	for _, e := range rec.events {
		ev := e.(vmEvent)
		if ev.Ev == "get" {
			seenVM[ev.VM]++
			if seenVM[ev.VM] > 1 {
				reused++
			}
		}
	}
	sum.inc("vm_reuses", reused)
	sum.done()
	_ = strings.TrimSpace
	return 0
}

func errStr(e error) string {
	if e == nil {
		return ""
	}
	return " ERR:" + e.Error()
}

func init() { cmds["c20-drive"] = c20Drive }
