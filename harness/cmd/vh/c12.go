package main

import (
	"fmt"
	"math/rand"
	"runtime"
	"strings"
	"sync"
	"time"

	"github.com/jf-tech/omniparser/idr"
	"github.com/jf-tech/omniparser/transformctx"
)

// ---- operation words on the real idr package, logged with the full pointer structure (Trace_IDR.tla)

const c12K = 12

type c12Arena struct {
	cells  map[*idr.Node]int
	ptrs   []*idr.Node
	events *[]interface{}
	tr     int
	over   bool
}

func (a *c12Arena) cell(n *idr.Node) int {
	if n == nil {
		return 0
	}
	if c, ok := a.cells[n]; ok {
		return c
	}
	if len(a.ptrs) >= c12K {
		a.over = true
		return -1
	}
	a.ptrs = append(a.ptrs, n)
	a.cells[n] = len(a.ptrs)
	return len(a.ptrs)
}

var dataCode = map[string]int{"": 0, "a": 1, "b": 2}

func (a *c12Arena) snapshot(ev M) {
	par, first, last, prev, next := make([]int, c12K), make([]int, c12K), make([]int, c12K), make([]int, c12K), make([]int, c12K)
	ty, data, fs, id := make([]int, c12K), make([]int, c12K), make([]int, c12K), make([]int64, c12K)
	for i, p := range a.ptrs {
		par[i], first[i], last[i], prev[i], next[i] = a.cell(p.Parent), a.cell(p.FirstChild), a.cell(p.LastChild), a.cell(p.PrevSibling), a.cell(p.NextSibling)
		ty[i], data[i], id[i] = int(p.Type), dataCode[p.Data], p.ID
		if p.FormatSpecific != nil {
			fs[i] = 1
		}
	}
	ev["par"], ev["first"], ev["last"], ev["prev"], ev["next"] = par, first, last, prev, next
	ev["ty"], ev["data"], ev["fs"], ev["id"], ev["tr"] = ty, data, fs, id, a.tr
	*a.events = append(*a.events, ev)
}

type c12Op struct {
	Op   string
	A, B int // indices into the live list
	T, F int
	D    string
}

// shadow bookkeeping of the harness: which nodes are live and which are detached roots
type c12Shadow struct {
	live []*idr.Node
}

func (s *c12Shadow) isAncSelf(anc, n *idr.Node) bool {
	steps := 0
	for x := n; x != nil && steps < 10000; x = x.Parent {
		if x == anc {
			return true
		}
		steps++
	}
	return steps >= 10000 // a parent cycle: treat as related so that nothing is attached
}

func (s *c12Shadow) legalOps(maxLive int) []c12Op {
	var ops []c12Op
	if len(s.live) < maxLive {
		ops = append(ops, c12Op{Op: "Create", T: 1, D: "a"}, c12Op{Op: "Create", T: 2, D: "b", F: 1})
	}
	for i, p := range s.live {
		for j, n := range s.live {
			if n.Parent == nil && !s.isAncSelf(n, p) {
				ops = append(ops, c12Op{Op: "AddChild", A: i, B: j})
			}
		}
	}
	for i := range s.live {
		ops = append(ops, c12Op{Op: "Remove", A: i})
	}
	return ops
}

// subtreeSet is robust against corrupted links (cycles): every node is visited once.
func subtreeSet(n *idr.Node, out map[*idr.Node]bool) {
	if out[n] || len(out) > 100000 {
		return
	}
	out[n] = true
	for c := n.FirstChild; c != nil && !out[c]; c = c.NextSibling {
		subtreeSet(c, out)
	}
}

// apply executes op on the real package and logs it.
func (s *c12Shadow) apply(a *c12Arena, op c12Op) (violationMsg string) {
	switch op.Op {
	case "Create":
		n := idr.CreateNode(idr.NodeType(op.T), op.D)
		c := a.cell(n)
		if a.over {
			return ""
		}
		for _, l := range s.live {
			if l == n {
				return fmt.Sprintf("CreateNode handed out a node that is still live (cell %d)", c)
			}
		}
		if n.Parent != nil || n.FirstChild != nil || n.LastChild != nil || n.PrevSibling != nil || n.NextSibling != nil || n.FormatSpecific != nil {
			return fmt.Sprintf("CreateNode handed out a node that is not blank (cell %d)", c)
		}
		if op.F == 1 {
			n.FormatSpecific = "fs"
		}
		s.live = append(s.live, n)
		a.snapshot(M{"ev": "Create", "c": c, "t": op.T, "d": dataCode[op.D], "f": op.F})
	case "AddChild":
		p, n := s.live[op.A], s.live[op.B]
		idr.AddChild(p, n)
		a.snapshot(M{"ev": "AddChild", "p": a.cell(p), "n": a.cell(n)})
	case "Remove":
		n := s.live[op.A]
		gone := map[*idr.Node]bool{}
		subtreeSet(n, gone)
		c := a.cell(n)
		idr.RemoveAndReleaseTree(n)
		var keep []*idr.Node
		for _, l := range s.live {
			if !gone[l] {
				keep = append(keep, l)
			}
		}
		s.live = keep
		a.snapshot(M{"ev": "Remove", "n": c})
	}
	return ""
}

func c12StartTrace(a *c12Arena, events *[]interface{}, trNo int) {
	idr.VerifResetNodePool()
	// learn the ID counter: with an empty pool the next node is freshly allocated
	probe := idr.CreateNode(idr.ElementNode, "")
	base := probe.ID
	*a = c12Arena{cells: map[*idr.Node]int{}, events: events, tr: trNo}
	*events = append(*events, M{"ev": "Reset", "tr": trNo, "base": base})
}

func nontrivialWord(w []c12Op, livesAt []int) bool {
	// removes a node that has siblings or children, or re-acquires a released cell
	removed, createdAfterRemove := false, false
	for _, o := range w {
		if o.Op == "Remove" {
			removed = true
		}
		if o.Op == "Create" && removed {
			createdAfterRemove = true
		}
	}
	adds := 0
	for _, o := range w {
		if o.Op == "AddChild" {
			adds++
		}
	}
	return removed && (adds > 0 || createdAfterRemove)
}

// c12-words <out.ndjson> <maxLen> <maxLive> <pooling 0|1> <nrandom> <randomLen>
func c12Words(args []string) int {
	outPath := args[0]
	maxLen, maxLive, pooling, nrand, randLen := 5, 3, 1, 50, 60
	fmt.Sscanf(args[1], "%d", &maxLen)
	fmt.Sscanf(args[2], "%d", &maxLive)
	fmt.Sscanf(args[3], "%d", &pooling)
	fmt.Sscanf(args[4], "%d", &nrand)
	fmt.Sscanf(args[5], "%d", &randLen)
	old := idr.VerifSetNodeCaching(pooling == 1)
	defer idr.VerifSetNodeCaching(old)
	sum := newSummary()
	var events []interface{}
	trNo := 0
	// exhaustive: every legal operation word up to maxLen, each executed from an empty arena
	var words [][]c12Op
	var rec func(prefix []c12Op)
	replayPrefix := func(prefix []c12Op, log bool) (*c12Shadow, *c12Arena, string) {
		sh := &c12Shadow{}
		a := &c12Arena{}
		var sink []interface{}
		if log {
			trNo++
			c12StartTrace(a, &events, trNo)
		} else {
			c12StartTrace(a, &sink, 0)
		}
		for _, op := range prefix {
			if msg := sh.apply(a, op); msg != "" {
				return sh, a, msg
			}
		}
		return sh, a, ""
	}
	rec = func(prefix []c12Op) {
		sh, _, _ := replayPrefix(prefix, false)
		ops := sh.legalOps(maxLive)
		// release what the probe run created so the heap does not grow
		if len(prefix) == maxLen || len(ops) == 0 {
			words = append(words, append([]c12Op{}, prefix...))
			return
		}
		for _, op := range ops {
			rec(append(append([]c12Op{}, prefix...), op))
		}
	}
	rec(nil)
	for _, w := range words {
		_, a, msg := replayPrefix(w, true)
		if msg != "" {
			violation("C12", "alias-or-dirty", msg, M{"word": w})
		}
		if a.over {
			continue
		}
		sum.eval(nontrivialWord(w, nil), w)
		sum.Traces++
	}
	sum.inc("exhaustive_words", len(words))
	// random long words
	r := rng(1212)
	for i := 0; i < nrand; i++ {
		sh := &c12Shadow{}
		a := &c12Arena{}
		trNo++
		c12StartTrace(a, &events, trNo)
		var w []c12Op
		for k := 0; k < randLen && !a.over; k++ {
			ops := sh.legalOps(maxLive + 3)
			op := ops[r.Intn(len(ops))]
			if op.Op == "Remove" && r.Intn(3) != 0 { // bias toward building
				op = ops[r.Intn(len(ops))]
			}
			w = append(w, op)
			if msg := sh.apply(a, op); msg != "" {
				violation("C12", "alias-or-dirty", msg, M{"word": w})
				break
			}
		}
		if a.over { // ran out of cell numbers: drop the tail event that could not be numbered
			for len(events) > 0 {
				if m, ok := events[len(events)-1].(M); ok && m["tr"] == trNo && m["ev"] != "Reset" {
					events = events[:len(events)-1]
					continue
				}
				break
			}
			continue
		}
		sum.eval(true, w)
		sum.Traces++
		if i == 0 {
			sum.sample(w[:min(len(w), 10)])
		}
	}
	mustWriteNDJSON(outPath, events)
	sum.inc("trace_events", len(events))
	sum.done()
	return 0
}

// ---- trees handed out by the seven readers: pointer structure + pool ownership audit (Trace_IDRAudit.tla)

type poolTracker struct {
	mu     sync.Mutex
	pooled map[*idr.Node]bool
	owner  map[*idr.Node]bool // handed out and not yet put back
	ids    map[int64]bool
	errs   []string
	gets   int
	puts   int
}

func (p *poolTracker) hook(ev string, n *idr.Node) {
	p.mu.Lock()
	defer p.mu.Unlock()
	switch ev {
	case "get":
		p.gets++
		if p.owner[n] {
			p.errs = append(p.errs, fmt.Sprintf("node %p handed out while still owned (id %d)", n, n.ID))
		}
		if p.ids[n.ID] {
			p.errs = append(p.errs, fmt.Sprintf("ID %d handed out twice", n.ID))
		}
		p.ids[n.ID] = true
		if n.Parent != nil || n.FirstChild != nil || n.LastChild != nil || n.PrevSibling != nil || n.NextSibling != nil ||
			n.FormatSpecific != nil || n.Data != "" || n.Type != 0 {
			p.errs = append(p.errs, fmt.Sprintf("node %p obtained from the allocator is not blank", n))
		}
		p.owner[n] = true
		delete(p.pooled, n)
	case "put":
		p.puts++
		if !p.owner[n] {
			p.errs = append(p.errs, fmt.Sprintf("node %p put back twice / never handed out", n))
			if len(p.errs) <= 3 { // reported at once: what follows a double release may well kill the process
				violation("C12", "pool-ownership", p.errs[len(p.errs)-1], M{})
				flush()
			}
		}
		delete(p.owner, n)
		p.pooled[n] = true
	}
}

func newPoolTracker() *poolTracker {
	return &poolTracker{pooled: map[*idr.Node]bool{}, owner: map[*idr.Node]bool{}, ids: map[int64]bool{}}
}

// dumpTree numbers the nodes reachable from the root of n (pre-order) and returns the link arrays.
func dumpTree(n *idr.Node, pt *poolTracker, limit int) (M, bool) {
	root := n
	for hops := 0; root.Parent != nil; hops++ {
		if hops > limit { // a cycle of parent links: dump from n itself, TLC rejects the structure
			root = n
			break
		}
		root = root.Parent
	}
	idx := map[*idr.Node]int{}
	var order []*idr.Node
	var walk func(x *idr.Node) bool
	walk = func(x *idr.Node) bool {
		if _, seen := idx[x]; seen {
			return true // a cycle or shared node: still dump what we have; TLC will reject it
		}
		if len(order) >= limit {
			return false
		}
		order = append(order, x)
		idx[x] = len(order)
		for c := x.FirstChild; c != nil; c = c.NextSibling {
			if !walk(c) {
				return false
			}
			if len(order) > limit {
				return false
			}
		}
		return true
	}
	if !walk(root) {
		return nil, false
	}
	ref := func(x *idr.Node) int {
		if x == nil {
			return 0
		}
		if v, ok := idx[x]; ok {
			return v
		}
		// a link that leaves the reachable tree: give it a number of its own so the audit sees it
		order = append(order, x)
		idx[x] = len(order)
		return len(order)
	}
	k := len(order)
	var par, first, last, prev, next, live []int
	for i := 0; i < len(order); i++ {
		x := order[i]
		par, first, last = append(par, ref(x.Parent)), append(first, ref(x.FirstChild)), append(last, ref(x.LastChild))
		prev, next = append(prev, ref(x.PrevSibling)), append(next, ref(x.NextSibling))
	}
	pt.mu.Lock()
	for i := 0; i < len(order); i++ {
		if i < k && !pt.pooled[order[i]] {
			live = append(live, i+1)
		}
	}
	pt.mu.Unlock()
	if live == nil {
		live = []int{}
	}
	return M{"ev": "Audit", "n": len(order), "reach": k, "target": idx[n], "par": par, "first": first, "last": last, "prev": prev, "next": next, "live": live}, true
}

// c12-readers <out.ndjson> <nmut>: run the seven readers, audit the tree after every successful Read.
func c12Readers(args []string) int {
	outPath := args[0]
	nmut := 3
	if len(args) > 1 {
		fmt.Sscanf(args[1], "%d", &nmut)
	}
	sum := newSummary()
	pt := newPoolTracker()
	idr.VerifNodeHook = pt.hook
	defer func() { idr.VerifNodeHook = nil }()
	var events []interface{}
	r := rng(1213)
	corpus := append(repoSamples(), miniSamples()...)
	for _, s := range corpus {
		sch, err, p := newSchema(s.Schema)
		if err != nil || p != "" {
			fmt.Println("error: corpus schema rejected", s.Name, err, p)
			return 3
		}
		for vi, in := range mutateInput(s.Input, r, nmut) {
			if vi == 1 {
				continue
			}
			nread := 0
			out := runTranscript(sch, strings.NewReader(string(in)), RunOpts{MaxReads: 3000, AfterRead: func(tr omniTransform, res Res) {
				if res.Class != "ok" {
					return
				}
				rr, e := tr.RawRecord()
				if e != nil {
					return
				}
				n, _ := rr.Raw().(*idr.Node)
				if n == nil {
					return
				}
				nread++
				if nread > 40 && nread%17 != 0 {
					return
				}
				ev, ok := dumpTree(n, pt, 400)
				if !ok {
					return
				}
				ev["tr"] = len(events) + 1
				ev["sample"] = s.Name
				events = append(events, ev)
				sum.Traces++
				sum.eval(ev["n"].(int) >= 3, M{"s": s.Name, "v": vi, "k": nread})
			}})
			if out.Panic != "" {
				violation("C12", "panic", "reader panicked: "+out.Panic, M{"sample": s.Name, "input": string(in)})
			}
		}
	}
	// the hierarchical readers (csv2, fixedlength2, edi) over random declaration hierarchies (Hierarchy.tla's space: groups,
	// min 0..2, max 1 / 2 / unbounded, the target at any depth, record shapes) and unit sequences that fill, overfill and
	// underfill them: whichever instances complete together with a target, the tree handed out is live and whole
	{
		hr := rng(1217)
		for ci := 0; ci < 150*nmut; ci++ {
			h := genHier(hr, 1+hr.Intn(6), []string{"A", "B", "C"})
			var units []string
			for k := 1 + hr.Intn(2); k > 0; k-- {
				genUnits(hr, &h, h.kids(0), &units, 30)
			}
			if hr.Intn(3) == 0 && len(units) > 0 {
				p := hr.Intn(len(units))
				units = append(units[:p], units[p+1:]...)
			}
			impls := []string{"csv2", "fixedlength2"}
			if h.Edi {
				impls = []string{"edi"}
			}
			for _, impl := range impls {
				schema := renderSchema(&h, impl)
				sch, err, p := newSchema([]byte(schema))
				if err != nil || p != "" {
					continue // (C05 reports a well-formed hierarchy that is rejected)
				}
				in := renderInput(units, impl, hr.Intn(2))
				nread := 0
				out := runTranscript(sch, strings.NewReader(in), RunOpts{MaxReads: 200, AfterRead: func(tr omniTransform, res Res) {
					if res.Class != "ok" {
						return
					}
					rr, e := tr.RawRecord()
					if e != nil {
						return
					}
					n, _ := rr.Raw().(*idr.Node)
					if n == nil {
						return
					}
					nread++
					ev, ok := dumpTree(n, pt, 400)
					if !ok {
						return
					}
					ev["tr"] = len(events) + 1
					ev["sample"] = fmt.Sprintf("hierarchy %d (%s) record %d: schema %s input %q", ci, impl, nread, schema, in)
					events = append(events, ev)
					sum.Traces++
					sum.eval(h.N >= 2, M{"h": ci, "i": impl, "k": nread})
				}})
				if out.Panic != "" {
					violation("C12", "panic", "reader panicked: "+out.Panic, M{"sample": "hierarchy", "schema": schema, "input": in})
				}
			}
		}
	}
	// a FormatReader that is asked again after it reported the end (or an error) must not release anything a second
	// time: the real readers of all formats, reached through the CustomFileFormats extension point, get three more
	// Read calls after the Transform has finished, with another owner acquiring nodes in between
	{
		rec := &ingRecorder{ids: map[int64]int{}}
		for _, s := range append(miniSamples(), generatedSamples()...) {
			if len(s.Input) > 20000 {
				continue
			}
			sch, err, p := newSchema(s.Schema, recordingExtension(rec))
			if err != nil || p != "" {
				fmt.Println("error: schema rejected under the recording extension", s.Name, err, p)
				return 3
			}
			rec.readers = nil
			out := runTranscript(sch, strings.NewReader(string(s.Input)), RunOpts{MaxReads: 3000})
			if out.Panic != "" || len(rec.readers) == 0 {
				continue
			}
			rd := rec.readers[len(rec.readers)-1]
			var other []*idr.Node
			for k := 0; k < 3; k++ {
				pv, hung := guarded(5*time.Second, func() {
					n, _ := rd.Read()
					if n != nil {
						rd.Release(n)
					}
				})
				if pv != "" || hung {
					violation("C12", "panic-read-after-end", fmt.Sprintf("%s: Read after the end: panic=%q hung=%v", s.Name, pv, hung), M{"sample": s.Name})
					break
				}
				root := idr.CreateNode(idr.ElementNode, "o")
				idr.AddChild(root, idr.CreateNode(idr.TextNode, "t"))
				other = append(other, root)
				if ev, ok := dumpTree(root, pt, 50); ok {
					ev["tr"] = len(events) + 1
					ev["sample"] = s.Name + " (another owner's tree after a Read past the end)"
					events = append(events, ev)
					sum.Traces++
				}
			}
			for _, o := range other {
				idr.RemoveAndReleaseTree(o)
			}
			sum.eval(true, M{"after-end": s.Name})
		}
	}
	// several owners alive at once: the idr stream readers driven directly, their Read / Release calls interleaved with
	// each other and with a hand-built tree; after every call the tree of every node still held is audited
	type owner struct {
		name string
		sr   streamReader
		held *idr.Node
		done bool
	}
	mk := func(kind string) *owner {
		var sr streamReader
		var err error
		switch kind {
		case "json":
			sr, err = idr.NewJSONStreamReader(strings.NewReader(miniJSONInput+miniJSONInput), "/*")
		default:
			sr, err = idr.NewXMLStreamReader(strings.NewReader(miniXMLInput), "/root/rec")
		}
		if err != nil {
			return nil
		}
		return &owner{name: kind, sr: sr}
	}
	hungOnce := false
	// directed: a record is released, another owner at once acquires nodes (the ones just released, as the allocator works)
	// and attaches them - children first, so that the very node the reader let go becomes somebody's child - and the
	// reader is asked for its next record: the other owner's tree is as it was built
	for _, kind := range []string{"json", "xml"} {
		o := mk(kind)
		if o == nil {
			continue
		}
		var trees []*idr.Node
		for k := 0; k < 6 && !hungOnce; k++ {
			pv, hung := guarded(5*time.Second, func() {
				n, err := o.sr.Read()
				if err != nil {
					return
				}
				o.sr.Release(n)
				kids := []*idr.Node{idr.CreateNode(idr.TextNode, "t1"), idr.CreateNode(idr.ElementNode, "e"), idr.CreateNode(idr.TextNode, "t2")}
				root := idr.CreateNode(idr.ElementNode, "other")
				for _, c := range kids {
					idr.AddChild(root, c)
				}
				trees = append(trees, root)
			})
			if hung {
				violation("C12", "hang-interleaved", "a Read / Release call did not return within 5 s (node links form a cycle?)", M{"kind": kind, "directed": true})
				hungOnce = true
				break
			}
			if pv != "" {
				violation("C12", "panic-interleaved", "directed interleaving: "+pv, M{"kind": kind})
				break
			}
			for ti, tnode := range trees {
				ev, ok := dumpTree(tnode, pt, 50)
				if !ok {
					continue
				}
				ev["tr"] = len(events) + 1
				ev["sample"] = fmt.Sprintf("another owner's tree no. %d (built right after the %s reader released record %d) after the reader's later calls", ti+1, kind, ti+1)
				if ev["n"].(int) != 4 { // the tree was built with four nodes
					ev["live"] = []int{}
				}
				events = append(events, ev)
				sum.Traces++
				sum.eval(true, M{"directed": kind, "k": k, "t": ti})
			}
		}
		for _, tnode := range trees {
			idr.RemoveAndReleaseTree(tnode)
		}
	}
	for round := 0; round < 40*nmut; round++ {
		kinds := [][]string{{"json", "json"}, {"json", "xml"}, {"xml", "xml"}, {"xml", "json"}}[round%4]
		owners := []*owner{mk(kinds[0]), mk(kinds[1])}
		if owners[0] == nil || owners[1] == nil {
			fmt.Println("error: cannot create stream readers")
			return 3
		}
		var hand []*idr.Node // detached roots built by a third owner
		audit := func(what string) {
			var nodes []*idr.Node
			for _, o := range owners {
				if o.held != nil {
					nodes = append(nodes, o.held)
				}
			}
			nodes = append(nodes, hand...)
			for _, n := range nodes {
				ev, ok := dumpTree(n, pt, 400)
				if !ok {
					continue
				}
				ev["tr"] = len(events) + 1
				ev["sample"] = fmt.Sprintf("interleaved %v round %d after %s", kinds, round, what)
				events = append(events, ev)
				sum.Traces++
				sum.eval(true, M{"r": round, "w": what, "n": ev["n"]})
			}
		}
		for step := 0; step < 24; step++ {
			o := owners[r.Intn(2)]
			var pv string
			var hung bool
			switch {
			case r.Intn(5) == 0: // the third owner acquires and attaches a few nodes, or gives a tree back
				if len(hand) > 0 && r.Intn(2) == 0 {
					idr.RemoveAndReleaseTree(hand[len(hand)-1])
					hand = hand[:len(hand)-1]
				} else {
					root := idr.CreateNode(idr.ElementNode, "h")
					for k := r.Intn(3); k >= 0; k-- {
						idr.AddChild(root, idr.CreateNode(idr.TextNode, "t"))
					}
					hand = append(hand, root)
				}
				audit("hand-built tree")
			case o.held != nil && r.Intn(2) == 0:
				pv, hung = guarded(5*time.Second, func() { o.sr.Release(o.held) })
				o.held = nil
				if !hung {
					audit(o.name + ".Release")
				}
			case !o.done:
				// Read (with or without a Release of the node still held: "even if Release is not called the next Read releases it")
				pv, hung = guarded(5*time.Second, func() {
					n, err := o.sr.Read()
					o.held = n
					if err != nil {
						o.held, o.done = nil, true
					}
				})
				if !hung {
					audit(o.name + ".Read")
				}
			}
			if hung {
				violation("C12", "hang-interleaved", "interleaved readers: a Read / Release call did not return within 5 s (node links form a cycle?)", M{"round": round, "kinds": kinds})
				hungOnce = true
				break
			}
			if pv != "" {
				violation("C12", "panic-interleaved", "interleaved readers: "+pv, M{"round": round, "kinds": kinds})
				break
			}
		}
		if hungOnce {
			break // a goroutine is still spinning inside the package; nothing further can be trusted
		}
		for _, o := range owners {
			if o.held != nil {
				o.sr.Release(o.held)
			}
		}
		for _, h := range hand {
			idr.RemoveAndReleaseTree(h)
		}
	}
	// acquisitions racing on many goroutines: every acquisition must carry an ID no other acquisition in the process
	// carries (the tracker sees every get under its own lock), and no node may be handed to two owners
	if !hungOnce {
		old := runtime.GOMAXPROCS(8)
		var wg sync.WaitGroup
		for g := 0; g < 8; g++ {
			wg.Add(1)
			go func(g int) {
				defer wg.Done()
				for k := 0; k < 4000*nmut; k++ {
					root := idr.CreateNode(idr.ElementNode, "r")
					idr.AddChild(root, idr.CreateNode(idr.TextNode, "t"))
					if k%3 == 0 {
						idr.AddChild(root, idr.CreateNode(idr.ElementNode, "e"))
					}
					idr.RemoveAndReleaseTree(root)
				}
			}(g)
		}
		wg.Wait()
		// ... and acquisitions that are all fresh: every goroutine keeps what it gets until all are done
		for round := 0; round < 3*nmut; round++ {
			idr.VerifResetNodePool()
			held := make([][]*idr.Node, 8)
			for g := 0; g < 8; g++ {
				wg.Add(1)
				go func(g int) {
					defer wg.Done()
					for k := 0; k < 3000; k++ {
						held[g] = append(held[g], idr.CreateNode(idr.ElementNode, fmt.Sprintf("g%d-%d", g, k)))
					}
				}(g)
			}
			wg.Wait()
			seen := map[*idr.Node]string{}
			for g := range held {
				for k, n := range held[g] {
					want := fmt.Sprintf("g%d-%d", g, k)
					if prev, dup := seen[n]; dup && len(pt.errs) < 40 {
						pt.errs = append(pt.errs, fmt.Sprintf("the same node %p was handed to two owners while both held it (%s and %s)", n, prev, want))
					}
					seen[n] = want
					if n.Data != want && len(pt.errs) < 40 {
						pt.errs = append(pt.errs, fmt.Sprintf("node %p changed under its owner: acquired as %s, now %q", n, want, n.Data))
					}
				}
			}
			for g := range held {
				for _, n := range held[g] {
					idr.RemoveAndReleaseTree(n)
				}
			}
		}
		runtime.GOMAXPROCS(old)
		sum.eval(true, M{"racing": 8})
	}
	for i, e := range pt.errs {
		if i < 20 {
			violation("C12", "pool-ownership", e, M{})
		}
	}
	sum.inc("pool_gets", pt.gets)
	sum.inc("pool_puts", pt.puts)
	if len(events) > 0 {
		sum.sample(events[0])
	}
	mustWriteNDJSON(outPath, events)
	sum.done()
	_ = transformctx.Ctx{}
	_ = rand.Int
	return 0
}

func init() {
	cmds["c12-words"] = c12Words
	cmds["c12-readers"] = c12Readers
}
