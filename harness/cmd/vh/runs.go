package main

import (
	"bytes"
	"crypto/sha1"
	"encoding/hex"
	"errors"
	"fmt"
	"io"
	"regexp"
	"strings"

	"github.com/jf-tech/omniparser"
)

// ---- delivery schedules: an io.Reader that hands out the same bytes in caller-chosen pieces

type chunkReader struct {
	data     []byte
	pos      int
	sizes    []int // sizes[i] = bytes delivered by the i-th Read (0 = an empty read); cycles when exhausted
	i        int
	eofWith  bool // return io.EOF together with the last bytes
	failAt   int  // -1: never; otherwise once pos reaches failAt the reader fails
	failErr  error
	trans    int // number of transient failures before the persistent one (each followed by a retry opportunity)
	failures int
	log      []int
}

func (c *chunkReader) Read(p []byte) (int, error) {
	if c.failAt >= 0 && c.pos >= c.failAt {
		c.failures++
		return 0, c.failErr
	}
	if c.pos >= len(c.data) {
		return 0, io.EOF
	}
	n := len(p)
	if len(c.sizes) > 0 {
		n = c.sizes[c.i%len(c.sizes)]
		c.i++
	}
	if n > len(p) {
		n = len(p)
	}
	if rem := len(c.data) - c.pos; n > rem {
		n = rem
	}
	if c.failAt >= 0 && c.pos+n > c.failAt {
		n = c.failAt - c.pos
	}
	copy(p, c.data[c.pos:c.pos+n])
	c.pos += n
	c.log = append(c.log, n)
	if c.eofWith && c.pos >= len(c.data) && c.failAt < 0 {
		return n, io.EOF
	}
	return n, nil
}

var errInjected = errors.New("injected I/O failure")

// ---- transcripts as fingerprint sequences

var jsonLineRe = regexp.MustCompile(`before/near line \d+`)

func fpRes(r Res, mode string) string {
	h := func(s string) string {
		x := sha1.Sum([]byte(s))
		return hex.EncodeToString(x[:6])
	}
	switch mode {
	case "classout": // C10 / C16: positions and line numbers inside messages legitimately move
		return r.Class + "|" + h(r.Out)
	case "class":
		return r.Class
	default:
		// the JSON reader's line number is LineCountingReader.AtLine(): a count of newlines *fetched*
		// from the source, documented as rough and hence legitimately read-ahead dependent
		e := jsonLineRe.ReplaceAllString(r.Err, "before/near line N")
		return r.Class + "|" + h(r.Out) + "|" + h(e) + "|" + r.Sum
	}
}

func fpAll(o RunOutcome, mode string) []string {
	out := []string{}
	if o.SchemaErr != "" {
		return []string{"schema-error"}
	}
	if o.NewTrErr != "" {
		return []string{"newtransform-error|" + o.NewTrErr}
	}
	for _, r := range o.Results {
		out = append(out, fpRes(r, mode))
	}
	if o.Panic != "" {
		out = append(out, "PANIC")
	}
	if o.Timeout {
		out = append(out, "TIMEOUT")
	}
	if o.Unbounded {
		out = append(out, "UNBOUNDED")
	}
	return out
}

func transcriptOf(sch omniparser.Schema, r io.Reader, maxReads int) RunOutcome {
	return runTranscript(sch, r, RunOpts{MaxReads: maxReads})
}

// ---- corpus for the multi-run properties: every built-in format, three encodings, with and without BOM

type corpusItem struct {
	Name   string
	Format string
	Schema []byte
	Input  []byte
	Ext    map[string]string // external properties of the run (part of what the result is a function of)
	// mk, if set, builds the Schema (with the item's own Extension) when the item first runs: what building an
	// Extension does to the process is part of the history of whatever runs afterwards, not of what ran before
	mk  func() (omniparser.Schema, error)
	sch omniparser.Schema
}

// runItem transforms an item's input (or the same bytes through another reader) with the item's external properties
func runItem(it *corpusItem, r io.Reader) RunOutcome {
	if r == nil {
		r = bytes.NewReader(it.Input)
	}
	if it.sch == nil && it.mk != nil {
		sch, err := it.mk()
		if err != nil {
			return RunOutcome{NewTrErr: "schema: " + err.Error()}
		}
		it.sch = sch
	}
	return runTranscript(it.sch, r, RunOpts{MaxReads: 100000, Ext: it.Ext})
}

func withEncoding(schema []byte, enc string) []byte {
	s := string(schema)
	i := strings.Index(s, `"file_format_type"`)
	if i < 0 {
		return schema
	}
	return []byte(s[:i] + `"encoding": "` + enc + `", ` + s[i:])
}

// highBytes: replace some ASCII letters of the payload by bytes >= 0x80 (valid in the single-byte code pages)
func highBytes(in []byte) []byte {
	out := append([]byte{}, in...)
	rep := map[byte]byte{'e': 0xE9, 'o': 0xF6, 'u': 0xFC, 'E': 0xC9, 'n': 0xF1}
	cnt := 0
	for i, b := range out {
		if r, ok := rep[b]; ok && cnt%3 == 0 {
			// keep structural text intact: only touch bytes inside values, i.e. preceded by a letter
			if i > 0 && ((out[i-1] >= 'a' && out[i-1] <= 'z') || (out[i-1] >= 'A' && out[i-1] <= 'Z')) {
				out[i] = r
			}
		}
		if _, ok := rep[b]; ok {
			cnt++
		}
	}
	return out
}

func multiRunCorpus(includeBig bool) ([]*corpusItem, error) {
	var items []*corpusItem
	for _, s := range append(append(miniSamples(), generatedSamples()...), repoSamples()...) {
		if !includeBig && len(s.Input) > 6000 && !strings.HasPrefix(s.Name, "gen/") {
			continue
		}
		items = append(items, &corpusItem{Name: s.Name, Format: s.Format, Schema: s.Schema, Input: s.Input})
	}
	// encodings and BOM on the compact schemas
	for _, s := range miniSamples() {
		bom := append([]byte{0xEF, 0xBB, 0xBF}, s.Input...)
		items = append(items, &corpusItem{Name: s.Name + "+bom", Format: s.Format, Schema: s.Schema, Input: bom})
		if s.Format == "xml" || s.Format == "json" {
			continue // the XML/JSON decoders do their own charset handling; single-byte payloads are exercised in C18
		}
		for _, enc := range []string{"iso-8859-1", "windows-1252"} {
			items = append(items, &corpusItem{Name: s.Name + "+" + enc, Format: s.Format, Schema: withEncoding(s.Schema, enc), Input: highBytes(s.Input)})
		}
	}
	for _, it := range items {
		sch, err, p := newSchema(it.Schema)
		if err != nil || p != "" {
			return nil, fmt.Errorf("corpus schema %s rejected: %v %s", it.Name, err, p)
		}
		it.sch = sch
	}
	return items, nil
}
