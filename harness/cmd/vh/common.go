package main

import (
	"bufio"
	"crypto/sha1"
	"encoding/hex"
	"encoding/json"
	"fmt"
	"io"
	"io/ioutil"
	"math/rand"
	"os"
	"path/filepath"
	"sort"
	"strconv"
	"strings"
	"sync"
	"time"

	"github.com/jf-tech/omniparser"
	"github.com/jf-tech/omniparser/errs"
	"github.com/jf-tech/omniparser/transformctx"
)

var outMu sync.Mutex
var stdout = bufio.NewWriterSize(os.Stdout, 1<<20)

// emit writes one JSON line to stdout (the protocol between vh and bin/check).
func emit(v interface{}) {
	b, err := json.Marshal(v)
	if err != nil {
		fmt.Fprintln(os.Stderr, "emit:", err)
		os.Exit(3)
	}
	outMu.Lock()
	stdout.Write(b)
	stdout.WriteByte('\n')
	outMu.Unlock()
}

func flush() { outMu.Lock(); stdout.Flush(); outMu.Unlock() }

func seedEnv() int64 {
	s, err := strconv.ParseInt(os.Getenv("VERIF_SEED"), 10, 64)
	if err != nil {
		return 1
	}
	return s
}

func repoDir() string {
	if d := os.Getenv("VERIF_REPO"); d != "" {
		return d
	}
	return "/repo"
}

func hashOf(v interface{}) string {
	b, _ := json.Marshal(v)
	h := sha1.Sum(b)
	return hex.EncodeToString(h[:8])
}

type M = map[string]interface{}

// Summary is what every subcommand reports at the end.
type Summary struct {
	Kind        string                 `json:"kind"`
	Evaluations int                    `json:"evaluations"`
	Nontrivial  []string               `json:"nontrivial_hashes"`
	Traces      int                    `json:"traces"`
	Samples     []interface{}          `json:"samples"`
	Extra       map[string]interface{} `json:"extra,omitempty"`
	nt          map[string]bool
	mu          sync.Mutex
}

func newSummary() *Summary {
	return &Summary{Kind: "summary", nt: map[string]bool{}, Extra: map[string]interface{}{}}
}
func (s *Summary) eval(nontrivial bool, key interface{}) {
	s.mu.Lock()
	s.Evaluations++
	if nontrivial {
		s.nt[hashOf(key)] = true
	}
	s.mu.Unlock()
}
func (s *Summary) sample(v interface{}) {
	s.mu.Lock()
	if len(s.Samples) < 3 {
		s.Samples = append(s.Samples, v)
	}
	s.mu.Unlock()
}
func (s *Summary) inc(k string, n int) {
	s.mu.Lock()
	if v, ok := s.Extra[k].(int); ok {
		s.Extra[k] = v + n
	} else {
		s.Extra[k] = n
	}
	s.mu.Unlock()
}
func (s *Summary) done() {
	for k := range s.nt {
		s.Nontrivial = append(s.Nontrivial, k)
	}
	sort.Strings(s.Nontrivial)
	emit(s)
	flush()
}

func violation(prop, key string, summary string, detail M) {
	d := M{"kind": "violation", "property": prop, "key": key, "summary": summary}
	for k, v := range detail {
		d[k] = v
	}
	emit(d)
}

// -------------------------------------------------------------------------------------------------
// Transcripts: the observable result stream of a Transform.

// Res is one Read result.
type Res struct {
	Class string `json:"class"` // ok | failed | eof | fatal
	Out   string `json:"out,omitempty"`
	Err   string `json:"err,omitempty"`
	Sum   string `json:"sum,omitempty"`
}

type omniTransform = omniparser.Transform

// RunOpts configures a transcript run.
type RunOpts struct {
	MaxReads  int
	Exts      []omniparser.Extension
	Ext       map[string]string // external properties
	PerCall   time.Duration     // watchdog per call (0: none)
	AfterRead func(tr omniparser.Transform, r Res)
	ExtraTail int // number of extra Reads issued after the terminal result
}

// RunOutcome is a transcript plus the abnormal ends C03 looks for.
type RunOutcome struct {
	SchemaErr string `json:"schema_err,omitempty"`
	NewTrErr  string `json:"newtr_err,omitempty"`
	Results   []Res  `json:"results"`
	Panic     string `json:"panic,omitempty"`
	Timeout   bool   `json:"timeout,omitempty"`
	Unbounded bool   `json:"unbounded,omitempty"` // MaxReads reached without a terminal result
}

func classify(err error) string {
	switch {
	case err == nil:
		return "ok"
	case err == io.EOF:
		return "eof"
	case errs.IsErrTransformFailed(err):
		return "failed"
	default:
		return "fatal"
	}
}

// guarded runs f with recover and an optional watchdog.
func guarded(d time.Duration, f func()) (panicked string, timedOut bool) {
	if d == 0 {
		func() {
			defer func() {
				if r := recover(); r != nil {
					panicked = fmt.Sprint(r)
				}
			}()
			f()
		}()
		return
	}
	done := make(chan string, 1)
	go func() {
		defer func() {
			if r := recover(); r != nil {
				done <- fmt.Sprint(r)
				return
			}
			done <- ""
		}()
		f()
	}()
	select {
	case p := <-done:
		return p, false
	case <-time.After(d):
		return "", true
	}
}

func newSchema(schema []byte, exts ...omniparser.Extension) (s omniparser.Schema, err error, panicked string) {
	panicked, _ = guarded(0, func() {
		s, err = omniparser.NewSchema("schema", strings.NewReader(string(schema)), exts...)
	})
	return
}

// runTranscript drives the documented read loop over (schema, input).
func runTranscript(sch omniparser.Schema, input io.Reader, o RunOpts) RunOutcome {
	var out RunOutcome
	if o.MaxReads == 0 {
		o.MaxReads = 100000
	}
	var tr omniparser.Transform
	var err error
	p, to := guarded(o.PerCall, func() {
		tr, err = sch.NewTransform("input", input, &transformctx.Ctx{ExternalProperties: o.Ext})
	})
	if p != "" || to {
		out.Panic, out.Timeout = p, to
		return out
	}
	if err != nil {
		out.NewTrErr = err.Error()
		return out
	}
	tail := -1
	for i := 0; i < o.MaxReads; i++ {
		var b []byte
		var r Res
		p, to := guarded(o.PerCall, func() {
			b, err = tr.Read()
			r = Res{Class: classify(err)}
			if err != nil {
				r.Err = err.Error()
			} else {
				r.Out = string(b)
				rr, e2 := tr.RawRecord()
				if e2 == nil {
					r.Sum = rr.Checksum()
				} else {
					r.Sum = "ERR:" + e2.Error()
				}
			}
		})
		if p != "" || to {
			out.Panic, out.Timeout = p, to
			return out
		}
		if err != nil && b != nil {
			r.Err += " [non-nil bytes with error]"
		}
		out.Results = append(out.Results, r)
		if o.AfterRead != nil {
			o.AfterRead(tr, r)
		}
		if r.Class == "eof" || r.Class == "fatal" {
			if tail < 0 {
				tail = o.ExtraTail
			}
			if tail == 0 {
				return out
			}
			tail--
		}
	}
	out.Unbounded = true
	return out
}

// -------------------------------------------------------------------------------------------------
// Corpus: the repository's samples plus the harness's own compact schemas.

type Sample struct {
	Name   string
	Format string
	Schema []byte
	Input  []byte
}

func repoSamples() []Sample {
	var out []Sample
	base := filepath.Join(repoDir(), "extensions/omniv21/samples")
	for _, f := range []string{"csv", "csv2", "edi", "fixedlength", "fixedlength2", "json", "xml"} {
		ms, _ := filepath.Glob(filepath.Join(base, f, "*.schema.json"))
		sort.Strings(ms)
		for _, m := range ms {
			stem := strings.TrimSuffix(m, ".schema.json")
			ins, _ := filepath.Glob(stem + ".input.*")
			if len(ins) != 1 {
				continue
			}
			sb, e1 := ioutil.ReadFile(m)
			ib, e2 := ioutil.ReadFile(ins[0])
			if e1 != nil || e2 != nil {
				continue
			}
			out = append(out, Sample{Name: f + "/" + filepath.Base(stem), Format: f, Schema: sb, Input: ib})
		}
	}
	return out
}

func rng(extra int64) *rand.Rand { return rand.New(rand.NewSource(seedEnv()*1000003 + extra)) }

func readLines(path string, fn func(line []byte) error) error {
	f, err := os.Open(path)
	if err != nil {
		return err
	}
	defer f.Close()
	r := bufio.NewReaderSize(f, 1<<20)
	for {
		line, err := r.ReadBytes('\n')
		if len(strings.TrimSpace(string(line))) > 0 {
			if e := fn(line); e != nil {
				return e
			}
		}
		if err != nil {
			if err == io.EOF {
				return nil
			}
			return err
		}
	}
}

func mustWriteNDJSON(path string, recs []interface{}) {
	f, err := os.Create(path)
	if err != nil {
		fmt.Fprintln(os.Stderr, err)
		os.Exit(3)
	}
	w := bufio.NewWriter(f)
	for _, r := range recs {
		b, _ := json.Marshal(r)
		w.Write(b)
		w.WriteByte('\n')
	}
	w.Flush()
	f.Close()
}
