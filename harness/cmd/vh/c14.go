package main

import (
	"encoding/json"
	"fmt"
	"github.com/jf-tech/omniparser"
	"sync"
	"sync/atomic"

	"github.com/jf-tech/omniparser/idr"
)

// C14: G goroutines, each driving its own Transform over the same or different Schemas, must obtain the transcripts
// of the serial run; the binary is built with -race (a detected race is a violation, reported by bin/check from GORACE's log).

type poolLog struct {
	mu     sync.Mutex
	ptrs   map[*idr.Node]int
	events []interface{}
	seq    int64
	limit  int
}

func (p *poolLog) hook(ev string, n *idr.Node) {
	s := atomic.AddInt64(&p.seq, 1)
	p.mu.Lock()
	if len(p.events) < p.limit {
		id, ok := p.ptrs[n]
		if !ok {
			id = len(p.ptrs) + 1
			p.ptrs[n] = id
		}
		p.events = append(p.events, M{"ev": ev, "p": id, "id": n.ID, "seq": s, "tr": 1})
	}
	p.mu.Unlock()
}

// c14-drive <out.ndjson> <pool.ndjson> <G> <rounds>
func c14Drive(args []string) int {
	G, rounds := 8, 3
	if len(args) > 2 {
		fmt.Sscanf(args[2], "%d", &G)
	}
	if len(args) > 3 {
		fmt.Sscanf(args[3], "%d", &rounds)
	}
	items, err := c13Corpus()
	if err != nil {
		fmt.Println("error:", err)
		return 3
	}
	sum := newSummary()
	// "the results they would obtain running alone": for the items named in the file of the fifth argument, the transcript
	// of a process that ran nothing but that item; for the others, the serial run at the start of this process
	alone := map[string][]string{}
	if len(args) > 4 {
		readLines(args[4], func(line []byte) error {
			var x struct {
				Item    string   `json:"item"`
				Results []string `json:"results"`
			}
			if json.Unmarshal(line, &x) == nil && x.Item != "" {
				alone[x.Item] = x.Results
			}
			return nil
		})
	}
	golden := make([][]string, len(items))
	for i, it := range items {
		golden[i] = fpAll(runItem(it, nil), "full")
		if a, ok := alone[it.Name]; ok {
			golden[i] = a
		}
	}
	sum.inc("goldens_from_a_process_of_their_own", len(alone))
	var events []interface{}
	for i, it := range items {
		events = append(events, M{"ev": "golden", "tr": i + 1, "item": it.Name, "results": golden[i]})
	}
	pl := &poolLog{ptrs: map[*idr.Node]int{}, limit: 40000}
	idr.VerifResetNodePool()
	idr.VerifNodeHook = pl.hook
	var mu sync.Mutex
	record := func(phase string, g, i int, fp []string) {
		mu.Lock()
		events = append(events, M{"ev": "same", "tr": i + 1, "item": items[i].Name, "results": fp, "phase": phase, "goroutine": g})
		sum.Traces++
		mu.Unlock()
		sum.eval(true, M{"p": phase, "g": g, "i": i})
	}
	r := rng(1414)
	for round := 0; round < rounds; round++ {
		// fresh Schema objects for every round: their first use is concurrent (a schema runtime that is completed lazily
		// on first use would be warmed, and the lazy write hidden, by the serial golden run above)
		fresh := make([]*corpusItem, len(items))
		// (items with the same schema bytes share one fresh Schema object, as they do in the corpus: runs with different
		// external properties on one Schema)
		mkFresh := func() bool {
			byText := map[string]omniparser.Schema{}
			for i, it := range items {
				key := string(it.Schema)
				if it.mk != nil {
					key = it.Name + "\x00" + key // an item with an Extension of its own never shares a Schema
				}
				sch := byText[key]
				if sch == nil {
					var e error
					var p string
					if it.mk != nil {
						sch, e = it.mk()
					} else {
						sch, e, p = newSchema(it.Schema)
					}
					if e != nil || p != "" {
						fmt.Println("error: schema", it.Name, e, p)
						return false
					}
					byText[key] = sch
				}
				fresh[i] = &corpusItem{Name: it.Name, Format: it.Format, Schema: it.Schema, Input: it.Input, Ext: it.Ext, sch: sch}
			}
			return true
		}
		if !mkFresh() {
			return 3
		}
		// same schema: for every item in turn, all goroutines start their first transform over one fresh Schema at once
		var wg sync.WaitGroup
		_ = r
		for same := range items {
			start := make(chan struct{})
			for g := 0; g < G; g++ {
				wg.Add(1)
				go func(g, same int) {
					defer wg.Done()
					<-start
					record("same-schema", g, same, fpAll(runItem(fresh[same], nil), "full"))
				}(g, same)
			}
			close(start)
			wg.Wait()
		}
		// and once more on schemas that were never used before, for the mixed phase
		if !mkFresh() {
			return 3
		}
		// different schemas: every goroutine walks the corpus from its own offset
		start2 := make(chan struct{})
		for g := 0; g < G; g++ {
			wg.Add(1)
			go func(g int) {
				defer wg.Done()
				<-start2
				for k := 0; k < len(items); k++ {
					i := (g/2*7 + k + round) % len(items) // pairs of goroutines meet on the same fresh schema at the same time
					record("mixed-schemas", g, i, fpAll(runItem(fresh[i], nil), "full"))
				}
			}(g)
		}
		close(start2)
		wg.Wait()
	}
	idr.VerifNodeHook = nil
	// order events of one family together (golden first) for the trace specification
	byTr := map[int][]interface{}{}
	var order []int
	for _, e := range events {
		t := e.(M)["tr"].(int)
		if _, ok := byTr[t]; !ok {
			order = append(order, t)
		}
		byTr[t] = append(byTr[t], e)
	}
	var sorted []interface{}
	for _, t := range order {
		sorted = append(sorted, byTr[t]...)
	}
	mustWriteNDJSON(args[0], sorted)
	// pool events in the order of their global sequence numbers
	pe := pl.events
	for a := 1; a < len(pe); a++ { // insertion sort is fine: nearly sorted
		for b := a; b > 0 && pe[b].(M)["seq"].(int64) < pe[b-1].(M)["seq"].(int64); b-- {
			pe[b], pe[b-1] = pe[b-1], pe[b]
		}
	}
	mustWriteNDJSON(args[1], pe)
	sum.inc("pool_events", len(pe))
	sum.inc("goroutines", G)
	sum.sample(M{"goroutines": G, "rounds": rounds, "items": len(items)})
	sum.done()
	return 0
}

// c13-names: the names of the multi-run corpus
func c13Names(args []string) int {
	items, err := c13Corpus()
	if err != nil {
		fmt.Println("error:", err)
		return 3
	}
	var names []string
	for _, it := range items {
		names = append(names, it.Name)
	}
	emit(M{"kind": "names", "names": names})
	flush()
	return 0
}

func init() {
	cmds["c14-drive"] = c14Drive
	cmds["c13-names"] = c13Names
}
