package main

import (
	"encoding/json"
	"fmt"
	"sort"
	"strings"
	"unicode/utf8"

	"github.com/jf-tech/omniparser"
	"github.com/jf-tech/omniparser/idr"
	"github.com/jf-tech/omniparser/transformctx"
)

type flDecl struct {
	Kind   string `json:"kind"`
	Rows   int    `json:"rows"`
	Footer bool   `json:"footer"`
	Pre    bool   `json:"pre,omitempty"` // a leading declaration: header ^H .. footer ^F, min 0, max 1, same columns
}
type flCol struct {
	Idx int    `json:"idx"`
	Li  int    `json:"li"`
	Lp  string `json:"lp"`
}
type c06Case struct {
	Lines [][]string        `json:"lines"`
	Decl  flDecl            `json:"decl"`
	Cols  []flCol           `json:"cols"`
	Recs  [][][]interface{} `json:"recs"` // record -> [[colPos, valueSymbol], ...]
	End   string            `json:"end"`
	Nt    bool              `json:"nt"`
	Prem  bool              `json:"prem"` // the first expected record is an instance of the leading declaration
}

// payload renderings of the field symbols
type flPayload struct {
	name string
	m    map[string]string
}

func flPayloads(delim string) []flPayload {
	long := strings.Repeat("L0ng-é", 900)  // > 4096 bytes
	huge := strings.Repeat("hu9e世", 14000) // > 65536 bytes
	return []flPayload{
		{"plain", map[string]string{"a": "x1", "b": "y2", "H": "H1", "F": "F9"}},
		{"rich", map[string]string{"a": ` q"uo` + delim + `te `, "b": "multi\nline é世\t", "H": "H" + delim + `"`, "F": "F é"}},
		{"long", map[string]string{"a": long, "b": " " + long + " ", "H": "H" + long, "F": "F"}},
		{"huge", map[string]string{"a": huge, "b": "b", "H": "H", "F": "F" + huge}},
		{"rdq", map[string]string{"a": `x"1`, "b": `"y" z`, "H": `H"`, "F": `F""f`}},
	}
}

// c06RDQ: the "replace_double_quotes" rendering - the schema option is on, fields are written raw (a double quote is an
// ordinary character of the input) and every double quote arrives as a single quote
var c06RDQ = false

func csvQuote(f, delim string) string {
	if f == "" || c06RDQ {
		return f
	}
	if strings.ContainsAny(f, "\"\r\n") || strings.Contains(f, delim) || strings.HasPrefix(f, " ") {
		return `"` + strings.ReplaceAll(f, `"`, `""`) + `"`
	}
	return f
}

func renderCSV(lines [][]string, p flPayload, delim string, crlf bool, lastTerminated bool) string {
	var sb strings.Builder
	for i, ln := range lines {
		var fs []string
		for _, f := range ln {
			fs = append(fs, csvQuote(p.m[f], delim))
		}
		sb.WriteString(strings.Join(fs, delim))
		if i == len(lines)-1 && !lastTerminated && len(ln) > 0 {
			break
		}
		if crlf {
			sb.WriteString("\r\n")
		} else {
			sb.WriteString("\n")
		}
	}
	return sb.String()
}

func csv2Schema(c *c06Case, delim string) string {
	var cols []string
	for k, col := range c.Cols {
		s := fmt.Sprintf(`{"name": "c%d", "index": %d`, k+1, col.Idx)
		if col.Li != 0 {
			s += fmt.Sprintf(`, "line_index": %d`, col.Li)
		}
		if col.Lp != "" {
			s += `, "line_pattern": "^` + col.Lp + `"`
		}
		cols = append(cols, s+"}")
	}
	rec := `"name": "R", `
	if c.Decl.Kind == "rows" {
		rec += fmt.Sprintf(`"rows": %d`, c.Decl.Rows)
	} else {
		rec += `"header": "^H"`
		if c.Decl.Footer {
			rec += `, "footer": "^F"`
		}
	}
	pre := ""
	if c.Decl.Pre {
		pre = `{"name": "P", "header": "^H", "footer": "^F", "min": 0, "max": 1, "columns": [` + strings.Join(cols, ", ") + `]}, `
	}
	rdq := ""
	if c06RDQ {
		rdq = `"replace_double_quotes": true, `
	}
	return `{"parser_settings": {"version": "omni.2.1", "file_format_type": "csv2"},
 "file_declaration": {` + rdq + `"delimiter": ` + jstr(delim) + `, "records": [` + pre + `{` + rec + `, "is_target": true, "columns": [` + strings.Join(cols, ", ") + `]}]},
 "transform_declarations": {"FINAL_OUTPUT": {"object": {"x": {"const": "1"}}}}}`
}

// csv2SchemaNested: the same record declaration as the child of a column-bearing parent record W (one W line is put in
// front of the input), its columns written without "index" wherever the index is the documented default (the previous
// column's index + 1, 1 for the first column of a record)
func csv2SchemaNested(c *c06Case, delim string) string {
	var cols []string
	prev := 0
	for k, col := range c.Cols {
		s := fmt.Sprintf(`{"name": "c%d"`, k+1)
		if col.Idx != prev+1 {
			s += fmt.Sprintf(`, "index": %d`, col.Idx)
		}
		prev = col.Idx
		if col.Li != 0 {
			s += fmt.Sprintf(`, "line_index": %d`, col.Li)
		}
		if col.Lp != "" {
			s += `, "line_pattern": "^` + col.Lp + `"`
		}
		cols = append(cols, s+"}")
	}
	rec := `"name": "R", `
	if c.Decl.Kind == "rows" {
		rec += fmt.Sprintf(`"rows": %d`, c.Decl.Rows)
	} else {
		rec += `"header": "^H"`
		if c.Decl.Footer {
			rec += `, "footer": "^F"`
		}
	}
	rdq := ""
	if c06RDQ {
		rdq = `"replace_double_quotes": true, `
	}
	return `{"parser_settings": {"version": "omni.2.1", "file_format_type": "csv2"},
 "file_declaration": {` + rdq + `"delimiter": ` + jstr(delim) + `, "records": [{"name": "W", "header": "^W", "columns": [{"name": "w1", "index": 2}, {"name": "w2"}, {"name": "w4", "index": 5}],
   "child_records": [{` + rec + `, "is_target": true, "columns": [` + strings.Join(cols, ", ") + `]}]}]},
 "transform_declarations": {"FINAL_OUTPUT": {"object": {"x": {"const": "1"}}}}}`
}

const flW = 6 // field width (runes) of the fixed-length renderings

func padRunes(s string, w int) string {
	n := utf8.RuneCountInString(s)
	if n > w {
		r := []rune(s)
		return string(r[:w])
	}
	return s + strings.Repeat(" ", w-n)
}

// two renderings: multi-byte runes in the data cells, or in the marker cells with pure-ASCII data cells after them (a
// byte-indexed slice of an ASCII cell looks plausible there)
var fixedPayloadAlt = false
var fixedPayloadBlank = false // the data cell b is all blanks: a line made of it is a line, not an empty line

func fixedPayload() flPayload {
	if fixedPayloadBlank {
		return flPayload{"fixed-blank-cell", map[string]string{"a": "a1", "b": "   ", "H": "H1", "F": "F2"}}
	}
	if fixedPayloadAlt {
		return flPayload{"fixed-ascii-after-multibyte", map[string]string{"a": "a\uFFFDx", "b": "b 9", "H": "Hé世🙂", "F": "Fé"}}
	}
	return flPayload{"fixed", map[string]string{"a": "é世 x", "b": " b🙂", "H": "H\uFFFDé", "F": "F\uFFFD"}}
}

func renderFixed(lines [][]string, p flPayload, crlf, lastTerminated bool) string {
	var sb strings.Builder
	for i, ln := range lines {
		for _, f := range ln {
			sb.WriteString(padRunes(p.m[f], flW))
		}
		if i == len(lines)-1 && !lastTerminated && len(ln) > 0 {
			break
		}
		if crlf {
			sb.WriteString("\r\n")
		} else {
			sb.WriteString("\n")
		}
	}
	return sb.String()
}

func fixed2Schema(c *c06Case) string {
	var cols []string
	for k, col := range c.Cols {
		s := fmt.Sprintf(`{"name": "c%d", "start_pos": %d, "length": %d`, k+1, (col.Idx-1)*flW+1, flW)
		if col.Li != 0 {
			s += fmt.Sprintf(`, "line_index": %d`, col.Li)
		}
		if col.Lp != "" {
			s += `, "line_pattern": "^` + col.Lp + `"`
		}
		cols = append(cols, s+"}")
	}
	rec := `"name": "R", `
	if c.Decl.Kind == "rows" {
		rec += fmt.Sprintf(`"rows": %d`, c.Decl.Rows)
	} else {
		rec += `"header": "^H"`
		if c.Decl.Footer {
			rec += `, "footer": "^F"`
		}
	}
	pre := ""
	if c.Decl.Pre {
		pre = `{"name": "P", "header": "^H", "footer": "^F", "min": 0, "max": 1, "columns": [` + strings.Join(cols, ", ") + `]}, `
	}
	return `{"parser_settings": {"version": "omni.2.1", "file_format_type": "fixedlength2"},
 "file_declaration": {"envelopes": [` + pre + `{` + rec + `, "is_target": true, "columns": [` + strings.Join(cols, ", ") + `]}]},
 "transform_declarations": {"FINAL_OUTPUT": {"object": {"x": {"const": "1"}}}}}`
}

func fixedLegacySchema(c *c06Case) string {
	var cols []string
	for k, col := range c.Cols {
		s := fmt.Sprintf(`{"name": "c%d", "start_pos": %d, "length": %d`, k+1, (col.Idx-1)*flW+1, flW)
		if col.Lp != "" {
			s += `, "line_pattern": "^` + col.Lp + `"`
		}
		cols = append(cols, s+"}")
	}
	return fmt.Sprintf(`{"parser_settings": {"version": "omni.2.1", "file_format_type": "fixed-length"},
 "file_declaration": {"envelopes": [{"by_rows": %d, "columns": [%s]}]},
 "transform_declarations": {"FINAL_OUTPUT": {"object": {"x": {"const": "1"}}}}}`, c.Decl.Rows, strings.Join(cols, ", "))
}

func csvLegacySchema(delim string) string {
	rdq := ""
	if c06RDQ {
		rdq = `"replace_double_quotes": true, `
	}
	return `{"parser_settings": {"version": "omni.2.1", "file_format_type": "csv"},
 "file_declaration": {` + rdq + `"delimiter": ` + jstr(delim) + `, "data_row_index": 1, "columns": [{"name": "c1"}, {"name": "c2"}]},
 "transform_declarations": {"FINAL_OUTPUT": {"object": {"x": {"const": "1"}}}}}`
}

type obsRec [][2]string // [column name, value]

// runFlat drives a transform and returns the records' column values and the terminal class
func runFlat(sch omniparser.Schema, input string, maxReads int) (recs []obsRec, end string, detail string) {
	tr, err := sch.NewTransform("in", strings.NewReader(input), &transformctx.Ctx{})
	if err != nil {
		return nil, "newtransform", err.Error()
	}
	sawP := false
	for i := 0; i < maxReads; i++ {
		_, err := tr.Read()
		if err == nil {
			rr, e2 := tr.RawRecord()
			if e2 != nil {
				return recs, "rawrecord-error", e2.Error()
			}
			n := rr.Raw().(*idr.Node)
			toRec := func(n *idr.Node) obsRec {
				rec := obsRec{}
				for c := n.FirstChild; c != nil; c = c.NextSibling {
					if c.Type == idr.ElementNode {
						rec = append(rec, [2]string{c.Data, c.InnerText()})
					}
				}
				return rec
			}
			// an instance of the leading declaration "P" is not a target: it stays attached to the root, visible
			// from the first delivered record
			if n.Parent != nil && !sawP {
				for c := n.Parent.FirstChild; c != nil; c = c.NextSibling {
					if c.Type == idr.ElementNode && c.Data == "P" {
						recs = append(recs, toRec(c))
						sawP = true
					}
				}
			}
			recs = append(recs, toRec(n))
			continue
		}
		switch classify(err) {
		case "eof":
			return recs, "eof", ""
		case "fatal":
			return recs, "unexpected", err.Error()
		default:
			return recs, "nonfatal", err.Error()
		}
	}
	return recs, "unbounded", ""
}

func c06Replay(args []string) int {
	sum := newSummary()
	r := rng(606)
	nviol := 0
	schemas := map[string]omniparser.Schema{}
	getSchema := func(text string) (omniparser.Schema, error) {
		if s, ok := schemas[text]; ok {
			return s, nil
		}
		if len(schemas) > 5000 {
			schemas = map[string]omniparser.Schema{}
		}
		s, err, p := newSchema([]byte(text))
		if err != nil || p != "" {
			return nil, fmt.Errorf("%v %s", err, p)
		}
		schemas[text] = s
		return s, nil
	}
	report := func(key, format, input, schema string, exp interface{}, expEnd string, got []obsRec, end, detail string) {
		nviol++
		if nviol <= 40 {
			in := input
			if len(in) > 600 {
				in = in[:600] + fmt.Sprintf("...(%d bytes)", len(input))
			}
			violation("C06", key, fmt.Sprintf("%s: expected end=%s records=%.300v; got end=%s %s records=%.300v", format, expEnd, exp, end, detail, got),
				M{"format": format, "input": in, "schema": schema, "expected_end": expEnd, "end": end})
		}
	}
	var plSeen flPayload
	err := readLines(args[0], func(line []byte) error {
		var c c06Case
		if e := json.Unmarshal(line, &c); e != nil {
			return e
		}
		delims := []string{",", "|", "\t", ";", "¦", "→"}
		delim := delims[r.Intn(len(delims))]
		pls := flPayloads(delim)
		pi := r.Intn(10)
		if pi >= len(pls) {
			pi = pi % 2 // mostly plain / rich; long and huge payloads now and then
		}
		pl := pls[pi]
		if r.Intn(8) == 0 {
			pl = pls[len(pls)-1]
		}
		c06RDQ = pl.name == "rdq"
		if c06RDQ { // what the transform must see: every double quote as a single quote
			seen := map[string]string{}
			for k, v := range pl.m {
				seen[k] = strings.ReplaceAll(v, `"`, "'")
			}
			defer func() { c06RDQ = false }()
			plSeen = flPayload{"rdq", seen}
		} else {
			plSeen = pl
		}
		crlf, lastTerm := r.Intn(3) == 0, r.Intn(3) != 0
		fixedPayloadAlt = r.Intn(2) == 0
		fixedPayloadBlank = r.Intn(3) == 0
		expect := func(p flPayload, fixed bool) []obsRec {
			var out []obsRec
			for ri, rec := range c.Recs {
				if ri == 0 && c.Prem && len(c.Recs) == 1 {
					continue // nothing is delivered after the leading instance: it cannot be observed
				}
				var o obsRec
				for _, cv := range rec {
					v := p.m[cv[1].(string)]
					if fixed && cv[1].(string) != "" {
						v = padRunes(v, flW)
					}
					o = append(o, [2]string{fmt.Sprintf("c%d", int(cv[0].(float64))), v})
				}
				out = append(out, o)
			}
			return out
		}
		// the order of the column nodes inside a record carries no meaning: compare them sorted by column name
		norm := func(rs []obsRec) string {
			var out []string
			for _, rec := range rs {
				var cs []string
				for _, cv := range rec {
					cs = append(cs, cv[0]+"="+cv[1])
				}
				sort.Strings(cs)
				out = append(out, strings.Join(cs, "\x00"))
			}
			return strings.Join(out, "\x01")
		}
		same := func(a, b []obsRec) bool { return norm(a) == norm(b) }
		// --- csv2
		{
			input := renderCSV(c.Lines, pl, delim, crlf && pl.name != "rich", lastTerm)
			schema := csv2Schema(&c, delim)
			sch, e := getSchema(schema)
			if e != nil {
				return fmt.Errorf("csv2 schema rejected: %v\n%s", e, schema)
			}
			var got []obsRec
			var end, detail string
			pv, _ := guarded(0, func() { got, end, detail = runFlat(sch, input, len(c.Lines)+3) })
			exp := expect(plSeen, false)
			sum.eval(c.Nt || pl.name != "plain", M{"f": "csv2", "i": input[:min(len(input), 200)], "s": schema})
			if pv != "" || end != c.End || !same(got, exp) {
				report("csv2-"+pl.name, "csv2", input, schema, exp, c.End, got, end, detail+pv)
			}
		}
		// --- csv2, the declaration nested below a parent record, default column indexes left out
		if !c.Decl.Pre {
			input := "W" + delim + "w1" + delim + "w2" + delim + "w3" + delim + "w4\n" + renderCSV(c.Lines, pl, delim, crlf && pl.name != "rich", lastTerm)
			schema := csv2SchemaNested(&c, delim)
			sch, e := getSchema(schema)
			if e != nil {
				return fmt.Errorf("csv2 schema (nested) rejected: %v\n%s", e, schema)
			}
			var got []obsRec
			var end, detail string
			pv, _ := guarded(0, func() { got, end, detail = runFlat(sch, input, len(c.Lines)+4) })
			exp := expect(plSeen, false)
			sum.eval(c.Nt || pl.name != "plain", M{"f": "csv2-nested", "i": input[:min(len(input), 200)], "s": schema})
			if pv != "" || end != c.End || !same(got, exp) {
				report("csv2-nested-"+pl.name, "csv2 (nested below a parent record, default indexes)", input, schema, exp, c.End, got, end, detail+pv)
			}
		}
		// --- fixedlength2 (fields are fixed-width cells of multi-byte runes)
		{
			fp := fixedPayload()
			input := renderFixed(c.Lines, fp, crlf, lastTerm)
			schema := fixed2Schema(&c)
			sch, e := getSchema(schema)
			if e != nil {
				return fmt.Errorf("fixedlength2 schema rejected: %v\n%s", e, schema)
			}
			var got []obsRec
			var end, detail string
			pv, _ := guarded(0, func() { got, end, detail = runFlat(sch, input, len(c.Lines)+3) })
			exp := expect(fp, true)
			sum.eval(c.Nt, M{"f": "fixedlength2", "i": input, "s": schema})
			if pv != "" || end != c.End || !same(got, exp) {
				report("fixedlength2", "fixedlength2", input, schema, exp, c.End, got, end, detail+pv)
			}
		}
		// --- legacy fixed-length: by_rows, line_pattern only
		noLi := true
		for _, col := range c.Cols {
			noLi = noLi && col.Li == 0
		}
		if c.Decl.Kind == "rows" && noLi && !c.Decl.Pre {
			fp := fixedPayload()
			input := renderFixed(c.Lines, fp, crlf, lastTerm)
			schema := fixedLegacySchema(&c)
			sch, e := getSchema(schema)
			if e != nil {
				return fmt.Errorf("fixed-length schema rejected: %v\n%s", e, schema)
			}
			var got []obsRec
			var end, detail string
			pv, _ := guarded(0, func() { got, end, detail = runFlat(sch, input, len(c.Lines)+3) })
			exp := expect(fp, true)
			sum.eval(c.Nt, M{"f": "fixed-length", "i": input, "s": schema})
			if pv != "" || end != c.End || !same(got, exp) {
				report("fixed-length", "fixed-length", input, schema, exp, c.End, got, end, detail+pv)
			}
		}
		// --- legacy csv: one row per record, columns by position; a column beyond the row yields nothing
		if c.Decl.Kind == "rows" && !c.Decl.Pre && c.Decl.Rows == 1 && len(c.Cols) == 2 && c.Cols[0] == (flCol{1, 0, ""}) && c.Cols[1] == (flCol{2, 0, ""}) {
			input := renderCSV(c.Lines, pl, delim, crlf && pl.name != "rich", lastTerm)
			schema := csvLegacySchema(delim)
			sch, e := getSchema(schema)
			if e != nil {
				return fmt.Errorf("csv schema rejected: %v\n%s", e, schema)
			}
			var exp []obsRec
			for _, ln := range c.Lines {
				if len(ln) == 0 {
					continue
				}
				var o obsRec
				for k, f := range ln {
					if k < 2 {
						o = append(o, [2]string{fmt.Sprintf("c%d", k+1), plSeen.m[f]})
					}
				}
				exp = append(exp, o)
			}
			var got []obsRec
			var end, detail string
			pv, _ := guarded(0, func() { got, end, detail = runFlat(sch, input, len(c.Lines)+3) })
			sum.eval(pl.name != "plain", M{"f": "csv", "i": input[:min(len(input), 200)]})
			if pv != "" || end != "eof" || !same(got, exp) {
				report("csv-"+pl.name, "csv", input, schema, exp, "eof", got, end, detail+pv)
			}
		}
		sum.sample(M{"lines": c.Lines, "decl": c.Decl, "cols": c.Cols, "expected": c.Recs})
		return nil
	})
	if err != nil {
		fmt.Println("error:", err)
		return 3
	}
	sum.inc("mismatches", nviol)
	sum.done()
	return 0
}

// ---- CsvSkip.tla cases on the real legacy csv reader: header_row_index / data_row_index as physical line numbers

type csvSkipCase struct {
	Items []string `json:"items"`
	H     int      `json:"h"`
	D     int      `json:"d"`
	Err   bool     `json:"err"`
	Recs  []int    `json:"recs"`
}

func c06CsvSkip(args []string) int {
	sum := newSummary()
	schemas := map[string]omniparser.Schema{}
	nviol := 0
	err := readLines(args[0], func(line []byte) error {
		var c csvSkipCase
		if e := json.Unmarshal(line, &c); e != nil {
			return e
		}
		hdr := ""
		if c.H > 0 {
			hdr = fmt.Sprintf(`"header_row_index": %d, `, c.H)
		}
		schema := fmt.Sprintf(`{"parser_settings": {"version": "omni.2.1", "file_format_type": "csv"},
 "file_declaration": {"delimiter": ",", %s"data_row_index": %d, "columns": [{"name": "c1"}, {"name": "c2"}]},
 "transform_declarations": {"FINAL_OUTPUT": {"object": {"id": {"xpath": "c1", "no_trim": true}}}}}`, hdr, c.D)
		sch := schemas[schema]
		if sch == nil {
			var e error
			var p string
			sch, e, p = newSchema([]byte(schema))
			if e != nil || p != "" {
				return fmt.Errorf("csv schema rejected: %v %s\n%s", e, p, schema)
			}
			schemas[schema] = sch
		}
		var in strings.Builder
		name := func(i int) string {
			switch c.Items[i-1] {
			case "H":
				return "c1"
			case "D":
				return fmt.Sprintf("d%d", i)
			case "J":
				return fmt.Sprintf("j%d", i)
			case "Q":
				return fmt.Sprintf("q%d\nmore", i)
			}
			return ""
		}
		for i, k := range c.Items {
			switch k {
			case "H":
				in.WriteString("c1,c2\n")
			case "E":
				in.WriteString("\n")
			case "Q":
				in.WriteString(`"` + name(i+1) + `",z` + "\n")
			default:
				in.WriteString(name(i+1) + ",x\n")
			}
		}
		out := runTranscript(sch, strings.NewReader(in.String()), RunOpts{MaxReads: len(c.Items) + 4})
		var got []string
		gotErr := out.NewTrErr != ""
		for _, r := range out.Results {
			switch r.Class {
			case "ok":
				var m struct{ ID string }
				json.Unmarshal([]byte(r.Out), &m)
				got = append(got, m.ID)
			case "eof":
			default:
				gotErr = true
			}
		}
		var want []string
		for _, i := range c.Recs {
			want = append(want, name(i))
		}
		sum.eval(len(c.Items) >= 2 && (c.H > 1 || c.D > 2), M{"c": c})
		if out.Panic != "" || gotErr != c.Err || (!c.Err && fmt.Sprint(got) != fmt.Sprint(want)) {
			nviol++
			if nviol <= 20 {
				violation("C06", "csv-row-index", fmt.Sprintf("legacy csv, header_row_index %d data_row_index %d, input %q: expected header error=%v records %q; got error=%v records %q %s",
					c.H, c.D, in.String(), c.Err, want, gotErr, got, out.Panic), M{"schema": schema, "input": in.String(), "case": c})
			}
		}
		return nil
	})
	if err != nil {
		fmt.Println("error:", err)
		return 3
	}
	sum.inc("mismatches", nviol)
	sum.done()
	return 0
}

func init() {
	cmds["c06-csvskip"] = c06CsvSkip
	cmds["c06-replay"] = c06Replay
}

// ---- B2: larger random tables; observed column values are mapped back to field symbols and TLC evaluates
// FlatLines!Ref / FlatLines!Run on the logged table.

func c06Drive(args []string) int {
	n := 40
	if len(args) > 1 {
		fmt.Sscanf(args[1], "%d", &n)
	}
	r := rng(607)
	sum := newSummary()
	var events []interface{}
	syms := []string{"a", "b", "c", "d", "e", "g", "H", "F"}
	for ti := 0; ti < n; ti++ {
		delim := []string{",", "|", "\t", "¦"}[r.Intn(4)]
		// a payload dictionary per table: distinct rich strings; H*/F* start with the marker letter
		pay := map[string]string{}
		rev := map[string]string{"": ""}
		pool := []string{"x", ` sp `, `q"t`, "d" + delim + "d", "nl\nnl", "é世🙂", strings.Repeat("w", 300+r.Intn(5000)), "tab\t", "'", "0"}
		for i, s := range syms {
			p := pool[(i+ti)%len(pool)] + fmt.Sprint(i)
			if s == "H" || s == "F" {
				p = s + p
			}
			pay[s] = p
			rev[p] = s
		}
		nl := 20 + r.Intn(60)
		var lines [][]string
		decl := []flDecl{{"rows", 1, false, false}, {"rows", 2, false, false}, {"rows", 3, false, false}, {"hf", 0, false, false}, {"hf", 0, true, false}}[r.Intn(5)]
		decl.Pre = r.Intn(3) == 0
		if decl.Pre && r.Intn(2) == 0 { // a leading block; without a footer when the main declaration has none either
			lines = append(lines, []string{"H", syms[r.Intn(6)]}, []string{syms[r.Intn(6)]})
			if decl.Footer || r.Intn(2) == 0 {
				lines = append(lines, []string{"F", syms[r.Intn(6)]})
			}
		}
		for len(lines) < nl {
			if r.Intn(8) == 0 {
				lines = append(lines, []string{})
				continue
			}
			mk := func(first string) []string {
				ln := []string{first}
				for k := r.Intn(4); k > 0; k-- {
					ln = append(ln, syms[r.Intn(6)])
				}
				return ln
			}
			if decl.Kind == "hf" {
				lines = append(lines, mk("H"))
				if decl.Footer {
					for k := r.Intn(3); k > 0; k-- {
						lines = append(lines, mk(syms[r.Intn(6)]))
					}
					lines = append(lines, mk("F"))
				}
			} else {
				lines = append(lines, mk(syms[r.Intn(len(syms))]))
			}
		}
		if r.Intn(4) == 0 { // damage: a dangling tail
			lines = append(lines, []string{syms[r.Intn(6)]})
		}
		var cols []flCol
		for k := 1 + r.Intn(4); k > 0; k-- {
			col := flCol{Idx: 1 + r.Intn(5)}
			switch r.Intn(3) {
			case 0:
				col.Li = 1 + r.Intn(3)
			case 1:
				col.Lp = "F"
			}
			cols = append(cols, col)
		}
		c := c06Case{Lines: lines, Decl: decl, Cols: cols}
		pl := flPayload{"table", pay}
		input := renderCSV(lines, pl, delim, false, r.Intn(2) == 0)
		schema := csv2Schema(&c, delim)
		sch, e, p := newSchema([]byte(schema))
		if e != nil || p != "" {
			fmt.Println("error: schema rejected", e, p, schema)
			return 3
		}
		var got []obsRec
		var end, detail string
		pv, _ := guarded(0, func() { got, end, detail = runFlat(sch, input, len(lines)+3) })
		if pv != "" {
			violation("C06", "panic", pv, M{"schema": schema})
			continue
		}
		// map values back to symbols; an unknown value is reported as itself (TLC will reject it)
		obs := [][][]interface{}{}
		for _, rec := range got {
			sort.Slice(rec, func(i, j int) bool { return rec[i][0] < rec[j][0] })
			orec := [][]interface{}{}
			for _, cv := range rec {
				var pos int
				fmt.Sscanf(cv[0], "c%d", &pos)
				sym, ok := rev[cv[1]]
				if !ok {
					sym = "?" + cv[1][:min(len(cv[1]), 40)]
				}
				orec = append(orec, []interface{}{pos, sym})
			}
			obs = append(obs, orec)
		}
		events = append(events, M{"tr": len(events) + 1, "lines": lines, "decl": decl, "cols": cols, "obs": obs, "end": end, "detail": detail, "delim": delim})
		sum.Traces++
		sum.eval(len(lines) >= 10, M{"t": ti})
		if ti == 0 {
			sum.sample(M{"decl": decl, "cols": cols, "first_lines": lines[:min(len(lines), 5)], "delimiter": delim})
		}
	}
	mustWriteNDJSON(args[0], events)
	sum.done()
	return 0
}

func init() { cmds["c06-drive"] = c06Drive }

// ---- line lengths around the readers' buffer sizes (bufio 4096; 16 / 64 KiB): multi-row records whose first rows are
// exactly as long as, one shorter and one longer than the buffer, with LF and CRLF line ends.  The oracle is the generated
// line itself (head and tail columns of every row).
func c06Boundary(args []string) int {
	sum := newSummary()
	lengths := []int{4090, 4093, 4094, 4095, 4096, 4097, 4098, 4100, 8190, 8191, 8192, 8193, 65534, 65535, 65536, 65537}
	mkLine := func(prefix string, n, salt int) string {
		b := make([]byte, n)
		for i := range b {
			b[i] = byte('a' + (i*7+salt)%26)
		}
		copy(b, prefix)
		return string(b)
	}
	for _, format := range []string{"fixedlength2", "fixed-length"} {
		for _, shape := range []string{"rows", "hf"} {
			if format == "fixed-length" && shape == "hf" {
				continue
			}
			for _, n := range lengths {
				for _, eol := range []string{"\n", "\r\n"} {
					var cols, recdecl string
					head := func(name string, li int, pat string) string {
						sel := fmt.Sprintf(`"line_index": %d`, li)
						if format == "fixed-length" || shape == "hf" {
							sel = `"line_pattern": "^` + pat + `"`
						}
						return fmt.Sprintf(`{"name": "%s_head", "start_pos": 1, "length": 8, %s}, {"name": "%s_tail", "start_pos": %d, "length": 50, %s}`, name, sel, name, n-7, sel)
					}
					cols = head("r1", 1, "H") + ", " + head("r2", 2, "S") + ", " + head("r3", 3, "F")
					switch {
					case format == "fixed-length":
						recdecl = `"by_rows": 3`
					case shape == "rows":
						recdecl = `"name": "R", "rows": 3`
					default:
						recdecl = `"name": "R", "header": "^H", "footer": "^F"`
					}
					schema := `{"parser_settings": {"version": "omni.2.1", "file_format_type": "` + format + `"},
 "file_declaration": {"envelopes": [{` + recdecl + `, "columns": [` + cols + `]}]},
 "transform_declarations": {"FINAL_OUTPUT": {"object": {"x": {"const": "1"}}}}}`
					sch, e, p := newSchema([]byte(schema))
					if e != nil || p != "" {
						fmt.Println("error: boundary schema rejected", e, p, schema)
						return 3
					}
					var input strings.Builder
					var want []obsRec
					for rec := 0; rec < 3; rec++ {
						l1, l2, l3 := mkLine("H", n, rec), mkLine("S", n/2+rec, rec+1), mkLine("F", 20+rec, rec+2)
						input.WriteString(l1 + eol + l2 + eol)
						if rec == 1 {
							input.WriteString(eol) // a blank line inside the record
						}
						input.WriteString(l3 + eol)
						tail := func(s string) string {
							if len(s) < n-7 {
								return ""
							}
							return s[n-8:]
						}
						want = append(want, obsRec{{"r1_head", l1[:8]}, {"r1_tail", tail(l1)}, {"r2_head", l2[:8]}, {"r2_tail", tail(l2)}, {"r3_head", l3[:8]}, {"r3_tail", tail(l3)}})
					}
					var got []obsRec
					var end, detail string
					pv, _ := guarded(0, func() { got, end, detail = runFlat(sch, input.String(), 10) })
					sum.eval(true, M{"f": format, "s": shape, "n": n, "e": eol})
					if pv != "" || end != "eof" || fmt.Sprint(got) != fmt.Sprint(want) {
						diff := ""
						for i := range want {
							if i < len(got) && fmt.Sprint(got[i]) != fmt.Sprint(want[i]) {
								diff = fmt.Sprintf("record %d: got %.200v want %.200v", i+1, got[i], want[i])
								break
							}
						}
						violation("C06", "buffer-boundary-"+format, fmt.Sprintf("%s %s record with a first row of %d bytes, line end %q: columns differ from the input text (%s %s %s) %s", format, shape, n, eol, end, detail, pv, diff),
							M{"format": format, "shape": shape, "line_length": n, "eol": eol, "schema": schema})
					}
				}
			}
		}
	}
	sum.sample(M{"lengths": lengths, "formats": []string{"fixedlength2 rows=3", "fixedlength2 header/footer", "fixed-length by_rows=3"}})
	sum.done()
	return 0
}

func init() { cmds["c06-boundary"] = c06Boundary }

// ---- FixedLegacy.tla cases: by_header_footer envelopes of the legacy fixed-length reader

type flEnv struct {
	Hdr string `json:"hdr"`
	Ftr string `json:"ftr"`
	Nt  bool   `json:"nt"`
}
type flLegacyCase struct {
	Lines [][]string        `json:"lines"`
	Envs  []flEnv           `json:"envs"`
	Cols  []flCol           `json:"cols"`
	Recs  [][][]interface{} `json:"recs"`
	End   string            `json:"end"`
	Nt    bool              `json:"nt"`
}

func c06Legacy(args []string) int {
	sum := newSummary()
	r := rng(616)
	nviol := 0
	schemas := map[string]omniparser.Schema{}
	err := readLines(args[0], func(line []byte) error {
		var c flLegacyCase
		if e := json.Unmarshal(line, &c); e != nil {
			return e
		}
		fixedPayloadAlt = r.Intn(2) == 0
		fp := fixedPayload()
		fp.m["G"] = "G~"
		if fixedPayloadAlt {
			fp.m["G"] = "Gü世"
		}
		var cols []string
		for k, col := range c.Cols {
			s := fmt.Sprintf(`{"name": "c%d", "start_pos": %d, "length": %d`, k+1, (col.Idx-1)*flW+1, flW)
			if col.Lp != "" {
				s += `, "line_pattern": "^` + col.Lp + `"`
			}
			cols = append(cols, s+"}")
		}
		var envs []string
		for k, e := range c.Envs {
			nt := ""
			if e.Nt {
				nt = `"not_target": true, `
			}
			envs = append(envs, fmt.Sprintf(`{"name": "E%d", "by_header_footer": {"header": "^%s", "footer": "^%s"}, %s"columns": [%s]}`,
				k+1, e.Hdr, e.Ftr, nt, strings.Join(cols, ", ")))
		}
		schema := `{"parser_settings": {"version": "omni.2.1", "file_format_type": "fixed-length"},
 "file_declaration": {"envelopes": [` + strings.Join(envs, ", ") + `]},
 "transform_declarations": {"FINAL_OUTPUT": {"object": {"x": {"const": "1"}}}}}`
		sch := schemas[schema]
		if sch == nil {
			s, e, p := newSchema([]byte(schema))
			if e != nil || p != "" {
				return fmt.Errorf("legacy fixed-length schema rejected: %v %s\n%s", e, p, schema)
			}
			sch, schemas[schema] = s, s
		}
		input := renderFixed(c.Lines, fp, r.Intn(3) == 0, r.Intn(3) != 0)
		var got []obsRec
		var end, detail string
		pv, _ := guarded(0, func() { got, end, detail = runFlat(sch, input, len(c.Lines)+3) })
		if end == "unexpected" { // runFlat's name for a fatal end
			end = "fatal"
		}
		var exp []obsRec
		for _, rec := range c.Recs {
			o := obsRec{}
			for _, cv := range rec {
				v := fp.m[cv[1].(string)]
				if cv[1].(string) != "" {
					v = padRunes(v, flW)
				}
				o = append(o, [2]string{fmt.Sprintf("c%d", int(cv[0].(float64))), v})
			}
			exp = append(exp, o)
		}
		norm := func(rs []obsRec) string {
			var out []string
			for _, rec := range rs {
				var cs []string
				for _, cv := range rec {
					cs = append(cs, cv[0]+"="+cv[1])
				}
				sort.Strings(cs)
				out = append(out, strings.Join(cs, "\x00"))
			}
			return strings.Join(out, "\x01")
		}
		sum.eval(c.Nt, M{"i": input, "s": schema})
		if pv != "" || end != c.End || norm(got) != norm(exp) {
			nviol++
			if nviol <= 30 {
				violation("C06", "fixed-length-envelopes", fmt.Sprintf("legacy fixed-length, input %q: expected end=%s records=%v; got end=%s %s records=%v %s", input, c.End, exp, end, detail, got, pv),
					M{"input": input, "schema": schema, "expected_end": c.End, "end": end})
			}
		}
		if c.Nt {
			sum.sample(M{"lines": c.Lines, "envelopes": c.Envs, "columns": c.Cols, "expected": c.Recs})
		}
		return nil
	})
	fixedPayloadAlt = false
	if err != nil {
		fmt.Println("error:", err)
		return 3
	}
	sum.inc("mismatches", nviol)
	sum.done()
	return 0
}

func init() { cmds["c06-legacy"] = c06Legacy }
