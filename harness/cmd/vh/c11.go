package main

import (
	"encoding/json"
	"fmt"
	"strings"

	"github.com/antchfx/xmlquery"
	"github.com/antchfx/xpath"

	"github.com/jf-tech/omniparser/idr"
)

type navDoc struct {
	N    int      `json:"n"`
	Par  []int    `json:"par"`
	Kind []string `json:"kind"`
	Na   []int    `json:"na"`
}
type navStep struct {
	P  []interface{} `json:"p"`
	M  string        `json:"m"`
	Ok bool          `json:"ok"`
	To []interface{} `json:"to"`
	Ty string        `json:"ty"`
}
type c11Case struct {
	D     navDoc    `json:"d"`
	Steps []navStep `json:"steps"`
}

// parseRefDOM parses with the reference library and removes the synthetic DeclarationNode children it puts under
// the document (the property's documents have no XML declaration; the node is an artefact of the reference).
func parseRefDOM(text string) (*xmlquery.Node, error) {
	doc, err := xmlquery.Parse(strings.NewReader(text))
	if err != nil {
		return nil, err
	}
	for c := doc.FirstChild; c != nil; {
		next := c.NextSibling
		if c.Type == xmlquery.DeclarationNode {
			xmlquery.RemoveFromTree(c)
		}
		c = next
	}
	return doc, nil
}

func (d *navDoc) kids(p int) []int {
	var out []int
	for i := 1; i <= d.N; i++ {
		if d.Par[i-1] == p {
			out = append(out, i)
		}
	}
	return out
}

// every element / attribute / text gets a unique label so that a position is identified by its observation
func (d *navDoc) xml(i int, sb *strings.Builder) {
	if d.Kind[i-1] == "T" {
		fmt.Fprintf(sb, "t%d", i)
		return
	}
	fmt.Fprintf(sb, "<e%d", i)
	for k := 1; k <= d.Na[i-1]; k++ {
		fmt.Fprintf(sb, ` a%d_%d="v%d_%d"`, i, k, i, k)
	}
	sb.WriteString(">")
	prevText := false
	for _, c := range d.kids(i) {
		if d.Kind[c-1] == "T" && prevText {
			// a text node right after a text node: a CDATA section boundary keeps them apart
			fmt.Fprintf(sb, "<![CDATA[t%d]]>", c)
		} else {
			d.xml(c, sb)
		}
		prevText = d.Kind[c-1] == "T"
	}
	fmt.Fprintf(sb, "</e%d>", i)
}

func posLabel(p []interface{}) string {
	if p[0].(string) == "a" {
		return fmt.Sprintf("attr:a%d_%d", int(p[1].(float64)), int(p[2].(float64)))
	}
	i := int(p[1].(float64))
	if i == 0 {
		return "root"
	}
	return fmt.Sprintf("node:%d", i)
}

func obsLabel(nav xpath.NodeNavigator) string {
	switch nav.NodeType() {
	case xpath.RootNode:
		return "root"
	case xpath.AttributeNode:
		return "attr:" + nav.LocalName()
	case xpath.ElementNode:
		return "node:" + strings.TrimPrefix(nav.LocalName(), "e")
	case xpath.TextNode:
		// the reference returns "" as Value() of character data; identify text through the navigator's node
		if n, ok := nav.(*xmlquery.NodeNavigator); ok {
			return "node:" + strings.TrimPrefix(n.Current().Data, "t")
		}
		return "node:" + strings.TrimPrefix(nav.Value(), "t")
	}
	return "?"
}

func doMove(nav xpath.NodeNavigator, m string) bool {
	switch m {
	case "Parent":
		return nav.MoveToParent()
	case "Child":
		return nav.MoveToChild()
	case "First":
		return nav.MoveToFirst()
	case "Next":
		return nav.MoveToNext()
	case "Previous":
		return nav.MoveToPrevious()
	case "NextAttribute":
		return nav.MoveToNextAttribute()
	}
	panic(m)
}

// navigate a fresh navigator to the abstract position by label search (document-order walk using Child/Next/Parent and attributes)
func seek(nav xpath.NodeNavigator, label string) bool {
	nav.MoveToRoot()
	var walk func() bool
	walk = func() bool {
		if obsLabel(nav) == label {
			return true
		}
		if nav.NodeType() == xpath.ElementNode && strings.HasPrefix(label, "attr:") {
			c := nav.Copy()
			for c.MoveToNextAttribute() {
				if obsLabel(c) == label {
					nav.MoveTo(c)
					return true
				}
			}
		}
		if nav.MoveToChild() {
			for {
				if walk() {
					return true
				}
				if !nav.MoveToNext() {
					break
				}
			}
			nav.MoveToParent()
		}
		return false
	}
	return walk()
}

func c11Replay(args []string) int {
	sum := newSummary()
	nviol := 0
	err := readLines(args[0], func(line []byte) error {
		var c c11Case
		if e := json.Unmarshal(line, &c); e != nil {
			return e
		}
		var sb strings.Builder
		c.D.xml(1, &sb)
		text := sb.String()
		// IDR document
		sr, e := idr.NewXMLStreamReader(strings.NewReader(text), "/*")
		if e != nil {
			return e
		}
		rootElem, e := sr.Read()
		if e != nil {
			return e
		}
		idrDoc := rootElem.Parent
		dot, _ := xpath.Compile(".")
		// reference DOM
		xdoc, e := parseRefDOM(text)
		if e != nil {
			return e
		}
		for _, st := range c.Steps {
			from, to := posLabel(st.P), posLabel(st.To)
			for _, impl := range []string{"idr", "dom"} {
				var nav xpath.NodeNavigator
				if impl == "idr" {
					it := idr.QueryIter(idrDoc, dot)
					it.MoveNext()
					nav = it.Current().Copy()
				} else {
					nav = xmlquery.CreateXPathNavigator(xdoc)
				}
				var ok bool
				var after string
				pv, _ := guarded(0, func() {
					if !seek(nav, from) {
						after = "SEEK-FAILED"
						return
					}
					ok = doMove(nav, st.M)
					after = obsLabel(nav)
				})
				sum.eval(st.Ty == "attr" || st.Ty == "text" || !st.Ok, M{"x": text, "p": from, "m": st.M, "i": impl})
				if pv != "" || ok != st.Ok || after != to {
					nviol++
					if impl == "dom" {
						// the *reference* deviates from the specification's DomStep: the oracle is wrong, not omniparser
						sum.inc("spec_mismatch", 1)
						emit(M{"kind": "spec_mismatch", "xml": text, "from": from, "move": st.M, "expected": []interface{}{st.Ok, to}, "dom": []interface{}{ok, after}})
						continue
					}
					if nviol <= 30 {
						violation("C11", "navigator-move-"+st.M, fmt.Sprintf("%s: MoveTo%s from %s: expected (%v, %s) got (%v, %s) %s", text, st.M, from, st.Ok, to, ok, after, pv),
							M{"xml": text, "from": from, "move": st.M, "expected_ok": st.Ok, "expected_to": to, "ok": ok, "to": after})
					}
				}
			}
		}
		sum.sample(M{"xml": text, "steps": len(c.Steps)})
		return nil
	})
	if err != nil {
		fmt.Println("error:", err)
		return 3
	}
	sum.inc("mismatches", nviol)
	sum.done()
	return 0
}

// ---- B2: expression-level differential on random documents

var c11Prefix = "p"

func c11Rename(x string) string {
	if c11Prefix == "p" {
		return x
	}
	return strings.NewReplacer("xmlns:p", "xmlns:"+c11Prefix, "p:", c11Prefix+":").Replace(x)
}

func c11Drive(args []string) int {
	n := 200
	if len(args) > 1 {
		fmt.Sscanf(args[1], "%d", &n)
	}
	r := rng(1111)
	sum := newSummary()
	var events []interface{}
	names := []string{"a", "b", "c", "p:d"}
	var gen func(depth int) string
	gen = func(depth int) string {
		nm := names[r.Intn(len(names))]
		attrs := ""
		for k, a := range []string{"k", "j", "p:m"} {
			if r.Intn(3) == 0 {
				attrs += fmt.Sprintf(` %s="%d"`, a, r.Intn(3)+k)
			}
		}
		var kids strings.Builder
		lastText := false
		for k := r.Intn(4); k > 0 && depth < 4; k-- {
			if !lastText && r.Intn(3) == 0 {
				// character data: one plain run, or a run cut into several text nodes by CDATA section boundaries
				txt := []string{"1", "2", "x y", "é"}
				if r.Intn(4) == 0 {
					for k, m := 0, 2+r.Intn(2); k < m; k++ {
						if (k+m)%2 == 0 {
							kids.WriteString("<![CDATA[" + txt[r.Intn(4)] + "]]>")
						} else {
							kids.WriteString(txt[r.Intn(4)])
						}
					}
					if r.Intn(3) == 0 {
						kids.WriteString("<![CDATA[<&]]>")
					}
				} else {
					kids.WriteString(txt[r.Intn(4)])
				}
				lastText = true
			} else {
				kids.WriteString(gen(depth + 1))
				lastText = false
			}
		}
		return "<" + nm + attrs + ">" + kids.String() + "</" + nm + ">"
	}
	axes := []string{"child::", "descendant::", "descendant-or-self::", "parent::", "ancestor::", "ancestor-or-self::", "following-sibling::", "preceding-sibling::", "following::", "preceding::", "self::", "attribute::"}
	tests := []string{"a", "b", "c", "*", "node()", "p:d", "text()"}
	preds := []string{"", "", "[1]", "[2]", "[last()]", "[position()>1]", "[@k]", "[@k='1']", "[a]", "[b='1']", "[.='1']", "[count(*)>1]", "[not(@j)]", "[contains(., 'x')]", "[starts-with(name(), 'a')]", "[string-length(.)>1]", "[a or b]", "[@k and @j]", "[@p:m]", "[local-name()='d']", "[name()='p:d']", "[@xmlns:p]", "[@p]", "[name(..)='root']"}
	// abbreviated syntax (what schemas are written in): ./x, .//x, ../x, @k, x/y, //x
	genAbbrev := func() string {
		var sb strings.Builder
		sb.WriteString([]string{"", "./", ".//", "//", "/", "../", "../../"}[r.Intn(7)])
		steps := 1 + r.Intn(3)
		for s := 0; s < steps; s++ {
			if s > 0 {
				sb.WriteString([]string{"/", "/", "//"}[r.Intn(3)])
			}
			t := []string{"a", "b", "c", "p:d", "*", "..", ".", "text()"}[r.Intn(8)]
			if s == steps-1 && r.Intn(5) == 0 {
				t = []string{"@k", "@j", "@*", "@p", "@xmlns:p", "@*[name()='p:m']"}[r.Intn(6)]
			}
			pr := ""
			if t != ".." && t != "." && t != "text()" && t[0] != '@' {
				pr = []string{"", "", "[1]", "[last()]", "[@k]", "[b]", "[position()>1]"}[r.Intn(7)]
			}
			sb.WriteString(t + pr)
		}
		return sb.String()
	}
	genExpr := func() string {
		if r.Intn(4) == 0 {
			return genAbbrev()
		}
		var sb strings.Builder
		if r.Intn(2) == 0 {
			sb.WriteString("/")
		}
		steps := 1 + r.Intn(3)
		for s := 0; s < steps; s++ {
			if s > 0 {
				sb.WriteString([]string{"/", "/", "//"}[r.Intn(3)])
			} else if r.Intn(3) == 0 {
				sb.WriteString("/")
			}
			ax := axes[r.Intn(len(axes))]
			t := tests[r.Intn(len(tests))]
			if ax == "attribute::" {
				// (p and xmlns:p: the namespace declaration on the root is an attribute node named xmlns:p, not p)
				t = []string{"k", "j", "*", "p:m", "p", "xmlns:p", "*[name()='k']", "*[name()='xmlns:p']", "*[local-name()='p']"}[r.Intn(9)]
			}
			pr := preds[r.Intn(len(preds))]
			upward := ax == "self::" || ax == "parent::" || ax == "ancestor::" || ax == "ancestor-or-self::"
			if t == "text()" || t == "node()" || (t == "*" && upward) {
				// (also: the reference reports "" as the string value of the *document* node, which `*` reaches on the
				// self / parent / ancestor axes)
				// the reference DOM's navigator reports "" as the string value of character data (xmlquery v1.3.1,
				// query.go Value()): predicates on the string value of text nodes are not comparable and not generated
				pr = []string{"", "[1]", "[last()]", "[position()>1]"}[r.Intn(4)]
			}
			sb.WriteString(ax + t + pr)
		}
		return sb.String()
	}
	sigOf := func(name, val string, depth int, prevSibs int) string {
		return fmt.Sprintf("%s|%s|d%d|s%d", name, val, depth, prevSibs)
	}
	compareDoc := func(idrDoc *idr.Node, xdoc *xmlquery.Node, text string, nexpr int) {
		// context nodes: the document and a few inner elements (selected by the same expression on both sides)
		ctxExprs := []string{".", "/root/*[1]", "/root/*[2]", "//b[1]", "//a[last()]"}
		for xi := 0; xi < nexpr; xi++ {
			expr := c11Rename(genExpr())
			ctxE := ctxExprs[r.Intn(len(ctxExprs))]
			compiled, cerr := xpath.Compile(expr)
			if cerr != nil {
				continue
			}
			var left, right []string
			pv, _ := guarded(0, func() {
				ictx, _ := idr.MatchAll(idrDoc, ctxE)
				xctx := xmlquery.Find(xdoc, ctxE)
				if len(ictx) == 0 || len(xctx) == 0 {
					if len(ictx) != len(xctx) {
						left = []string{"CONTEXT-DIFFERS"}
					}
					return
				}
				// the string entry points of the package (with and without its expression cache) must select what the
				// compiled expression selects
				sigIdr := func(nd *idr.Node) string {
					depth, prev := 0, 0
					for p := nd; p.Parent != nil; p = p.Parent {
						depth++
					}
					for p := nd.PrevSibling; p != nil; p = p.PrevSibling {
						if p.Type != idr.AttributeNode {
							prev++
						}
					}
					name := nd.Data
					if nd.Type == idr.TextNode {
						name = "#text"
					}
					if nd.Type == idr.AttributeNode {
						name, prev = "@"+nd.Data, 0
					}
					return sigOf(name, nd.InnerText(), depth, prev)
				}
				var viaString [2][]string
				for k, flags := range [][]uint{nil, {idr.DisableXPathCache}} {
					ns, err := idr.MatchAll(ictx[0], expr, flags...)
					if err != nil {
						viaString[k] = []string{"ERROR " + err.Error()}
						continue
					}
					for _, nd := range ns {
						viaString[k] = append(viaString[k], sigIdr(nd))
					}
				}
				defer func() {
					if fmt.Sprint(viaString[0]) != fmt.Sprint(left) || fmt.Sprint(viaString[1]) != fmt.Sprint(left) {
						left = append(left, fmt.Sprintf("ENTRY-POINTS-DIFFER MatchAll(cached)=%v MatchAll(uncached)=%v", viaString[0], viaString[1]))
					}
				}()
				it := idr.QueryIter(ictx[0], compiled)
				for it.MoveNext() {
					nd := it.Current().(interface{ Current() *idr.Node }).Current()
					depth, prev := 0, 0
					for p := nd; p.Parent != nil; p = p.Parent {
						depth++
					}
					for p := nd.PrevSibling; p != nil; p = p.PrevSibling {
						if p.Type != idr.AttributeNode {
							prev++
						}
					}
					name := nd.Data
					if nd.Type == idr.TextNode {
						name = "#text"
					}
					if nd.Type == idr.AttributeNode {
						name, prev = "@"+nd.Data, 0
					}
					left = append(left, sigOf(name, nd.InnerText(), depth, prev))
				}
				xt := compiled.Select(xmlquery.CreateXPathNavigator(xctx[0]))
				for xt.MoveNext() {
					xn := xt.Current().(*xmlquery.NodeNavigator)
					nd := xn.Current()
					if xn.NodeType() == xpath.AttributeNode {
						depth := 1
						for p := nd; p.Parent != nil; p = p.Parent {
							depth++
						}
						right = append(right, sigOf("@"+xn.LocalName(), xn.Value(), depth, 0))
						continue
					}
					depth, prev := 0, 0
					for p := nd; p.Parent != nil; p = p.Parent {
						depth++
					}
					for p := nd.PrevSibling; p != nil; p = p.PrevSibling {
						if p.Type != xmlquery.DeclarationNode {
							prev++
						}
					}
					name := nd.Data
					if nd.Type == xmlquery.TextNode || nd.Type == xmlquery.CharDataNode {
						name = "#text"
					}
					right = append(right, sigOf(name, nd.InnerText(), depth, prev))
				}
			})
			if pv != "" {
				left = append(left, "PANIC "+pv)
			}
			if left == nil {
				left = []string{}
			}
			if right == nil {
				right = []string{}
			}
			events = append(events, M{"ev": "equal", "tr": len(events) + 1, "x": left, "y": right, "xml": text, "expr": expr, "ctx": ctxE})
			sum.Traces++
			sum.eval(len(right) > 0 && strings.Count(expr, "::") >= 2, M{"x": text, "e": expr, "c": ctxE})
		}
	}
	for di := 0; di < n; di++ {
		// (the prefix the documents bind to urn:p changes from document to document: a prefix is a property of a document)
		c11Prefix = []string{"p", "p", "q2", "zz", "p"}[di%5]
		text := c11Rename(`<root xmlns:p="urn:p">` + gen(0) + gen(0) + `</root>`)
		sr, e := idr.NewXMLStreamReader(strings.NewReader(text), "/*")
		if e != nil {
			continue
		}
		rootElem, e := sr.Read()
		if e != nil {
			fmt.Println("error: generated document does not parse:", text, e)
			return 3
		}
		idrDoc := rootElem.Parent
		xdoc, e := parseRefDOM(text)
		if e != nil {
			fmt.Println("error:", e)
			return 3
		}
		compareDoc(idrDoc, xdoc, text, 12)
		c11Prefix = "p"
		if di == 0 {
			sum.sample(M{"xml": text, "expr": genExpr()})
		}
	}
	// documents in a single-byte encoding they name in their declaration (labels, aliases), with bytes from every
	// region of the code page in text and attribute values: the string values are those the reference decodes
	for di := 0; di < n/4; di++ {
		label := []string{"ISO-8859-1", "iso-8859-1", "latin1", "US-ASCII", "windows-1252", "cp1252", "ISO-8859-9", "ISO-8859-15", "windows-1250", "KOI8-R", "ISO-8859-2"}[r.Intn(11)]
		hi := func() string {
			var b []byte
			for k := 1 + r.Intn(4); k > 0; k-- {
				b = append(b, []byte{0x80, 0x85, 0x93, 0x94, 0x96, 0x9f, 0xa0, 0xa4, 0xe9, 0xff, 'x', '1'}[r.Intn(12)])
			}
			return string(b)
		}
		var sb strings.Builder
		sb.WriteString(`<?xml version="1.0" encoding="` + label + `"?><root>`)
		for k := 2 + r.Intn(3); k > 0; k-- {
			nm := []string{"a", "b", "c"}[r.Intn(3)]
			sb.WriteString("<" + nm + ` k="` + hi() + `">` + hi() + "<b>" + hi() + "</b>" + hi() + "</" + nm + ">")
		}
		sb.WriteString("</root>")
		text := sb.String()
		sr, e := idr.NewXMLStreamReader(strings.NewReader(text), "/*")
		xdoc, e2 := parseRefDOM(text)
		if e != nil || e2 != nil {
			if (e == nil) != (e2 == nil) {
				events = append(events, M{"ev": "equal", "tr": len(events) + 1, "x": []string{fmt.Sprint("reader: ", e)}, "y": []string{fmt.Sprint("reference: ", e2)}, "xml": text, "expr": ".", "ctx": "."})
				sum.Traces++
			}
			continue
		}
		rootElem, e := sr.Read()
		if e != nil {
			events = append(events, M{"ev": "equal", "tr": len(events) + 1, "x": []string{"NO-RECORD " + e.Error()}, "y": []string{"document"}, "xml": text, "expr": "/*", "ctx": "."})
			sum.Traces++
			continue
		}
		compareDoc(rootElem.Parent, xdoc, text, 6)
	}
	// the tree as a schema's xpaths meet it: streamed record by record (target /root/*), every record possibly with
	// namespace declarations of its own; when record k is delivered the tree is the root with record k alone, and the
	// reference is the DOM of exactly that document
	for di := 0; di < n/2; di++ {
		var recs []string
		for k := 0; k < 3; k++ {
			decl := []string{"", "", ` xmlns:p="urn:other"`, ` xmlns:q="urn:q"`}[r.Intn(4)]
			nm := []string{"rec", "p:rec"}[r.Intn(2)]
			recs = append(recs, "<"+nm+decl+">"+gen(1)+gen(1)+"</"+nm+">")
		}
		text := `<root xmlns:p="urn:p">` + strings.Join(recs, "") + `</root>`
		sr, e := idr.NewXMLStreamReader(strings.NewReader(text), "/root/*")
		if e != nil {
			continue
		}
		for k := 0; k < len(recs); k++ {
			rec, e := sr.Read()
			if e != nil {
				// a well-formed document whose k-th record is not delivered: there is no tree to query, the reference has one
				events = append(events, M{"ev": "equal", "tr": len(events) + 1, "x": []string{"NO-RECORD " + e.Error()}, "y": []string{"record"}, "xml": text, "expr": "/root/*[" + fmt.Sprint(k+1) + "]", "ctx": "."})
				sum.Traces++
				break
			}
			idrDoc := rec
			for idrDoc.Parent != nil {
				idrDoc = idrDoc.Parent
			}
			one := `<root xmlns:p="urn:p">` + recs[k] + `</root>`
			xdoc, e := parseRefDOM(one)
			if e != nil {
				fmt.Println("error:", e)
				return 3
			}
			compareDoc(idrDoc, xdoc, fmt.Sprintf("%s (record %d of the stream %s)", one, k+1, text), 6)
			sr.Release(rec)
		}
	}
	mustWriteNDJSON(args[0], events)
	sum.done()
	return 0
}

func init() {
	cmds["c11-replay"] = c11Replay
	cmds["c11-drive"] = c11Drive
}
