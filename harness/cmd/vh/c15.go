package main

import (
	"bytes"
	"fmt"
	"strings"

	"github.com/jf-tech/omniparser"
	"github.com/jf-tech/omniparser/transformctx"
)

// c15-run <out.ndjson> <procSeed> [only=<item name>]: one process history. Runs the corpus in a seeded order,
// every item twice, and writes one line per run: {item, occ, results}.  bin/check merges several processes.
func c15Run(args []string) int {
	outPath := args[0]
	var procSeed int64
	fmt.Sscanf(args[1], "%d", &procSeed)
	only := ""
	if len(args) > 2 {
		only = strings.TrimPrefix(args[2], "only=")
	}
	items, err := c13Corpus()
	if err != nil {
		fmt.Println("error:", err)
		return 3
	}
	r := rng(1500 + procSeed)
	var order []int
	for k := 0; k < 2; k++ {
		order = append(order, r.Perm(len(items))...)
	}
	sum := newSummary()
	var lines []interface{}
	occ := map[string]int{}
	for n, idx := range order {
		it := items[idx]
		if only != "" && it.Name != only {
			continue
		}
		o := runItem(it, nil)
		occ[it.Name]++
		lines = append(lines, M{"item": it.Name, "occ": occ[it.Name], "pos": n, "proc": procSeed, "results": fpAll(o, "full")})
		sum.eval(n > 0, M{"i": it.Name, "n": n, "p": procSeed})
		if only != "" {
			break
		}
	}
	// several transforms open at once in one goroutine, their Reads alternating: what one of them returns is still a
	// function of its own schema and input (a neighbour that is in the middle of its input is part of the process history too)
	if only == "" {
		byFormat := map[string][]int{}
		for i, it := range items {
			if len(it.Input) <= 20000 {
				byFormat[it.Format] = append(byFormat[it.Format], i)
			}
		}
		for i, it := range items {
			if len(it.Input) > 20000 {
				continue
			}
			// the partner: the next item of the same format (the same reader code, another input), else the next item
			peers := byFormat[it.Format]
			j := (i + 1) % len(items)
			for k, x := range peers {
				if x == i && len(peers) > 1 {
					j = peers[(k+1+int(procSeed))%len(peers)]
					if j == i {
						j = peers[(k+1)%len(peers)]
					}
				}
			}
			a, b := newStepper(it), newStepper(items[j])
			for !a.done || !b.done {
				for k := 1 + r.Intn(2); k > 0; k-- {
					a.step()
				}
				for k := 1 + r.Intn(2); k > 0; k-- {
					b.step()
				}
			}
			occ[it.Name]++
			lines = append(lines, M{"item": it.Name, "occ": occ[it.Name], "pos": "interleaved with " + items[j].Name, "proc": procSeed, "results": fpAll(a.out, "full")})
			occ[items[j].Name]++
			lines = append(lines, M{"item": items[j].Name, "occ": occ[items[j].Name], "pos": "interleaved with " + it.Name, "proc": procSeed, "results": fpAll(b.out, "full")})
			sum.eval(true, M{"i": it.Name, "j": items[j].Name, "p": procSeed})
		}
	}
	mustWriteNDJSON(outPath, lines)
	sum.done()
	return 0
}

// stepper: the documented read loop of one item, one Read per step (what runTranscript does in one go)
type stepper struct {
	tr   omniparser.Transform
	out  RunOutcome
	done bool
	n    int
}

func newStepper(it *corpusItem) *stepper {
	s := &stepper{}
	if it.sch == nil && it.mk != nil {
		sch, err := it.mk()
		if err != nil {
			s.out.NewTrErr, s.done = "schema: "+err.Error(), true
			return s
		}
		it.sch = sch
	}
	var err error
	p, _ := guarded(0, func() {
		s.tr, err = it.sch.NewTransform("input", bytes.NewReader(it.Input), &transformctx.Ctx{ExternalProperties: it.Ext})
	})
	if p != "" {
		s.out.Panic, s.done = p, true
	} else if err != nil {
		s.out.NewTrErr, s.done = err.Error(), true
	}
	return s
}

func (s *stepper) step() {
	if s.done {
		return
	}
	var r Res
	p, _ := guarded(0, func() {
		b, err := s.tr.Read()
		r = Res{Class: classify(err)}
		if err != nil {
			r.Err = err.Error()
			if b != nil {
				r.Err += " [non-nil bytes with error]"
			}
		} else {
			r.Out = string(b)
			if rr, e2 := s.tr.RawRecord(); e2 == nil {
				r.Sum = rr.Checksum()
			} else {
				r.Sum = "ERR:" + e2.Error()
			}
		}
	})
	if p != "" {
		s.out.Panic, s.done = p, true
		return
	}
	s.out.Results = append(s.out.Results, r)
	s.n++
	if r.Class == "eof" || r.Class == "fatal" {
		s.done = true
	} else if s.n >= 100000 {
		s.out.Unbounded, s.done = true, true
	}
}

// c15-sums <out.ndjson>: checksum sensitivity. For every format's record pool: the same record twice (equal checksums),
// and record pairs that differ in exactly one ingested value (distinct checksums).
func c15Sums(args []string) int {
	outPath := args[0]
	sum := newSummary()
	var events []interface{}
	type pair struct{ a, b, what string }
	pairs := map[string][]pair{
		"csv":          {{"a,1,2020-01-02\n", "a,2,2020-01-02\n", "qty"}, {"a,1,\n", "b,1,\n", "id"}, {"\"c,c\",3,\n", "\"c;c\",3,\n", "quoted id"}},
		"csv2":         {{"H,a,1\nD,x\n", "H,a,1\nD,y\n", "child item"}, {"H,a,1\n", "H,a,2\n", "qty"}, {"H,a,1\nD,x\n", "H,a,1\nD,x\nD,x\n", "one more child"}},
		"fixedlength":  {{"A01 first\nB0010\n", "A01 first\nB0011\n", "qty"}, {"A01 first\nB0010\n", "A02 first\nB0010\n", "id"}},
		"fixedlength2": {{"H0010010\nDitem1\n", "H0010010\nDitem2\n", "child item"}, {"H0010010\n", "H0020010\n", "id"}},
		"edi":          {{"HDR*a*1~\nITM*s1:x~\n", "HDR*a*1~\nITM*s2:x~\n", "sku"}, {"HDR*a*1~\n", "HDR*a*2~\n", "qty"}},
		"json": {{`{"id": "a", "qty": 1, "tags": ["x", "y"]}`, `{"id": "a", "qty": 1, "tags": ["x", "z"]}`, "array element"},
			{`{"id": "a", "qty": 1}`, `{"id": "a", "qty": 2}`, "number"}, {`{"id": "a", "qty": 1}`, `{"id": "a", "qty": "1"}`, "number vs string"},
			{`{"id": "a", "qty": 1, "n": null}`, `{"id": "a", "qty": 1, "n": false}`, "null vs false"}},
		"xml": {{`<rec id="a"><qty>1</qty></rec>`, `<rec id="a"><qty>2</qty></rec>`, "element text"},
			{`<rec id="a"><qty>1</qty></rec>`, `<rec id="b"><qty>1</qty></rec>`, "attribute of an element with children"},
			{`<rec id="a"><qty>1</qty><tag>x</tag><tag>y</tag></rec>`, `<rec id="a"><qty>1</qty><tag>x</tag><tag>z</tag></rec>`, "repeated element text"},
			{`<rec id="a"><qty u="kg">1</qty></rec>`, `<rec id="a"><qty u="lb">1</qty></rec>`, "attribute of a text-only element"},
			{`<rec id="a"><qty>1</qty>alpha<u>1</u>beta</rec>`, `<rec id="a"><qty>1</qty>gamma<u>1</u>delta</rec>`, "mixed-content text"},
			{`<rec id="a"><qty>1</qty><g k="1"><e>1</e><e>2</e></g></rec>`, `<rec id="a"><qty>1</qty><g k="2"><e>1</e><e>2</e></g></rec>`, "attribute of an element whose children form an array"}},
	}
	maybePairs := map[string][]pair{
		"json": {{`{"id": 1234567890123456789, "qty": 1}`, `{"id": 1234567890123456790, "qty": 1}`, "integers beyond float64 resolution"},
			{`{"id": 9007199254740993, "qty": 1}`, `{"id": 9007199254740992, "qty": 1}`, "2^53 + 1 vs 2^53"},
			{`{"id": 0.1, "qty": 1}`, `{"id": 0.10000000000000001, "qty": 1}`, "decimals beyond float64 resolution"},
			{`{"id": "a", "qty": 1}`, `{"id": "\u0061", "qty": 1}`, "an escape of the same character"},
			{`{"id": 1e2, "qty": 1}`, `{"id": 100, "qty": 1}`, "two spellings of one number"}},
		"xml": {{`<rec id="a"><qty>1</qty></rec>`, `<rec id="&#97;"><qty>1</qty></rec>`, "a character reference"},
			{`<rec id="a"><qty>1</qty></rec>`, `<rec id="a"><qty> 1</qty></rec>`, "leading white space"}},
		"csv": {{"a,1,\n", "\"a\",1,\n", "quoting"}, {"a,1,\n", "a ,1,\n", "trailing blank"}},
	}
	for _, f := range c10Formats() {
		sch, err, p := newSchema([]byte(f.Schema))
		if err != nil || p != "" {
			fmt.Println("error: schema rejected", f.Name, err, p)
			return 3
		}
		f.sch = sch
		sumOf := func(rec string) string {
			o := transcriptOf(f.sch, bytes.NewReader([]byte(f.Wrap([]string{rec}))), 10)
			if len(o.Results) == 0 {
				return "NO-RESULT"
			}
			r := o.Results[0]
			if r.Sum == "" {
				// a failed record has no RawRecord; use the class so that the event is still meaningful
				return "class:" + r.Class
			}
			return r.Sum
		}
		for _, rec := range f.OK {
			events = append(events, M{"ev": "equal", "tr": len(events) + 1, "format": f.Name, "x": sumOf(rec), "y": sumOf(rec), "rec": rec})
			sum.Traces++
			sum.eval(true, M{"f": f.Name, "eq": rec})
		}
		// pairs of inputs that may or may not be the same value once ingested (numbers beyond float64 resolution, white
		// space, escapes): IF the outputs differ the values differ, and so must the checksums
		outOf := func(rec string) string {
			o := transcriptOf(f.sch, bytes.NewReader([]byte(f.Wrap([]string{rec}))), 10)
			if len(o.Results) == 0 {
				return "NO-RESULT"
			}
			return o.Results[0].Class + " " + o.Results[0].Out
		}
		for _, pr := range maybePairs[f.Name] {
			if oa, ob := outOf(pr.a), outOf(pr.b); oa != ob {
				x, y := sumOf(pr.a), sumOf(pr.b)
				events = append(events, M{"ev": "distinct", "tr": len(events) + 1, "format": f.Name, "x": x, "y": y, "a": pr.a, "b": pr.b, "what": pr.what + " (the outputs differ)"})
				sum.Traces++
				sum.eval(true, M{"f": f.Name, "a": pr.a, "b": pr.b})
			}
		}
		for _, pr := range pairs[f.Name] {
			x, y := sumOf(pr.a), sumOf(pr.b)
			events = append(events, M{"ev": "distinct", "tr": len(events) + 1, "format": f.Name, "x": x, "y": y, "a": pr.a, "b": pr.b, "what": pr.what})
			sum.Traces++
			sum.eval(true, M{"f": f.Name, "a": pr.a, "b": pr.b})
		}
	}
	sum.sample(events[len(events)-1])
	mustWriteNDJSON(outPath, events)
	sum.done()
	return 0
}

func init() {
	cmds["c15-run"] = c15Run
	cmds["c15-sums"] = c15Sums
}
