package main

import (
	"bytes"
	"fmt"
	"io"
	"strings"
)

// C09: one family per input: golden = whole-buffer delivery; variants = other delivery schedules of the same bytes.

func c09Drive(args []string) int {
	outPath := args[0]
	maxSplitLen, nRandom, includeBig := 700, 12, false
	if len(args) > 1 {
		fmt.Sscanf(args[1], "%d", &maxSplitLen)
	}
	if len(args) > 2 {
		fmt.Sscanf(args[2], "%d", &nRandom)
	}
	if len(args) > 3 && args[3] == "big" {
		includeBig = true
	}
	items, err := multiRunCorpus(includeBig)
	if err != nil {
		fmt.Println("error:", err)
		return 3
	}
	r := rng(909)
	sum := newSummary()
	var events []interface{}
	fam := 0
	for _, it := range items {
		fam++
		in := it.Input
		gold := transcriptOf(it.sch, bytes.NewReader(in), 100000)
		events = append(events, M{"ev": "golden", "tr": fam, "item": it.Name, "results": fpAll(gold, "full"), "len": len(in)})
		emitVariant := func(desc string, cr *chunkReader, boundary int) {
			o := transcriptOf(it.sch, cr, 100000)
			events = append(events, M{"ev": "same", "tr": fam, "item": it.Name, "desc": desc, "results": fpAll(o, "full")})
			sum.Traces++
			nontrivial := false
			if boundary > 0 && boundary < len(in) {
				a, b := in[boundary-1], in[boundary]
				// the schedule splits inside a multi-byte rune, an escape pair, a CRLF, a delimiter run or the BOM
				nontrivial = a >= 0x80 || b >= 0x80 || a == '\r' || a == '?' || a == '"' || a == '\\' || boundary <= 3 ||
					a == '\n' || b == '\n' || a == ',' || a == '*' || a == '~' || a == '<' || a == '>' || boundary%4096 < 2
			}
			sum.eval(nontrivial || boundary < 0, M{"i": it.Name, "d": desc})
		}
		emitVariant("1-byte", &chunkReader{data: in, sizes: []int{1}, failAt: -1}, -1)
		emitVariant("1-byte+eof-with-data", &chunkReader{data: in, sizes: []int{1}, eofWith: true, failAt: -1}, -1)
		if len(in) <= 6000 {
			// an empty read after every byte: as many empty reads as there are bytes, never two in a row
			emitVariant("1-byte, an empty read after each", &chunkReader{data: in, sizes: []int{1, 0}, failAt: -1}, -1)
			emitVariant("3 bytes, two empty reads after each", &chunkReader{data: in, sizes: []int{3, 0, 0}, failAt: -1}, -1)
		}
		emitVariant("whole+eof-with-data", &chunkReader{data: in, eofWith: true, failAt: -1}, -1)
		// a producer that writes line by line, the last line arriving together with io.EOF
		var lineSizes []int
		for rest := in; len(rest) > 0; {
			k := bytes.IndexByte(rest, '\n') + 1
			if k <= 0 {
				k = len(rest)
			}
			lineSizes = append(lineSizes, k)
			rest = rest[k:]
		}
		if len(lineSizes) > 1 && len(lineSizes) < 4000 {
			emitVariant("line-by-line+eof-with-last", &chunkReader{data: in, sizes: lineSizes, eofWith: true, failAt: -1}, -1)
			emitVariant("line-by-line", &chunkReader{data: in, sizes: lineSizes, failAt: -1}, -1)
		}
		// every single split point (exhaustive for short inputs, sampled otherwise)
		var splits []int
		if len(in) <= maxSplitLen {
			for k := 1; k < len(in); k++ {
				splits = append(splits, k)
			}
		} else {
			for k := 0; k < 60; k++ {
				splits = append(splits, 1+r.Intn(len(in)-1))
			}
			for _, b := range []int{4095, 4096, 4097, 8192, 127, 128, 129} {
				if b < len(in) {
					splits = append(splits, b)
				}
			}
			if strings.HasPrefix(it.Name, "gen/") {
				// the generated inputs exist to straddle the readers' buffers: a dense sweep of first-chunk sizes,
				// and chunk sizes that make every refill end at a different offset inside a line
				for k := 7; k < len(in) && k < 14000; k += 23 {
					splits = append(splits, k)
				}
			}
		}
		for _, k := range splits {
			emitVariant(fmt.Sprintf("split@%d", k), &chunkReader{data: in, sizes: []int{k, len(in)}, failAt: -1}, k)
		}
		if strings.HasPrefix(it.Name, "gen/") {
			for _, cs := range []int{509, 997, 1021, 2039, 3001, 4093, 4099} {
				emitVariant(fmt.Sprintf("fixed-chunks-%d", cs), &chunkReader{data: in, sizes: []int{cs}, failAt: -1}, -1)
			}
		}
		for k := 0; k < nRandom; k++ {
			var sizes []int
			for j := 0; j < 7; j++ {
				sizes = append(sizes, []int{0, 1, 2, 3, 5, 8, 13, 64, 127, 128, 129, 1000, 4095, 4096, 4097}[r.Intn(15)])
			}
			emitVariant(fmt.Sprintf("random%v", sizes), &chunkReader{data: in, sizes: sizes, eofWith: r.Intn(2) == 0, failAt: -1}, -1)
		}
		if fam <= 2 {
			sum.sample(M{"item": it.Name, "golden": fpAll(gold, "full")})
		}
	}
	// the format readers on byte sources that are plain io.Readers (no ReadByte, no buffering of their own): the public
	// constructors take any io.Reader, schema.go merely happens to pass a *bufio.Reader.  golden = a bytes.Reader.
	var src func() io.Reader
	dext := directExtension(&src)
	for _, s := range append(miniSamples(), generatedSamples()...) {
		sch, err, p := newSchema(s.Schema, dext)
		if err != nil || p != "" {
			fmt.Println("error: schema rejected under the direct extension", s.Name, err, p)
			return 3
		}
		in := s.Input
		fam++
		run := func(mk func() io.Reader) RunOutcome {
			src = mk
			return transcriptOf(sch, strings.NewReader(""), 100000)
		}
		gold := run(func() io.Reader { return bytes.NewReader(in) })
		events = append(events, M{"ev": "golden", "tr": fam, "item": s.Name + " (direct)", "results": fpAll(gold, "full"), "len": len(in)})
		variant := func(desc string, mk func() *chunkReader) {
			o := run(func() io.Reader { return mk() })
			events = append(events, M{"ev": "same", "tr": fam, "item": s.Name + " (direct)", "desc": desc, "results": fpAll(o, "full")})
			sum.Traces++
			sum.eval(true, M{"i": s.Name, "d": "direct " + desc})
		}
		variant("whole", func() *chunkReader { return &chunkReader{data: in, failAt: -1} })
		variant("whole+eof-with-data", func() *chunkReader { return &chunkReader{data: in, eofWith: true, failAt: -1} })
		variant("1-byte", func() *chunkReader { return &chunkReader{data: in, sizes: []int{1}, failAt: -1} })
		for _, cs := range []int{2, 7, 64, 509, 4096} {
			cs := cs
			variant(fmt.Sprintf("fixed-chunks-%d", cs), func() *chunkReader { return &chunkReader{data: in, sizes: []int{cs}, failAt: -1} })
		}
		var splits []int
		if len(in) <= 300 {
			for k := 1; k < len(in); k++ {
				splits = append(splits, k)
			}
		} else {
			for k := 0; k < 40; k++ {
				splits = append(splits, 1+r.Intn(len(in)-1))
			}
		}
		for _, k := range splits {
			k := k
			variant(fmt.Sprintf("split@%d", k), func() *chunkReader { return &chunkReader{data: in, sizes: []int{k, len(in)}, failAt: -1} })
		}
		for k := 0; k < nRandom/2; k++ {
			var sizes []int
			for j := 0; j < 7; j++ {
				sizes = append(sizes, []int{0, 1, 2, 3, 5, 8, 13, 64, 127, 128, 129, 1000, 4095, 4096, 4097}[r.Intn(15)])
			}
			variant(fmt.Sprintf("random%v", sizes), func() *chunkReader { return &chunkReader{data: in, sizes: sizes, failAt: -1} })
		}
	}
	mustWriteNDJSON(outPath, events)
	sum.inc("families", fam)
	sum.done()
	return 0
}

func init() { cmds["c09-drive"] = c09Drive }
