package main

import (
	"encoding/json"
	"fmt"
	"io"
	"strings"

	"github.com/jf-tech/go-corelib/strs"

	"github.com/jf-tech/omniparser/extensions/omniv21/fileformat/edi"
	"github.com/jf-tech/omniparser/idr"
	"github.com/jf-tech/omniparser/transformctx"
)

type ediCfg struct {
	Comp       bool `json:"comp"`
	Rep        bool `json:"rep"`
	Rel        bool `json:"rel"`
	IgnoreCRLF bool `json:"ignoreCRLF"`
	SegIsLF    bool `json:"segIsLF"`
}

type c07Case struct {
	Cfg     ediCfg            `json:"cfg"`
	Str     []string          `json:"str"`
	Segs    [][][]interface{} `json:"segs"` // segment -> piece -> [elemIdx, compIdx, value symbols]
	Err     bool              `json:"err"`
	Nt      bool              `json:"nt"`
	Lookups [][]interface{}   `json:"lookups"`
}

// concrete renderings of the abstract symbols; variant 1 uses multi-byte delimiters
type ediSyms struct {
	seg, elem, comp, rep, rel string
	data                      map[string]string
}

func symsFor(cfg ediCfg, variant int) ediSyms {
	s := ediSyms{seg: "~", elem: "*", comp: ":", rep: "^", rel: "?", data: map[string]string{"a": "a", "b": "b", "r": "\r", "n": "\n"}}
	switch variant {
	case 1: // multi-byte runes as delimiters, multi-byte data
		s = ediSyms{seg: "¶", elem: "‖", comp: "§", rep: "€", rel: "¿", data: map[string]string{"a": "é", "b": "b", "r": "\r", "n": "\n"}}
	case 2: // two-character delimiters
		s = ediSyms{seg: "<>", elem: "||", comp: "::", rep: "^^", rel: "?", data: map[string]string{"a": "a", "b": "世", "r": "\r", "n": "\n"}}
	}
	if variant == 3 { // CR LF as the (two-character) segment delimiter: a lone LF and a lone CR are data
		s = ediSyms{seg: "\r\n", elem: "*", comp: ":", rep: "^", rel: "?", data: map[string]string{"a": "a", "b": "b", "r": "\r", "n": "\n"}}
	}
	if cfg.SegIsLF {
		s.data["S"] = s.seg // "S" is plain data when LF is the delimiter; keep its rendering as data
		s.seg = "\n"
	}
	return s
}

func (s ediSyms) render(cfg ediCfg, sym string) string {
	switch sym {
	case "S":
		if cfg.SegIsLF {
			return s.data["S"]
		}
		return s.seg
	case "E":
		return s.elem
	case "C":
		return s.comp
	case "R":
		return s.rep
	case "?":
		return s.rel
	case "n":
		return "\n"
	default:
		if v, ok := s.data[sym]; ok {
			return v
		}
		return sym
	}
}

func (s ediSyms) renderAll(cfg ediCfg, syms []interface{}) string {
	var sb strings.Builder
	for _, x := range syms {
		sb.WriteString(s.render(cfg, x.(string)))
	}
	return sb.String()
}

func (s ediSyms) fileDecl(cfg ediCfg) *edi.FileDecl {
	fd := &edi.FileDecl{SegDelim: s.seg, ElemDelim: s.elem, IgnoreCRLF: cfg.IgnoreCRLF}
	if cfg.Comp {
		fd.CompDelim = strs.StrPtr(s.comp)
	}
	if cfg.Rep {
		fd.RepDelim = strs.StrPtr(s.rep)
	}
	if cfg.Rel {
		fd.ReleaseChar = strs.StrPtr(s.rel)
	}
	return fd
}

type obsPiece struct {
	E, C int
	V    string
}

func c07Replay(args []string) int {
	sum := newSummary()
	nviol := 0
	declSets := [][][3]interface{}{
		{{1, 1, false}}, {{1, 1, false}, {1, 1, false}}, {{1, 2, false}, {1, 1, false}},
		{{2, 1, true}, {1, 1, false}}, {{2, 1, false}}, {{1, 1, false}, {2, 2, true}, {1, 1, false}},
	}
	err := readLines(args[0], func(line []byte) error {
		var c c07Case
		if e := json.Unmarshal(line, &c); e != nil {
			return e
		}
		for variant := 0; variant < 4; variant++ {
			if variant == 3 {
				// only where the rendering is unambiguous: no escapes, LF not the delimiter, CR/LF kept, and no data CR
				// directly in front of a data LF or of a delimiter
				ok := !c.Cfg.Rel && !c.Cfg.SegIsLF && !c.Cfg.IgnoreCRLF
				for i, x := range c.Str {
					if x == "r" && (i+1 == len(c.Str) || c.Str[i+1] == "n" || c.Str[i+1] == "S") {
						ok = false
					}
				}
				// (a segment that is empty or made of CR / LF only is a blank line under a newline delimiter: the rules
				// for those are the LF-delimiter configuration's, not generated here)
				seg, nseg := 0, 0
				for i, x := range c.Str {
					if x == "S" {
						if seg == 0 {
							ok = false
						}
						seg, nseg = 0, nseg+1
					} else if x != "r" && x != "n" {
						seg++
					}
					if i == len(c.Str)-1 && x != "S" && seg == 0 {
						ok = false
					}
				}
				if !ok {
					continue
				}
			}
			if variant == 2 && c.Cfg.Rel {
				// the release character escapes one character; with two-character delimiters "escaped delimiter"
				// is not a notion the abstract alphabet can express, so those renderings are used without escapes only
				continue
			}
			sy := symsFor(c.Cfg, variant)
			var strI []interface{}
			for _, x := range c.Str {
				strI = append(strI, x)
			}
			input := sy.renderAll(c.Cfg, strI)
			// expected pieces, concretised
			var exp [][]obsPiece
			for _, seg := range c.Segs {
				var ps []obsPiece
				for _, p := range seg {
					vals, _ := p[2].([]interface{})
					ps = append(ps, obsPiece{int(p[0].(float64)), int(p[1].(float64)), sy.renderAll(c.Cfg, vals)})
				}
				exp = append(exp, ps)
			}
			// (1) the tokenizer itself
			var got [][]obsPiece
			gotErr := false
			pv, _ := guarded(0, func() {
				r := edi.NewNonValidatingReader(strings.NewReader(input), sy.fileDecl(c.Cfg))
				for i := 0; i < len(c.Str)+3; i++ {
					rs, e := r.Read()
					if e == io.EOF {
						return
					}
					if e != nil {
						gotErr = true
						return
					}
					var ps []obsPiece
					for _, el := range rs.Elems {
						cp := append([]byte{}, el.Data...)
						var rel []byte
						if c.Cfg.Rel {
							rel = []byte(sy.rel)
						}
						ps = append(ps, obsPiece{el.ElemIndex, el.CompIndex, string(strs.ByteUnescape(cp, rel, true))})
					}
					got = append(got, ps)
				}
			})
			sum.eval(c.Nt, M{"c": c.Cfg, "i": input})
			if pv != "" || gotErr != c.Err || fmt.Sprint(got) != fmt.Sprint(exp) {
				nviol++
				if nviol <= 40 {
					violation("C07", fmt.Sprintf("tokenizer-mismatch-v%d", variant),
						fmt.Sprintf("input %q cfg %+v: expected %v err=%v, got %v err=%v %s", input, c.Cfg, exp, c.Err, got, gotErr, pv),
						M{"input": input, "cfg": c.Cfg, "variant": variant, "expected": exp, "actual": got, "symbols": c.Str})
				}
				continue
			}
			// (2) element lookup through the full reader (first segment only, ASCII variant): values handed to the transform
			if (variant != 0 && variant != 3) || len(c.Segs) == 0 || len(c.Lookups) != len(declSets) {
				continue
			}
			segName := exp[0][0].V
			if strings.ContainsAny(segName, "\"\\\r\n") || segName == "" {
				continue
			}
			// the segment *name* is matched raw (not unescaped): keep to names without a release character
			nameHasRel := false
			for _, x := range c.Str {
				if x == "E" {
					break
				}
				nameHasRel = nameHasRel || x == "?"
			}
			if nameHasRel {
				continue
			}
			for di, ds := range declSets {
				var elems []string
				// "a default is declared": either `default` or its older spelling `empty_if_missing` (= default "")
				dfltText := "DEFAULT"
				if (di+len(input))%2 == 1 {
					dfltText = ""
				}
				for k, d := range ds {
					e := fmt.Sprintf(`{"name": "e%d", "index": %d, "component_index": %d`, k+1, d[0], d[1])
					if d[2].(bool) {
						if dfltText == "" {
							e += `, "empty_if_missing": true`
						} else {
							e += `, "default": "DEFAULT"`
						}
					}
					elems = append(elems, e+"}")
				}
				fdj := fmt.Sprintf(`"segment_delimiter": %s, "element_delimiter": %s`, jstr(sy.seg), jstr(sy.elem))
				if c.Cfg.Comp {
					fdj += `, "component_delimiter": ` + jstr(sy.comp)
				}
				if c.Cfg.Rep {
					fdj += `, "repetition_delimiter": ` + jstr(sy.rep)
				}
				if c.Cfg.Rel {
					fdj += `, "release_character": ` + jstr(sy.rel)
				}
				if c.Cfg.IgnoreCRLF {
					fdj += `, "ignore_crlf": true`
				}
				schema := `{"parser_settings": {"version": "omni.2.1", "file_format_type": "edi"},
 "file_declaration": {` + fdj + `, "segment_declarations": [{"name": ` + jstr(segName) + `, "is_target": true, "max": -1, "elements": [` + strings.Join(elems, ", ") + `]}]},
 "transform_declarations": {"FINAL_OUTPUT": {"object": {"x": {"const": "1"}}}}}`
				sch, e, p := newSchema([]byte(schema))
				if e != nil || p != "" {
					sum.inc("schema_rejected", 1)
					continue
				}
				tr, e := sch.NewTransform("in", strings.NewReader(input), &transformctx.Ctx{})
				if e != nil {
					continue
				}
				var obs []interface{}
				pv, _ := guarded(0, func() {
					_, e := tr.Read()
					if e != nil {
						// EDITokens!ElemLookup "missing": a *fatal* error (the statement: "is a fatal error unless a default is
						// declared"); the class decides, the wording is not part of the property
						switch cl := classify(e); {
						case cl == "fatal":
							obs = []interface{}{"missing"}
						case strings.Contains(e.Error(), "unable to find element"):
							obs = []interface{}{"missing", "but the error is not fatal: " + cl}
						default:
							obs = []interface{}{"error", cl, e.Error()}
						}
						return
					}
					rr, _ := tr.RawRecord()
					n := rr.Raw().(*idr.Node)
					obs = []interface{}{"ok"}
					for k := range ds {
						var vals []interface{}
						for ch := n.FirstChild; ch != nil; ch = ch.NextSibling {
							if ch.Data == fmt.Sprintf("e%d", k+1) {
								vals = append(vals, ch.InnerText())
							}
						}
						obs = append(obs, vals)
					}
				})
				// expected, concretised
				lk := c.Lookups[di]
				var expL []interface{}
				if lk[0] == "missing" {
					expL = []interface{}{"missing"}
				} else {
					expL = []interface{}{"ok"}
					for _, vs := range lk[1:] {
						var vals []interface{}
						for _, v := range vs.([]interface{}) {
							if s, isStr := v.(string); isStr && s == "DEFAULT" {
								vals = append(vals, dfltText)
								continue
							}
							syms, _ := v.([]interface{})
							vals = append(vals, sy.renderAll(c.Cfg, syms))
						}
						expL = append(expL, vals)
					}
				}
				sum.eval(c.Nt, M{"s": schema, "i": input})
				if pv != "" || fmt.Sprint(obs) != fmt.Sprint(expL) {
					nviol++
					if nviol <= 40 {
						key := "element-lookup-mismatch"
						if di == 1 || di == 5 {
							key = "element-lookup-mismatch-same-element-declared-twice"
						}
						violation("C07", key, fmt.Sprintf("input %q decls %v: expected %v got %v %s", input, ds, expL, obs, pv),
							M{"input": input, "schema": schema, "expected": expL, "actual": obs})
					}
				}
			}
		}
		sum.sample(M{"cfg": c.Cfg, "symbols": c.Str, "expected_segments": c.Segs})
		return nil
	})
	if err != nil {
		fmt.Println("error:", err)
		return 3
	}
	sum.inc("mismatches", nviol)
	sum.done()
	return 0
}

func init() { cmds["c07-replay"] = c07Replay }

// ---- B2: logical segments with rich payloads, encoded by escaping; TLC re-tokenizes the logged symbol string

func c07Drive(args []string) int {
	outPath := args[0]
	n := 300
	if len(args) > 1 {
		fmt.Sscanf(args[1], "%d", &n)
	}
	r := rng(707)
	sum := newSummary()
	var events []interface{}
	dataAlpha := []string{"a", "b", "x", "1", " ", "é", "世", "🙂", "-", "_"}
	// wide segments: many elements / repetitions / components in one segment (EDITokens!ElemLookup has no size limit);
	// the declared elements sit at the far end, one more is declared beyond it with a default
	for _, nel := range []int{8, 30, 31, 32, 33, 34, 48, 100, 300} {
		for _, shape := range []string{"elements", "reps-and-components"} {
			var sb strings.Builder
			sb.WriteString("SEG")
			var decls []string
			want := map[string][]string{}
			if shape == "elements" {
				for e := 1; e <= nel; e++ {
					sb.WriteString(fmt.Sprintf("*v%d", e))
				}
				for _, e := range []int{1, nel - 1, nel} {
					decls = append(decls, fmt.Sprintf(`{"name": "e%d", "index": %d}`, e, e))
					want[fmt.Sprintf("e%d", e)] = []string{fmt.Sprintf("v%d", e)}
				}
				decls = append(decls, fmt.Sprintf(`{"name": "beyond", "index": %d, "default": "DFLT"}`, nel+1))
				want["beyond"] = []string{"DFLT"}
			} else {
				// nel pieces spread over 4 elements x reps x 3 components
				reps := nel/12 + 1
				for e := 1; e <= 4; e++ {
					sb.WriteString("*")
					for rp := 1; rp <= reps; rp++ {
						if rp > 1 {
							sb.WriteString("^")
						}
						sb.WriteString(fmt.Sprintf("c%d.%d.1:c%d.%d.2:c%d.%d.3", e, rp, e, rp, e, rp))
					}
				}
				decls = append(decls, `{"name": "last", "index": 4, "component_index": 3}`, `{"name": "first", "index": 1, "component_index": 1}`)
				for rp := 1; rp <= reps; rp++ {
					want["last"] = append(want["last"], fmt.Sprintf("c4.%d.3", rp))
					want["first"] = append(want["first"], fmt.Sprintf("c1.%d.1", rp))
				}
			}
			sb.WriteString("~SEG*tail")
			for e := 2; e <= 4; e++ {
				sb.WriteString("*t:t:t")
			}
			sb.WriteString("~")
			schema := `{"parser_settings": {"version": "omni.2.1", "file_format_type": "edi"},
 "file_declaration": {"segment_delimiter": "~", "element_delimiter": "*", "component_delimiter": ":", "repetition_delimiter": "^",
   "segment_declarations": [{"name": "SEG", "is_target": true, "min": 0, "max": -1, "elements": [` + strings.Join(decls, ", ") + `]}]},
 "transform_declarations": {"FINAL_OUTPUT": {"object": {"x": {"const": "1"}}}}}`
			sch, e, p := newSchema([]byte(schema))
			if e != nil || p != "" {
				fmt.Println("error: wide-segment schema rejected", e, p)
				return 3
			}
			tr, e := sch.NewTransform("in", strings.NewReader(sb.String()), &transformctx.Ctx{})
			if e != nil {
				continue
			}
			got := map[string][]string{}
			var rerr error
			pv, _ := guarded(0, func() {
				if _, rerr = tr.Read(); rerr != nil {
					return
				}
				rr, _ := tr.RawRecord()
				nd := rr.Raw().(*idr.Node)
				for ch := nd.FirstChild; ch != nil; ch = ch.NextSibling {
					got[ch.Data] = append(got[ch.Data], ch.InnerText())
				}
			})
			sum.eval(true, M{"wide": nel, "shape": shape})
			if pv != "" || rerr != nil || fmt.Sprint(got) != fmt.Sprint(want) {
				violation("C07", "wide-segment", fmt.Sprintf("segment with %d pieces (%s): declared elements expected %v, got %v %v %s", nel, shape, want, got, rerr, pv),
					M{"schema": schema, "input": sb.String()[:min(len(sb.String()), 400)]})
			}
		}
	}
	for ci := 0; ci < n; ci++ {
		cfg := ediCfg{Comp: r.Intn(2) == 0, Rep: r.Intn(3) == 0, Rel: true, IgnoreCRLF: false, SegIsLF: r.Intn(4) == 0}
		variant := r.Intn(2)
		sy := symsFor(cfg, variant)
		// logical segments: name + elements of components; values may consist of delimiter/release symbols only
		var str []string
		var logical [][]obsPiece
		nseg := 1 + r.Intn(3)
		long := r.Intn(8) == 0
		for s := 0; s < nseg; s++ {
			var pieces []obsPiece
			name := []string{[]string{"a", "b", "x"}[r.Intn(3)], dataAlpha[r.Intn(4)]}
			str = append(str, name...)
			pieces = append(pieces, obsPiece{0, 1, sy.renderAll(cfg, toIface(name))})
			nel := r.Intn(5)
			for e := 1; e <= nel; e++ {
				str = append(str, "E")
				ncomp := 1
				if cfg.Comp {
					ncomp = 1 + r.Intn(3)
				}
				for cidx := 1; cidx <= ncomp; cidx++ {
					if cidx > 1 {
						str = append(str, "C")
					}
					var val []string
					vl := r.Intn(6)
					if long && e == 1 && cidx == 1 {
						vl = 100 + r.Intn(3000)
					}
					for k := 0; k < vl; k++ {
						if r.Intn(4) == 0 {
							val = append(val, []string{"S", "E", "C", "R", "?", "n"}[r.Intn(6)])
						} else {
							val = append(val, dataAlpha[r.Intn(len(dataAlpha))])
						}
					}
					// a CR directly before an LF delimiter is dropped by rule: do not end a value with it there
					// encode: release character before every special symbol
					for _, v := range val {
						special := v == "E" || v == "?" || (v == "S" && !cfg.SegIsLF) || (v == "n" && cfg.SegIsLF) || (v == "C" && cfg.Comp) || (v == "R" && cfg.Rep)
						if special {
							str = append(str, "?")
						}
						str = append(str, v)
					}
					pieces = append(pieces, obsPiece{e, cidx, sy.renderAll(cfg, toIface(val))})
				}
			}
			if cfg.SegIsLF {
				str = append(str, "n")
			} else {
				str = append(str, "S")
			}
			logical = append(logical, pieces)
		}
		input := sy.renderAll(cfg, toIface(str))
		var got [][]obsPiece
		gotErr := ""
		pv, _ := guarded(0, func() {
			rd := edi.NewNonValidatingReader(&chunkReader{data: []byte(input), sizes: []int{1 + r.Intn(200)}, failAt: -1}, sy.fileDecl(cfg))
			for i := 0; i < nseg+2; i++ {
				rs, e := rd.Read()
				if e == io.EOF {
					return
				}
				if e != nil {
					gotErr = e.Error()
					return
				}
				var ps []obsPiece
				for _, el := range rs.Elems {
					cp := append([]byte{}, el.Data...)
					ps = append(ps, obsPiece{el.ElemIndex, el.CompIndex, string(strs.ByteUnescape(cp, []byte(sy.rel), true))})
				}
				got = append(got, ps)
			}
		})
		sum.eval(true, M{"i": ci})
		if pv != "" || gotErr != "" || fmt.Sprint(got) != fmt.Sprint(logical) {
			violation("C07", "roundtrip-mismatch", fmt.Sprintf("a logical segment encoded by escaping does not tokenize back to its values: %s %s", gotErr, pv),
				M{"input": input, "cfg": cfg, "expected": logical, "actual": got})
			continue
		}
		if len(str) <= 300 {
			// observed pieces as symbol sequences for TLC
			var obs [][][]interface{}
			for _, seg := range got {
				var ps [][]interface{}
				for _, p := range seg {
					ps = append(ps, []interface{}{p.E, p.C, p.V})
				}
				obs = append(obs, ps)
			}
			symMap := map[string]string{"S": sy.render(cfg, "S"), "E": sy.elem, "C": sy.comp, "R": sy.rep, "?": sy.rel, "n": "\n", "r": "\r"}
			for k, v := range sy.data {
				if _, dup := symMap[k]; !dup {
					symMap[k] = v
				}
			}
			events = append(events, M{"tr": len(events) + 1, "cfg": cfg, "str": str, "syms": symMap, "obs": obs})
			sum.Traces++
		}
		if ci == 0 {
			sum.sample(M{"cfg": cfg, "input": input})
		}
	}
	mustWriteNDJSON(outPath, events)
	sum.done()
	return 0
}

func toIface(s []string) []interface{} {
	out := make([]interface{}, len(s))
	for i, x := range s {
		out[i] = x
	}
	return out
}

func init() { cmds["c07-drive"] = c07Drive }
