package main

import (
	"fmt"
	"time"

	"github.com/jf-tech/omniparser/customfuncs"
)

func init() {
	cmds["probe"] = func(args []string) int {
		for _, z := range []string{"America/New_York", "Asia/Kathmandu", "Pacific/Kiritimati", "Etc/GMT+12", "Australia/Lord_Howe"} {
			_, err := time.LoadLocation(z)
			fmt.Println(z, err)
		}
		fmt.Println(customfuncs.DateTimeToEpoch(nil, "9999-12-31T23:59:59Z", "", "MILLISECOND"))
		fmt.Println(customfuncs.DateTimeToEpoch(nil, "9999-12-31T23:59:59Z", "", "SECOND"))
		fmt.Println(customfuncs.EpochToDateTimeRFC3339(nil, "253402300799000", "MILLISECOND"))
		fmt.Println(customfuncs.DateTimeToRFC3339(nil, "0001-01-01T00:00:00", "America/New_York", "Asia/Tokyo"))
		return 0
	}
}
