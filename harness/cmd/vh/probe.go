package main

import "fmt"

func init() {
	cmds["probe"] = func(args []string) int {
		s := `{"parser_settings": {"version": "omni.2.1", "file_format_type": "xml"},
 "transform_declarations": {"FINAL_OUTPUT": {"object": {"a": {"template": "T"}}},
   "T": {"xpath_dynamic": {"custom_func": {"name": "concat", "args": [null]}}}}}`
		_, err, p := newSchema([]byte(s))
		fmt.Println("err:", err, "panic:", p)
		return 0
	}
}
