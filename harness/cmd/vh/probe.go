package main

import (
	"fmt"
	"strings"
)

// scratch command for ad-hoc experiments while building checks; not used by any registered check
func init() {
	cmds["probe"] = func(args []string) int {
		for _, sc := range []string{
			`{"parser_settings": {"version": "omni.2.1", "file_format_type": "xml"}, "transform_declarations": {"FINAL_OUTPUT": {"xpath": "/r/a[b mod 2 = 1]", "object": {"x": {"xpath": "b"}}}}}`,
			`{"parser_settings": {"version": "omni.2.1", "file_format_type": "xml"}, "transform_declarations": {"FINAL_OUTPUT": {"xpath": "/r/a", "object": {"x": {"xpath": "b[. mod 2 = 1]"}}}}}`,
			`{"parser_settings": {"version": "omni.2.1", "file_format_type": "xml"}, "transform_declarations": {"FINAL_OUTPUT": {"xpath": "/r/a", "object": {"x": {"xpath": ".[b mod 2 = 1]/b"}}}}}`,
			`{"parser_settings": {"version": "omni.2.1", "file_format_type": "xml"}, "transform_declarations": {"FINAL_OUTPUT": {"xpath": "/r/a", "object": {"x": {"xpath": ".[b + 1 = 2]/b"}}}}}`,
			`{"parser_settings": {"version": "omni.2.1", "file_format_type": "xml"}, "transform_declarations": {"FINAL_OUTPUT": {"xpath": "/r/a", "object": {"x": {"xpath": ".[b * 2 = 2]/b"}}}}}`,
			`{"parser_settings": {"version": "omni.2.1", "file_format_type": "xml"}, "transform_declarations": {"FINAL_OUTPUT": {"xpath": "/r/a", "object": {"x": {"xpath": ".[b div 1 = 1]/b"}}}}}`,
			`{"parser_settings": {"version": "omni.2.1", "file_format_type": "xml"}, "transform_declarations": {"FINAL_OUTPUT": {"xpath": "/r/a", "object": {"x": {"xpath": ".[-b = -1]/b"}}}}}`,
		} {
			o := runRobust([]byte(sc), []byte(`<r><a><b>1</b></a><a><b>2</b></a></r>`))
			fmt.Println(o.Panic != "", strings.Split(o.Panic, "\n")[0], o.Stage, o.Site)
		}
		return 0
	}
}
