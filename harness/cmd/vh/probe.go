package main

import (
	"fmt"
	"strings"
)

func init() {
	cmds["probe"] = func(args []string) int {
		for _, s := range miniSamples() {
			sch, err, p := newSchema(s.Schema)
			if err != nil || p != "" {
				fmt.Println(s.Name, "SCHEMA ERR", err, p)
				continue
			}
			o := runTranscript(sch, strings.NewReader(string(s.Input)), RunOpts{MaxReads: 50})
			fmt.Println(s.Name, o.NewTrErr, o.Panic)
			for _, r := range o.Results {
				fmt.Printf("   %s %s %s\n", r.Class, r.Out, r.Err)
			}
		}
		return 0
	}
}
