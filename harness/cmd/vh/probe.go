package main

import (
	"fmt"
	"strings"
)

func init() {
	cmds["probe"] = func(args []string) int {
		for _, f := range c10Formats() {
			if f.Name != args[0] {
				continue
			}
			sch, err, p := newSchema([]byte(f.Schema))
			fmt.Println(err, p)
			o := runTranscript(sch, strings.NewReader(f.Wrap(f.OK[:1])), RunOpts{MaxReads: 5})
			fmt.Printf("%+v\n", o)
		}
		return 0
	}
}
