package main

import (
	"fmt"
	"strings"

	"github.com/jf-tech/omniparser/idr"
)

func init() {
	cmds["probe"] = func(args []string) int {
		for _, doc := range []string{
			`<root xmlns:p="urn:p"><r:x xmlns:r="urn:p"/><p:c/></root>`,
			`<root xmlns:p="urn:p"><p:x xmlns:p="urn:other"><p:y/></p:x><p:c/></root>`,
			`<root xmlns="urn:d"><x xmlns=""><y/></x><c/></root>`,
			`<root xmlns:p="urn:p" xmlns:q="urn:p"><p:a/><q:a/></root>`,
		} {
			sr, err := idr.NewXMLStreamReader(strings.NewReader(doc), "/*")
			if err != nil {
				fmt.Println(err)
				continue
			}
			n, err := sr.Read()
			fmt.Println(doc, err)
			if err == nil {
				fmt.Println("   ", idr.JSONify2(n))
			}
		}
		return 0
	}
}
