package main

import (
	"fmt"
	"os"
)

func init() {
	cmds["probe"] = func(args []string) int {
		r, err := wholeDocSelect(os.Args[2], os.Args[3])
		fmt.Println(r, err)
		return 0
	}
}
