package main

import (
	"context"
	"errors"
	"fmt"
	"io"
	"os"
	"strings"
	"time"

	"github.com/jf-tech/omniparser"
	"github.com/jf-tech/omniparser/transformctx"
)

// C16: the input io.Reader fails with a non-EOF error at byte position p (persistently, or first with a
// "temporary" error and persistently afterwards), under whole-buffer and 1-byte delivery.

type faultRun struct {
	fps       []string
	classes   []string
	lastClass string
	sticky    bool
	panicked  string
	timedOut  bool
	reached   bool // the reader actually returned the injected error
	lastErr   string
}

func runFaulted(sch omniparser.Schema, cr *chunkReader, bound int) faultRun {
	return runFaultedGeneric(sch, cr, cr, bound)
}

var errTemporary = errors.New("injected temporary I/O failure")

type twoPhaseErrReader struct {
	inner *chunkReader
	first bool
}

func (t *twoPhaseErrReader) Read(p []byte) (int, error) {
	n, err := t.inner.Read(p)
	if err == errInjected && !t.first {
		t.first = true
		return n, errTemporary
	}
	return n, err
}

func c16Drive(args []string) int {
	outPath := args[0]
	maxEvery, nSample, includeBig := 500, 40, false
	if len(args) > 1 {
		fmt.Sscanf(args[1], "%d", &maxEvery)
	}
	if len(args) > 2 {
		fmt.Sscanf(args[2], "%d", &nSample)
	}
	if len(args) > 3 && args[3] == "big" {
		includeBig = true
	}
	items, err := multiRunCorpus(includeBig)
	if err != nil {
		fmt.Println("error:", err)
		return 3
	}
	r := rng(1616)
	sum := newSummary()
	var events []interface{}
	fam := 0
	for _, it := range items {
		fam++
		in := it.Input
		gold := transcriptOf(it.sch, &chunkReader{data: in, failAt: -1}, 100000)
		base := fpAll(gold, "classout")
		var positions []int
		if len(in) <= maxEvery {
			for p := 0; p <= len(in); p++ {
				positions = append(positions, p)
			}
		} else {
			positions = append(positions, 0, 1, 2, 3, len(in)-1, len(in))
			for k := 0; k < nSample; k++ {
				positions = append(positions, r.Intn(len(in)+1))
			}
		}
		for pi, pos := range positions {
			for mode := 0; mode < 2; mode++ {
				for si, sizes := range [][]int{nil, {1}} {
					// (the three kinds of Ctx rotate over the positions; every position sees each of them within three
					// neighbouring positions of the same mode / delivery)
					c16CtxMode = (pi + mode + si) % 3
					// ... and so do the error values a real source fails with (the property says "a non-EOF error"): a
					// generic one, the one truncated gzip / short HTTP bodies report, a closed pipe, a timeout, a cancellation
					failErr := c16Errors[(pi+2*mode+3*si)%len(c16Errors)]
					cr := &chunkReader{data: in, sizes: sizes, failAt: pos, failErr: failErr}
					var rd io.Reader = cr
					if mode == 1 {
						rd = &twoPhaseErrReader{inner: cr}
					}
					_ = rd
					var fr faultRun
					if mode == 1 {
						// the two-phase reader wraps cr; runFaulted needs cr for bookkeeping
						fr = runFaultedWith(it.sch, rd, cr, len(base)+2)
					} else {
						fr = runFaulted(it.sch, cr, len(base)+2)
					}
					desc := M{"item": it.Name, "pos": pos, "mode": []string{"persistent", "temporary-then-persistent"}[mode], "one_byte": sizes != nil,
						"ctx": []string{"fresh", "served an earlier transform", "caller-set CtxAwareErr"}[c16CtxMode], "error": failErr.Error()}
					sum.eval(pos > 0 && pos < len(in), desc)
					if fr.panicked != "" {
						violation("C16", "panic-on-reader-error", "panic after a reader error: "+fr.panicked, desc)
						continue
					}
					if fr.timedOut {
						violation("C16", "hang-on-reader-error-"+it.Format, "a call did not return within 2s after the reader started failing", desc)
						continue
					}
					if !fr.reached && fr.lastClass == "eof" {
						// the faulty reader never says io.EOF (it fails instead): an end-of-input result that was reached
						// without asking the reader to the end is unfounded - the failure is there and goes unreported
						violation("C16", "eof-without-reader-eof:"+it.Format, fmt.Sprintf("%s: the transform reports io.EOF although the input reader never reported EOF (it fails after %d of %d bytes; the transform stopped reading before that)",
							it.Name, pos, len(in)), desc)
						continue
					}
					if !fr.reached {
						// the transform finished without ever seeing the failure: then it must equal the fault-free run
						events = append(events, M{"ev": "golden", "tr": len(events) + 1, "results": base})
						events = append(events, M{"ev": "same", "tr": len(events), "results": fr.fps, "desc": desc})
						continue
					}
					events = append(events, M{"ev": "fault", "tr": len(events) + 1, "base": base, "faulted": fr.fps, "classes": fr.classes,
						"lastclass": fr.lastClass, "bound": len(base) + 2, "sticky": fr.sticky, "desc": desc, "lasterr": fr.lastErr, "format": it.Format})
					sum.Traces++
				}
			}
		}
		if fam == 1 {
			sum.sample(M{"item": it.Name, "fault_free": base, "positions": len(positions)})
		}
	}
	c16CtxMode = 0
	mustWriteNDJSON(outPath, events)
	sum.done()
	return 0
}

// runFaultedWith is runFaulted for a reader that wraps the bookkeeping chunkReader.
func runFaultedWith(sch omniparser.Schema, rd io.Reader, cr *chunkReader, bound int) faultRun {
	w := &wrapReader{rd: rd, cr: cr}
	return runFaultedGeneric(sch, w, cr, bound)
}

type wrapReader struct {
	rd io.Reader
	cr *chunkReader
}

func (w *wrapReader) Read(p []byte) (int, error) { return w.rd.Read(p) }

// the Ctx a faulted run is given: a fresh one; one that already served an earlier, finished transform of the same Schema
// (its CtxAwareErr is still that transform's); one whose CtxAwareErr the caller set itself (the documented option)
var c16CtxMode = 0

type timeoutErr struct{}

func (timeoutErr) Error() string   { return "i/o timeout" }
func (timeoutErr) Timeout() bool   { return true }
func (timeoutErr) Temporary() bool { return true }

var c16Errors = []error{errInjected, io.ErrUnexpectedEOF, io.ErrClosedPipe, timeoutErr{}, context.Canceled, io.ErrNoProgress, os.ErrDeadlineExceeded}

type callerCtxErr struct{}

func (callerCtxErr) FmtErr(format string, args ...interface{}) error {
	return fmt.Errorf("caller: "+format, args...)
}

func c16Ctx(sch omniparser.Schema) *transformctx.Ctx {
	switch c16CtxMode {
	case 1:
		ctx := &transformctx.Ctx{}
		if tr, err := sch.NewTransform("earlier", strings.NewReader(""), ctx); err == nil {
			tr.Read()
		}
		return ctx
	case 2:
		return &transformctx.Ctx{CtxAwareErr: callerCtxErr{}}
	}
	return &transformctx.Ctx{}
}

func runFaultedGeneric(sch omniparser.Schema, rd io.Reader, cr *chunkReader, bound int) faultRun {
	var fr faultRun
	var tr omniparser.Transform
	var err error
	ctx := c16Ctx(sch)
	p, to := guarded(2*time.Second, func() {
		tr, err = sch.NewTransform("input", rd, ctx)
	})
	if p != "" || to {
		fr.panicked, fr.timedOut = p, to
		return fr
	}
	if err != nil {
		fr.fps, fr.classes, fr.lastClass, fr.sticky, fr.lastErr = []string{"fatal|newtransform"}, []string{"fatal"}, "fatal", true, err.Error()
		fr.reached = cr.failures > 0
		return fr
	}
	var last error
	for i := 0; i < bound+2; i++ {
		var b []byte
		p, to := guarded(2*time.Second, func() { b, err = tr.Read() })
		if p != "" || to {
			fr.panicked, fr.timedOut = p, to
			return fr
		}
		r := Res{Class: classify(err), Out: string(b)}
		fr.fps = append(fr.fps, fpRes(r, "classout"))
		fr.classes = append(fr.classes, r.Class)
		fr.lastClass = r.Class
		last = err
		if r.Class == "eof" || r.Class == "fatal" {
			fr.lastErr = err.Error()
			break
		}
	}
	fr.reached = cr.failures > 0
	if fr.lastClass == "eof" || fr.lastClass == "fatal" {
		fr.sticky = true
		for k := 0; k < 2; k++ {
			var e2 error
			var b2 []byte
			p, to := guarded(2*time.Second, func() { b2, e2 = tr.Read() })
			if p != "" || to {
				fr.panicked, fr.timedOut = p, to
				return fr
			}
			if b2 != nil || e2 == nil || (e2 != last && e2.Error() != last.Error()) {
				fr.sticky = false
			}
		}
	}
	return fr
}

func init() { cmds["c16-drive"] = c16Drive }
