package main

import (
	"bytes"
	"encoding/json"
	"fmt"
	"regexp"
	"runtime/debug"
	"sort"
	"strings"
	"time"

	"github.com/jf-tech/omniparser"
	"github.com/jf-tech/omniparser/transformctx"
)

// C03: schemas and inputs are untrusted data.  Structural mutation of schemas, bytewise mutation of inputs; every call
// under recover and a watchdog; reads bounded by the input size.

var frameRe = regexp.MustCompile(`(github\.com/jf-tech/omniparser[^\s]*?)\((?:0x|\.\.\.|\))`)

// guardedStack is guarded() that also reports the first omniparser frame of a panic's stack
func guardedStack(d time.Duration, f func()) (panicked, site string, timedOut bool) {
	type res struct{ p, s string }
	done := make(chan res, 1)
	go func() {
		defer func() {
			if r := recover(); r != nil {
				st := string(debug.Stack())
				site := "unknown"
				for _, m := range frameRe.FindAllStringSubmatch(st, -1) {
					if !strings.Contains(m[1], "verif") {
						site = m[1]
						break
					}
				}
				done <- res{fmt.Sprint(r), site}
				return
			}
			done <- res{}
		}()
		f()
	}()
	select {
	case r := <-done:
		return r.p, r.s, false
	case <-time.After(d):
		return "", "", true
	}
}

type robustOutcome struct {
	Stage   string // "newschema" | "newtransform" | "read"
	Panic   string
	Site    string
	Timeout bool
	Reads   int
	End     string // rejected | newtransform-error | eof | fatal | unbounded
}

var xpathArithPanic = regexp.MustCompile(`reflect\.Value\.Convert: value of type \*xpath\.\w+ cannot be converted to type float64`)

func runRobust(schema, input []byte) robustOutcome {
	var sch omniparser.Schema
	var err error
	p, site, to := guardedStack(5*time.Second, func() { sch, err = omniparser.NewSchema("s", bytes.NewReader(schema)) })
	if p != "" || to {
		return robustOutcome{Stage: "newschema", Panic: p, Site: site, Timeout: to}
	}
	if err != nil {
		return robustOutcome{Stage: "newschema", End: "rejected"}
	}
	var tr omniparser.Transform
	p, site, to = guardedStack(5*time.Second, func() {
		tr, err = sch.NewTransform("in", bytes.NewReader(input), &transformctx.Ctx{ExternalProperties: map[string]string{"p": "v"}})
	})
	if p != "" || to {
		return robustOutcome{Stage: "newtransform", Panic: p, Site: site, Timeout: to}
	}
	if err != nil {
		return robustOutcome{Stage: "newtransform", End: "newtransform-error"}
	}
	bound := len(input) + 3
	for i := 0; i < bound; i++ {
		var e error
		p, site, to = guardedStack(3*time.Second, func() { _, e = tr.Read() })
		if p != "" || to {
			return robustOutcome{Stage: "read", Panic: p, Site: site, Timeout: to, Reads: i + 1}
		}
		if c := classify(e); c == "eof" || c == "fatal" {
			return robustOutcome{Stage: "read", Reads: i + 1, End: c}
		}
	}
	return robustOutcome{Stage: "read", Reads: bound, End: "unbounded"}
}

// ---- structural schema mutation

type jpath []interface{} // keys (string) and indices (int)

func collectPaths(v interface{}, cur jpath, out *[]jpath) {
	switch x := v.(type) {
	case map[string]interface{}:
		keys := make([]string, 0, len(x))
		for k := range x {
			keys = append(keys, k)
		}
		sort.Strings(keys)
		for _, k := range keys {
			p := append(append(jpath{}, cur...), k)
			*out = append(*out, p)
			collectPaths(x[k], p, out)
		}
	case []interface{}:
		for i := range x {
			p := append(append(jpath{}, cur...), i)
			*out = append(*out, p)
			collectPaths(x[i], p, out)
		}
	}
}

func deepCopyJSON(v interface{}) interface{} {
	b, _ := json.Marshal(v)
	var o interface{}
	_ = json.Unmarshal(b, &o)
	return o
}

// setAt replaces (or deletes when del) the value at path p
func setAt(root interface{}, p jpath, val interface{}, del bool) interface{} {
	if len(p) == 0 {
		return val
	}
	switch x := root.(type) {
	case map[string]interface{}:
		k := p[0].(string)
		if len(p) == 1 {
			if del {
				delete(x, k)
			} else {
				x[k] = val
			}
			return x
		}
		x[k] = setAt(x[k], p[1:], val, del)
		return x
	case []interface{}:
		i := p[0].(int)
		if len(p) == 1 {
			if del {
				return append(x[:i], x[i+1:]...)
			}
			x[i] = val
			return x
		}
		x[i] = setAt(x[i], p[1:], val, del)
		return x
	}
	return root
}

func getAt(root interface{}, p jpath) interface{} {
	cur := root
	for _, k := range p {
		switch x := cur.(type) {
		case map[string]interface{}:
			cur = x[k.(string)]
		case []interface{}:
			cur = x[k.(int)]
		}
	}
	return cur
}

var mutValues = []interface{}{nil, true, 0.0, -1.0, 1e18, 2.0, "", " ", "(", "[", "\\", "\"", "\n", "\r\n", "�", "é", "//", "a[", "..", "FINAL_OUTPUT",
	[]interface{}{}, []interface{}{nil}, map[string]interface{}{}, map[string]interface{}{"x": nil}, map[string]interface{}{"xpath": "."},
	map[string]interface{}{"custom_func": map[string]interface{}{"name": "concat", "args": []interface{}{nil}}},
	map[string]interface{}{"object": map[string]interface{}{"x": nil}}, map[string]interface{}{"array": []interface{}{nil}},
	map[string]interface{}{"template": "FINAL_OUTPUT"}, map[string]interface{}{"xpath_dynamic": map[string]interface{}{"const": "("}}, "javascript", "lower", "copy", "int", "segment_group"}

func pathString(p jpath) string {
	var sb strings.Builder
	for _, k := range p {
		sb.WriteString(fmt.Sprintf("/%v", k))
	}
	return sb.String()
}

// boundarySchemas: every number of a schema set, one at a time, to the values at which integer arithmetic on it wraps
// (the JSON schemas only bound these numbers from below): a schema the library accepts may say "the rest of the line"
// or "a column that is never there" this way, and must be served like any other.
var boundaryNumbers = []string{"9223372036854775807", "9223372036854775806", "4611686018427387904", "2147483648"}

type boundarySchema struct {
	Desc   string
	Schema []byte
}

func boundarySchemas(schema []byte) []boundarySchema {
	var root interface{}
	if json.Unmarshal(schema, &root) != nil {
		return nil
	}
	var paths []jpath
	collectPaths(root, nil, &paths)
	var out []boundarySchema
	for _, p := range paths {
		if _, ok := getAt(root, p).(float64); !ok {
			continue
		}
		for _, v := range boundaryNumbers {
			m := setAt(deepCopyJSON(root), p, json.Number(v), false)
			mb, _ := json.Marshal(m)
			out = append(out, boundarySchema{"number " + pathString(p) + " = " + v, mb})
		}
	}
	return out
}

// c03-drive <out.ndjson> <nSchemaMut per schema> <nInputMut per schema>
func c03Drive(args []string) int {
	nsm, nim := 60, 40
	if len(args) > 1 {
		fmt.Sscanf(args[1], "%d", &nsm)
	}
	if len(args) > 2 {
		fmt.Sscanf(args[2], "%d", &nim)
	}
	r := rng(303)
	sum := newSummary()
	var events []interface{}
	seenViol := map[string]bool{}
	record := func(kind, name, mutation string, schema, input []byte, o robustOutcome) {
		ev := M{"ev": "run", "tr": len(events) + 1, "kind": kind, "item": name, "mutation": mutation, "stage": o.Stage, "panic": o.Panic != "", "timeout": o.Timeout,
			"reads": o.Reads, "bytes": len(input), "end": o.End, "site": o.Site}
		if o.Panic != "" || o.Timeout || o.End == "unbounded" {
			key := "hang:" + o.Stage + ":" + name
			if o.Panic != "" {
				key = "panic:" + o.Site
				if xpathArithPanic.MatchString(o.Panic) {
					// one defect of the xpath engine reached from every query entry point: keyed by what it is, not by where
					key = "panic:xpath-engine:arithmetic-on-node-set"
				}
			} else if o.End == "unbounded" {
				key = "unbounded-reads:" + name
			}
			ev["key"] = key
			if !seenViol[key] { // keep the first reproducer of every distinct site
				seenViol[key] = true
				ev["schema"] = string(schema)
				in := string(input)
				if len(in) > 2000 {
					in = in[:2000]
				}
				ev["input"] = in
				ev["panic_text"] = o.Panic
			}
		}
		events = append(events, ev)
		sum.Traces++
		sum.eval(o.End != "rejected" || kind == "schema-mutation", M{"k": kind, "n": name, "m": mutation})
	}
	corpus := append(append(miniSamples(), generatedSamples()...), repoSamples()...)
	for _, s := range corpus {
		if len(s.Schema) > 40000 {
			continue // the 300 KB X12 schema: mutation rounds on it are too slow for little gain
		}
		var root interface{}
		if e := json.Unmarshal(s.Schema, &root); e != nil {
			continue
		}
		in := s.Input
		if len(in) > 3000 {
			in = in[:3000]
		}
		record("baseline", s.Name, "", s.Schema, in, runRobust(s.Schema, in))
		// (1) schema mutations: one structural change at a random position
		var paths []jpath
		collectPaths(root, nil, &paths)
		for k := 0; k < nsm && len(paths) > 0; k++ {
			p := paths[r.Intn(len(paths))]
			m := deepCopyJSON(root)
			desc := ""
			switch r.Intn(6) {
			case 0:
				m = setAt(m, p, nil, true)
				desc = "delete " + pathString(p)
			case 1:
				// replace by a value of another JSON type / odd content
				v := mutValues[r.Intn(len(mutValues))]
				m = setAt(m, p, deepCopyJSON(v), false)
				vb, _ := json.Marshal(v)
				desc = "set " + pathString(p) + " = " + string(vb)
			case 2:
				// numbers: 0 / -1 / huge; strings: metacharacters
				switch getAt(m, p).(type) {
				case float64:
					v := []float64{0, -1, 1, 2, 1e9, -5}[r.Intn(6)]
					m = setAt(m, p, v, false)
					desc = fmt.Sprintf("number %s = %v", pathString(p), v)
				case string:
					v := []string{"", "\"", "\n", "\r", "?", "*", "~", "(", "é", "�", "\\d+(", "^", "a|b", "\t"}[r.Intn(14)]
					m = setAt(m, p, v, false)
					desc = fmt.Sprintf("string %s = %q", pathString(p), v)
				default:
					m = setAt(m, p, nil, false)
					desc = "null " + pathString(p)
				}
			case 3:
				// copy a subtree from somewhere else (cyclic templates, misplaced declarations)
				q := paths[r.Intn(len(paths))]
				m = setAt(m, p, deepCopyJSON(getAt(root, q)), false)
				desc = "copy " + pathString(q) + " -> " + pathString(p)
			case 4:
				// custom_func arity / names
				if mm, ok := getAt(m, p).(map[string]interface{}); ok {
					if cf, ok := mm["custom_func"].(map[string]interface{}); ok {
						switch r.Intn(3) {
						case 0:
							cf["args"] = []interface{}{}
						case 1:
							cf["name"] = []string{"lower", "concat", "copy", "javascript", "javascript_with_context", "dateTimeToRFC3339", "coalesce", "uuidv3", "now", "epochToDateTimeRFC3339"}[r.Intn(10)]
						default:
							if a, ok := cf["args"].([]interface{}); ok {
								cf["args"] = append(a, map[string]interface{}{"const": "1", "type": "int"}, map[string]interface{}{"const": "x"})
							}
						}
						desc = "custom_func tweak at " + pathString(p)
					}
				}
				if desc == "" {
					m = setAt(m, p, map[string]interface{}{"custom_func": map[string]interface{}{"name": "lower", "args": []interface{}{}}}, false)
					desc = "set " + pathString(p) + " = lower()"
				}
			default:
				// occurrence bounds and flags wherever an object is
				if mm, ok := getAt(m, p).(map[string]interface{}); ok {
					k := []string{"min", "max", "rows", "is_target", "type", "index", "start_pos", "length", "line_index", "component_index", "data_row_index", "header_row_index"}[r.Intn(12)]
					mm[k] = []interface{}{0.0, -1.0, 2.0, 1e6, true, "segment_group", "record_group", "envelope_group", nil}[r.Intn(9)]
					desc = fmt.Sprintf("inject %s at %s", k, pathString(p))
				} else {
					m = setAt(m, p, nil, false)
					desc = "null " + pathString(p)
				}
			}
			mb, _ := json.Marshal(m)
			record("schema-mutation", s.Name, desc, mb, in, runRobust(mb, in))
		}
		// (1b) every number of the schema at the integer boundaries, exhaustively
		for _, b := range boundarySchemas(s.Schema) {
			record("schema-boundary", s.Name, b.Desc, b.Schema, in, runRobust(b.Schema, in))
		}
		// (2) input mutations on the accepted schema
		for k := 0; k < nim; k++ {
			var mi []byte
			desc := ""
			switch r.Intn(6) {
			case 0:
				cut := 0
				if len(in) > 0 {
					cut = r.Intn(len(in))
				}
				mi, desc = append([]byte{}, in[:cut]...), fmt.Sprintf("truncate@%d", cut)
			case 1:
				mi = append([]byte{}, in...)
				for j := 0; j < 1+r.Intn(4) && len(mi) > 0; j++ {
					mi[r.Intn(len(mi))] = byte(r.Intn(256))
				}
				desc = "flip bytes"
			case 2:
				mi, desc = append(append([]byte{}, in...), in...), "concatenate twice"
			case 3:
				mi = make([]byte, r.Intn(200))
				for j := range mi {
					mi[j] = byte(r.Intn(256))
				}
				desc = "binary noise"
			case 4:
				if len(in) > 2 {
					a, b := r.Intn(len(in)), r.Intn(len(in))
					if a > b {
						a, b = b, a
					}
					mi = append(append([]byte{}, in[b:]...), in[:a]...)
				}
				desc = "splice"
			default:
				mi, desc = []byte(strings.Repeat(string(in[:min(len(in), 40)]), 3)+"\x00\xff\n\n"), "repeat head + noise"
			}
			record("input-mutation", s.Name, desc, s.Schema, mi, runRobust(s.Schema, mi))
		}
	}
	// (3) directed near-valid schemas that the grammar-blind mutations reach only rarely
	directed := []string{
		`{"parser_settings": {"version": "omni.2.1", "file_format_type": "xml"}, "transform_declarations": {"FINAL_OUTPUT": {"object": {"a": {"template": "T"}}}, "T": {"xpath_dynamic": {"custom_func": {"name": "concat", "args": [null]}}}}}`,
		`{"parser_settings": {"version": "omni.2.1", "file_format_type": "xml"}, "transform_declarations": {"FINAL_OUTPUT": {"object": {"a": {"template": "T"}}}, "T": {"xpath_dynamic": {"object": {"x": null}}}}}`,
		`{"parser_settings": {"version": "omni.2.1", "file_format_type": "json"}, "transform_declarations": {"FINAL_OUTPUT": {"template": "A"}, "A": {"template": "B"}, "B": {"template": "A"}}}`,
		`{"parser_settings": {"version": "omni.2.1", "file_format_type": "json"}, "transform_declarations": {"FINAL_OUTPUT": {"custom_func": {"name": "copy", "args": [{"const": "x"}]}}}}`,
		`{"parser_settings": {"version": "omni.2.1", "file_format_type": "json"}, "transform_declarations": {"FINAL_OUTPUT": {"custom_func": {"name": "javascript"}}}}`,
		`{"parser_settings": {"version": "omni.2.1", "file_format_type": "csv2"}, "file_declaration": {"delimiter": ",", "records": []}, "transform_declarations": {"FINAL_OUTPUT": {"object": {}}}}`,
		`{"parser_settings": {"version": "omni.2.1", "file_format_type": "edi"}, "file_declaration": {"segment_delimiter": "", "element_delimiter": "", "segment_declarations": [{"name": "A", "is_target": true}]}, "transform_declarations": {"FINAL_OUTPUT": {"object": {}}}}`,
		`{"parser_settings": {"version": "omni.2.1", "file_format_type": "fixedlength2"}, "file_declaration": {"envelopes": [{"name": "g", "type": "envelope_group", "is_target": true, "child_envelopes": [{"name": "r", "rows": 0}]}]}, "transform_declarations": {"FINAL_OUTPUT": {"object": {}}}}`,
	}
	// every built-in custom function with every number of arguments 0..5, the arguments being constants, fields that
	// match and fields that do not (nil values): a wrong call is a per-record failure or a schema error, never a panic
	for _, fn := range []string{"lower", "upper", "concat", "coalesce", "uuidv3", "dateTimeToRFC3339", "dateTimeLayoutToRFC3339", "dateTimeToEpoch",
		"epochToDateTimeRFC3339", "copy", "javascript", "javascript_with_context"} {
		argKinds := []string{`{"const": "x"}`, `{"xpath": "nomatch"}`, `{"xpath": "v"}`, `{"xpath": "empty"}`, `{"const": "1", "type": "int"}`}
		for nargs := 0; nargs <= 5; nargs++ {
			for variant := 0; variant < 4; variant++ {
				var as []string
				for k := 0; k < nargs; k++ {
					as = append(as, argKinds[(k*3+variant+nargs)%len(argKinds)])
				}
				ds := `{"parser_settings": {"version": "omni.2.1", "file_format_type": "json"}, "transform_declarations": {"FINAL_OUTPUT": {"xpath": "/*", "object": {"f": {"custom_func": {"name": "` +
					fn + `", "args": [` + strings.Join(as, ", ") + `]}}}}}}`
				in := `[{"v": "2020-01-02", "empty": ""}, {"v": "12", "empty": ""}, {"w": 1}]`
				record("directed-schema", fmt.Sprintf("arity/%s/%d/%d", fn, nargs, variant), "custom_func arity", []byte(ds), []byte(in), runRobust([]byte(ds), []byte(in)))
			}
		}
	}
	// arithmetic on a node-set inside an xpath (a filter on the target, a predicate of a field)
	for _, xp := range []string{"/r/a[b mod 2 = 1]", "/r/a[b + 1 = 2]", "/r/a[-b = -1]"} {
		directed = append(directed, `{"parser_settings": {"version": "omni.2.1", "file_format_type": "xml"}, "transform_declarations": {"FINAL_OUTPUT": {"xpath": `+jstr(xp)+`, "object": {"x": {"xpath": "b"}}}}}`)
	}
	directed = append(directed, `{"parser_settings": {"version": "omni.2.1", "file_format_type": "xml"}, "transform_declarations": {"FINAL_OUTPUT": {"xpath": "/r/a", "object": {"x": {"xpath": ".[b * 2 = 2]/b"}}}}}`)
	// xpaths that leave the record (.., ../.., /, /..) in every position a declaration can have - array element, field, object,
	// function argument, computed xpath, target filter - on every format (the record has a parent in some, none in others)
	for _, smp := range miniSamples() {
		if !map[string]bool{"mini/csv": true, "mini/csv2": true, "mini/fixedlength": true, "mini/fixedlength2": true, "mini/edi": true, "mini/json": true, "mini/xml": true}[smp.Name] {
			continue
		}
		var root map[string]interface{}
		if json.Unmarshal(smp.Schema, &root) != nil {
			continue
		}
		for _, xp := range []string{"..", "../..", "../../..", "/", "/..", "./..", "..//*", "../*", "//..", "ancestor::*", "."} {
			fo := root["transform_declarations"].(map[string]interface{})["FINAL_OUTPUT"].(map[string]interface{})
			keep := fo["object"]
			x := jstr(xp)
			fo["object"] = json.RawMessage(`{"arr": {"array": [{"xpath": ` + x + `}]}, "arr2": {"array": [{"xpath": ` + x + `, "object": {"n": {"const": "1"}}}]},
  "fld": {"xpath": ` + x + `}, "obj": {"xpath": ` + x + `, "object": {"k": {"xpath": "."}}}, "fn": {"custom_func": {"name": "concat", "args": [{"xpath": ` + x + `}]}},
  "dyn": {"xpath_dynamic": {"const": ` + x + `}}, "cp": {"xpath": ` + x + `, "custom_func": {"name": "copy"}}}`)
			mb, _ := json.Marshal(root)
			fo["object"] = keep
			record("directed-schema", "parent-axis/"+smp.Format, "xpath "+xp+" in every declaration position", mb, smp.Input, runRobust(mb, smp.Input))
		}
	}
	// XML documents that name a character set in their declaration: registered names, aliases, names nobody implements,
	// names nobody knows - each is decoded or refused, with ASCII-only and with high bytes in the data
	for _, label := range []string{"US-ASCII", "ascii", "ISO-8859-1", "latin1", "ISO-8859-2", "ISO-8859-5", "ISO-8859-7", "ISO-8859-8", "ISO-8859-8-I", "ISO-8859-15", "ISO-8859-16",
		"ISO-2022-JP", "ISO-2022-KR", "ISO-2022-CN", "Shift_JIS", "EUC-JP", "EUC-KR", "GB2312", "GBK", "GB18030", "Big5", "Big5-HKSCS", "HZ-GB-2312", "KOI8-R", "KOI8-U",
		"windows-1250", "windows-1251", "windows-1252", "cp1252", "windows-1258", "windows-874", "macintosh", "x-mac-cyrillic", "x-user-defined", "replacement",
		"IBM437", "IBM850", "IBM852", "IBM866", "IBM037", "IBM500", "IBM1026", "IBM1047", "IBM01140", "EBCDIC-US", "EBCDIC-CP-US",
		"UTF-7", "UNICODE-1-1-UTF-7", "UTF-8", "utf8", "UTF-16", "UTF-16BE", "UTF-16LE", "UTF-32", "UTF-32BE", "UTF-32LE", "ISO-10646-UCS-2", "ISO-10646-UCS-4", "csUnicode", "csUnicode11", "csUCS4",
		"SCSU", "BOCU-1", "CESU-8", "TIS-620", "VISCII", "JIS_X0201", "JIS_X0212-1990", "hp-roman8", "DEC-MCS", "Adobe-Standard-Encoding", "ANSI_X3.4-1968", "NATS-SEFI", "INVARIANT",
		"binary", "bogus", "", " ", "utf-8 ", "UTF-8\u0000", "x", strings.Repeat("U", 300)} {
		for vi, body := range []string{`<root><rec id="a"><qty>1</qty><tag>plain</tag></rec><rec id="b"><qty>x</qty></rec></root>`,
			"<root><rec id=\"a\"><qty>1</qty><tag>caf\xe9 \x80\x81\xff</tag></rec><rec id=\"b\"><qty>2</qty><tag>\xa4</tag></rec></root>"} {
			in := `<?xml version="1.0" encoding="` + label + `"?>` + body
			record("directed-input", "xml-declared-encoding", fmt.Sprintf("encoding=%q variant %d", label, vi), []byte(miniXML), []byte(in), runRobust([]byte(miniXML), []byte(in)))
		}
	}
	// declarations nested deeper than any fixed-size structure of the readers (their stacks start with room for 10 levels)
	for _, format := range []string{"fixedlength2", "csv2", "edi"} {
		for _, depth := range []int{1, 2, 5, 9, 10, 11} {
			var decl, in strings.Builder
			for k := 1; k <= depth; k++ {
				c := string(rune('a' + k - 1))
				tgt := ""
				if k == depth {
					tgt = `, "is_target": true`
				}
				switch format {
				case "fixedlength2":
					decl.WriteString(`{"name": "L` + c + `", "header": "^` + c + `"` + tgt + `, "columns": [{"name": "c` + c + `", "start_pos": 2, "length": 2}]`)
					in.WriteString(c + fmt.Sprintf("%02d\n", k))
				case "csv2":
					decl.WriteString(`{"name": "L` + c + `", "header": "^` + c + `,"` + tgt + `, "columns": [{"name": "c` + c + `", "index": 2}]`)
					in.WriteString(c + fmt.Sprintf(",%02d\n", k))
				default:
					decl.WriteString(`{"name": "S` + c + `"` + tgt + `, "elements": [{"name": "c` + c + `", "index": 1}]`)
					in.WriteString("S" + c + fmt.Sprintf("*%02d~", k))
				}
				if k < depth {
					decl.WriteString(map[string]string{"fixedlength2": `, "child_envelopes": [`, "csv2": `, "child_records": [`, "edi": `, "child_segments": [`}[format])
				}
			}
			for k := depth; k >= 1; k-- {
				decl.WriteString("}")
				if k > 1 {
					decl.WriteString("]")
				}
			}
			fd := map[string]string{"fixedlength2": `"envelopes": [` + decl.String() + `]`, "csv2": `"delimiter": ",", "records": [` + decl.String() + `]`,
				"edi": `"segment_delimiter": "~", "element_delimiter": "*", "segment_declarations": [` + decl.String() + `]`}[format]
			last := string(rune('a' + depth - 1))
			ds := `{"parser_settings": {"version": "omni.2.1", "file_format_type": "` + format + `"}, "file_declaration": {` + fd + `},
 "transform_declarations": {"FINAL_OUTPUT": {"object": {"deep": {"xpath": "c` + last + `"}, "top": {"xpath": "` + strings.Repeat("../", depth-1) + `ca"}}}}}`
			body := in.String()
			for _, input := range []string{body, body + body, body[:len(body)/2]} {
				o := runRobust([]byte(ds), []byte(input))
				record("directed-schema", fmt.Sprintf("nesting/%s/%d", format, depth), "declarations nested "+fmt.Sprint(depth)+" deep", []byte(ds), []byte(input), o)
			}
		}
	}
	for di, ds := range directed {
		for _, in := range []string{"", "a,b\n", "<a><b>1</b></a>", `{"a": [1, 2]}`, "A*1~A*2~", "<r><a><b>1</b></a><a><b>2</b></a></r>"} {
			record("directed-schema", fmt.Sprintf("directed/%d", di), "directed", []byte(ds), []byte(in), runRobust([]byte(ds), []byte(in)))
		}
	}
	// (4) rich documents through the tree-to-JSON conversion (copy, javascript_with_context, checksum): repeated
	// sibling names with and without namespace prefixes, mixed content, attributes; JSON with empty keys and nesting
	convXML := `{"parser_settings": {"version": "omni.2.1", "file_format_type": "xml"}, "transform_declarations": {"FINAL_OUTPUT": {"xpath": "/root/*", "object": {
	  "c": {"custom_func": {"name": "copy"}}, "j": {"custom_func": {"name": "javascript_with_context", "args": [{"const": "JSON.stringify(JSON.parse(_node))"}]}},
	  "kids": {"array": [{"xpath": "*", "custom_func": {"name": "copy"}}]}}}}}`
	convJSON := `{"parser_settings": {"version": "omni.2.1", "file_format_type": "json"}, "transform_declarations": {"FINAL_OUTPUT": {"xpath": "/*", "object": {
	  "c": {"custom_func": {"name": "copy"}}, "j": {"custom_func": {"name": "javascript_with_context", "args": [{"const": "JSON.stringify(JSON.parse(_node))"}]}}}}}}`
	xnames := []string{"a", "b", "p:a", "q:a", "p:b", "item", "n:item"}
	var genX func(depth int) string
	genX = func(depth int) string {
		nm := xnames[r.Intn(len(xnames))]
		attrs := ""
		if r.Intn(3) == 0 {
			attrs = fmt.Sprintf(` k="%d" p:k="x"`, r.Intn(3))
		}
		var kids strings.Builder
		for k := r.Intn(6); k > 0 && depth < 3; k-- {
			if r.Intn(4) == 0 {
				kids.WriteString([]string{"t", " ", "é", "1"}[r.Intn(4)])
			} else if r.Intn(3) == 0 {
				// a run of equally named siblings, possibly under different prefixes
				base := []string{"a", "item", "b"}[r.Intn(3)]
				for m := 2 + r.Intn(3); m > 0; m-- {
					pre := []string{"", "p:", "q:", "n:"}[r.Intn(4)]
					kids.WriteString("<" + pre + base + ">" + fmt.Sprint(m) + "</" + pre + base + ">")
				}
			} else {
				kids.WriteString(genX(depth + 1))
			}
		}
		return "<" + nm + attrs + ">" + kids.String() + "</" + nm + ">"
	}
	for k := 0; k < nim*4; k++ {
		doc := `<root xmlns:p="urn:p" xmlns:q="urn:q" xmlns:n="urn:n">` + genX(0) + genX(0) + `</root>`
		record("rich-document", "conv/xml", "random xml", []byte(convXML), []byte(doc), runRobust([]byte(convXML), []byte(doc)))
		var toks []dtok
		genJSONToks(r, 3, &toks)
		jd := "[" + renderJSONTokens(toks, 1, r) + "," + renderJSONTokens(toks, 0, r) + "]"
		record("rich-document", "conv/json", "random json", []byte(convJSON), []byte(jd), runRobust([]byte(convJSON), []byte(jd)))
	}
	sum.sample(M{"mutation_kinds": []string{"delete key", "wrong type / odd value", "number/string extremes", "subtree copy", "custom_func arity/name", "occurrence bounds"}})
	mustWriteNDJSON(args[0], events)
	sum.done()
	return 0
}

func init() { cmds["c03-drive"] = c03Drive }

// ---- Templates.tla cases: every reference graph over three templates

type tplBody struct {
	Hop string `json:"hop"`
	Tgt string `json:"tgt"`
}
type tplCase struct {
	Body   map[string]tplBody `json:"body"`
	Status string             `json:"status"`
	Cyclic bool               `json:"cyclic"`
}

// renderTplBody: the concrete declaration of one template; variant picks among the child / dyn positions
func renderTplBody(b tplBody, variant int) string {
	ref := `{"template": ` + jstr(b.Tgt) + `}`
	switch b.Hop {
	case "ref":
		return ref
	case "child":
		switch variant % 3 {
		case 0:
			return `{"object": {"g": ` + ref + `}}`
		case 1:
			return `{"array": [` + ref + `]}`
		default:
			return `{"custom_func": {"name": "concat", "args": [{"const": "x"}, ` + ref + `]}}`
		}
	case "dyn":
		if variant%2 == 0 {
			return `{"xpath_dynamic": ` + ref + `}`
		}
		return `{"xpath_dynamic": {"custom_func": {"name": "concat", "args": [` + ref + `]}}}`
	}
	return `{"const": "v"}`
}

// c03-templates <cases.ndjson>
func c03Templates(args []string) int {
	sum := newSummary()
	nviol := 0
	err := readLines(args[0], func(line []byte) error {
		var c tplCase
		if e := json.Unmarshal(line, &c); e != nil {
			return e
		}
		for variant := 0; variant < 6; variant++ {
			var names []string
			for k := range c.Body {
				names = append(names, k)
			}
			sort.Strings(names)
			decls := []string{`"FINAL_OUTPUT": {"object": {"f": {"template": "A"}}}`}
			for _, k := range names {
				decls = append(decls, jstr(k)+": "+renderTplBody(c.Body[k], variant))
			}
			schema := `{"parser_settings": {"version": "omni.2.1", "file_format_type": "json"}, "transform_declarations": {` + strings.Join(decls, ", ") + `}}`
			emit(M{"kind": "progress", "schema": schema})
			var e error
			var sch omniparser.Schema
			pv, hung := guarded(10*time.Second, func() { sch, e = omniparser.NewSchema("s", strings.NewReader(schema)) })
			sum.eval(c.Cyclic, M{"s": schema})
			msg := ""
			switch {
			case hung:
				msg = "NewSchema did not return within 10 s"
			case pv != "":
				msg = "NewSchema panicked: " + pv
			case c.Cyclic && e == nil:
				msg = "a schema whose template references form a cycle reachable from FINAL_OUTPUT was accepted"
			case !c.Cyclic && e != nil && strings.Contains(e.Error(), "circular"):
				msg = "a schema without a reference cycle was rejected as circular: " + e.Error()
			}
			if msg == "" && e == nil && sch != nil {
				out := runTranscript(sch, strings.NewReader(`[{"v": "a"}]`), RunOpts{MaxReads: 5, PerCall: 10 * time.Second})
				if out.Panic != "" || out.Timeout {
					msg = fmt.Sprintf("transform with the accepted schema: panic=%q timeout=%v", out.Panic, out.Timeout)
				}
			}
			if msg != "" {
				nviol++
				if nviol <= 20 {
					violation("C03", "template-expansion", msg+": "+schema, M{"schema": schema, "case": c})
				}
				if hung {
					return fmt.Errorf("a goroutine is stuck inside NewSchema; stopping")
				}
			}
		}
		sum.sample(M{"templates": c.Body, "cyclic": c.Cyclic})
		return nil
	})
	if err != nil && nviol == 0 {
		fmt.Println("error:", err)
		return 3
	}
	sum.inc("mismatches", nviol)
	sum.done()
	return 0
}

func init() { cmds["c03-templates"] = c03Templates }
