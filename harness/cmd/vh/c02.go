package main

import (
	"bytes"
	"encoding/json"
	"fmt"
	"github.com/jf-tech/omniparser"
	"sort"
	"strconv"
	"strings"

	"github.com/jf-tech/omniparser/customfuncs"
	"github.com/jf-tech/omniparser/extensions/omniv21"
	"github.com/jf-tech/omniparser/transformctx"
)

// ---- abstract declaration trees as emitted by MC_Eval

type dtree struct {
	M      int      `json:"m"`
	Par    []int    `json:"par"`
	Kind   []string `json:"kind"`
	Xp     []int    `json:"xp"`
	Ty     []string `json:"ty"`
	Notrim []bool   `json:"notrim"`
	Keep   []bool   `json:"keep"`
	Lit    []string `json:"lit"`
	Ie     []bool   `json:"ie,omitempty"` // ignore_error of custom_func declarations
}

type c02Case struct {
	T   dtree    `json:"t"`
	D   sdoc     `json:"d"`
	Exp []string `json:"exp"`
	Nt  bool     `json:"nt"`
}

// Eval!ExtText: the external properties every Eval case runs with
var evalExt = map[string]string{"p1": "x", "p2": " y ", "p4": ""}

var xpTable = []string{"", "a", "b", "*", "a/b", "..", "../a", "../b", "a[1]", "a[2]", "a[last()]", "*[last()]", "*[2]", "a/b[last()]"} // Eval!XP

func (t *dtree) kids(p int) []int {
	var out []int
	for i := 1; i <= t.M; i++ {
		if t.Par[i-1] == p {
			out = append(out, i)
		}
	}
	return out
}

type renderOpts struct {
	templates bool // every eligible subtree becomes a template reference (xpath stays at the reference site)
	dynamic   bool // every xpath becomes xpath_dynamic: {const: xpath}
	names     bool // the k-th field of every object carries a name full of characters that mean something somewhere (Eval.tla's f<k> are opaque)
}

// names that contain the separator and the escape character of the declarations' own naming scheme, blanks, non-ASCII
// (in byte order, so that the k-th name is also the k-th key of the marshalled object)
var oddFieldNames = []string{"%", "%%", "%2e", ".", "50%off", "a%.", "a.b", "a.b.c", "done%.total", "f1", "tax", "tax%", "x y", "é%"}

func fieldName(o renderOpts, k int) string {
	if o.names && k-1 < len(oddFieldNames) {
		return oddFieldNames[k-1]
	}
	return fmt.Sprintf("f%d", k)
}

// expectedWithNames maps the keys of the specification's expectation ("k", "f<n>") to the names the rendering used
func expectedWithNames(o renderOpts, exp []string) []string {
	if !o.names {
		return exp
	}
	out := append([]string{}, exp...)
	for i := 0; i+1 < len(out); i++ {
		if out[i] == "k" && strings.HasPrefix(out[i+1], "f") {
			var n int
			if _, err := fmt.Sscanf(out[i+1], "f%d", &n); err == nil {
				out[i+1] = fieldName(o, n)
			}
			i++
		}
	}
	return out
}

type schemaRenderer struct {
	t         *dtree
	o         renderOpts
	templates []string
	tplByBody map[string]string
}

func jstr(s string) string { b, _ := json.Marshal(s); return string(b) }

func (r *schemaRenderer) xpathPart(i int) string {
	if r.t.Kind[i-1] == "dynfield" {
		// the single child is the xpath_dynamic declaration
		return `"xpath_dynamic": ` + r.node(r.t.kids(i)[0])
	}
	if r.t.Xp[i-1] == 0 {
		return ""
	}
	xp := xpTable[r.t.Xp[i-1]]
	if r.o.dynamic {
		return `"xpath_dynamic": {"const": ` + jstr(xp) + `}`
	}
	return `"xpath": ` + jstr(xp)
}

// body renders node i without its xpath
func (r *schemaRenderer) body(i int) []string {
	t := r.t
	var parts []string
	switch t.Kind[i-1] {
	case "const":
		parts = append(parts, `"const": `+jstr(t.Lit[i-1]))
	case "external":
		parts = append(parts, `"external": `+jstr(t.Lit[i-1]))
	case "jsconst":
		// a typed source: the result of a script ("int:7" -> 7, "str:x" -> 'x', ...)
		lit := t.Lit[i-1]
		script := lit[strings.Index(lit, ":")+1:]
		if strings.HasPrefix(lit, "str:") {
			script = "'" + script + "'"
		}
		extra := ""
		if strings.HasPrefix(lit, "throw:") {
			// (the throwing script is given an argument, the probing one reports whether that name is defined)
			script = "throw '" + script + "' + a1"
			extra = `, {"const": "a1"}, {"const": "v"}`
		}
		if strings.HasPrefix(lit, "probe:") {
			script = "typeof a1 === 'undefined' ? '" + script + "' : 'sees a1 = ' + a1"
		}
		ie := ""
		if len(t.Ie) >= i && t.Ie[i-1] {
			ie = `, "ignore_error": true`
		}
		parts = append(parts, `"custom_func": {"name": "javascript", "args": [{"const": `+jstr(script)+`}`+extra+`]`+ie+`}`)
	case "object":
		var fs []string
		for k, c := range t.kids(i) {
			fs = append(fs, jstr(fieldName(r.o, k+1))+": "+r.node(c))
		}
		parts = append(parts, `"object": {`+strings.Join(fs, ", ")+`}`)
	case "array":
		var es []string
		for _, c := range t.kids(i) {
			es = append(es, r.node(c))
		}
		parts = append(parts, `"array": [`+strings.Join(es, ", ")+`]`)
	case "concat", "coalesce", "upper", "sig":
		var as []string
		for _, c := range t.kids(i) {
			as = append(as, r.node(c))
		}
		name := t.Kind[i-1]
		if name == "sig" {
			name = "vsig"
		}
		parts = append(parts, `"custom_func": {"name": "`+name+`", "args": [`+strings.Join(as, ", ")+`]}`)
	}
	if t.Ty[i-1] != "none" {
		parts = append(parts, `"type": `+jstr(t.Ty[i-1]))
	}
	if t.Notrim[i-1] {
		parts = append(parts, `"no_trim": true`)
	}
	if t.Keep[i-1] {
		parts = append(parts, `"keep_empty_or_null": true`)
	}
	return parts
}

func (r *schemaRenderer) node(i int) string {
	t := r.t
	xp := r.xpathPart(i)
	// a template reference site can carry only the xpath; const has none. Fields without xpath render as {"xpath": "."}
	if r.o.templates && t.Kind[i-1] != "const" {
		// one template per distinct body: declarations that differ only in their xpath reference the same template from
		// several sites, each with its own anchor (or none)
		body := strings.Join(r.bodyOrSelf(i), ", ")
		name, seen := r.tplByBody[body]
		if !seen {
			name = fmt.Sprintf("tpl%d", i)
			if r.tplByBody == nil {
				r.tplByBody = map[string]string{}
			}
			r.tplByBody[body] = name
			r.templates = append(r.templates, jstr(name)+": {"+body+"}")
		}
		parts := []string{`"template": ` + jstr(name)}
		if xp != "" {
			parts = append([]string{xp}, parts...)
		}
		return "{" + strings.Join(parts, ", ") + "}"
	}
	parts := r.bodyOrSelf(i)
	if xp != "" {
		parts = append([]string{xp}, parts...)
	}
	return "{" + strings.Join(parts, ", ") + "}"
}

func (r *schemaRenderer) bodyOrSelf(i int) []string {
	parts := r.body(i)
	if r.t.Kind[i-1] == "dynfield" {
		return parts
	}
	if r.t.Kind[i-1] == "field" && r.t.Xp[i-1] == 0 {
		// a field without xpath reads the cursor itself
		parts = append([]string{`"xpath": "."`}, parts...)
	}
	return parts
}

func renderEvalSchema(t *dtree, format string, o renderOpts) string {
	return renderEvalSchemaAt(t, format, o, "/*")
}

// renderEvalSchemaAt: FINAL_OUTPUT's own xpath is the reader's target (the record is the root element for Eval cases, an
// element below it for Stream cases)
func renderEvalSchemaAt(t *dtree, format string, o renderOpts, target string) string {
	r := &schemaRenderer{t: t, o: o}
	parts := append([]string{`"xpath": ` + jstr(target)}, r.body(1)...)
	final := `"FINAL_OUTPUT": {` + strings.Join(parts, ", ") + `}`
	all := append([]string{final}, r.templates...)
	return `{"parser_settings": {"version": "omni.2.1", "file_format_type": "` + format + `"},
 "transform_declarations": {` + strings.Join(all, ",\n  ") + `}}`
}

// tokens of a decoded JSON value in the specification's encoding
func jsonTokens(v interface{}, out *[]string) {
	switch x := v.(type) {
	case nil:
		*out = append(*out, "null")
	case string:
		*out = append(*out, "s")
		for _, r := range x {
			*out = append(*out, string(r))
		}
	case json.Number:
		*out = append(*out, "i")
		for _, r := range x.String() {
			*out = append(*out, string(r))
		}
	case bool:
		*out = append(*out, "b", fmt.Sprint(x))
	case []interface{}:
		*out = append(*out, "[")
		for _, e := range x {
			jsonTokens(e, out)
		}
		*out = append(*out, "]")
	case map[string]interface{}:
		*out = append(*out, "{")
		var ks []string
		for k := range x {
			ks = append(ks, k)
		}
		sort.Strings(ks)
		for _, k := range ks {
			*out = append(*out, "k", k)
			jsonTokens(x[k], out)
		}
		*out = append(*out, "}")
	}
}

// canonKeptEmpty: the statement fixes *whether* an empty value is kept, not how it is rendered;
// a kept empty object / array / null all read as "null".
func canonKeptEmpty(toks []string) []string {
	var out []string
	for i := 0; i < len(toks); i++ {
		if i+1 < len(toks) && ((toks[i] == "{" && toks[i+1] == "}") || (toks[i] == "[" && toks[i+1] == "]")) {
			out = append(out, "null")
			i++
			continue
		}
		out = append(out, toks[i])
	}
	return out
}

func outputTokens(res []Res) []string {
	if len(res) == 0 {
		return []string{"NORECORD"}
	}
	r := res[0]
	switch r.Class {
	case "failed":
		return []string{"FAIL"}
	case "ok":
		dec := json.NewDecoder(bytes.NewReader([]byte(r.Out)))
		dec.UseNumber()
		var v interface{}
		if err := dec.Decode(&v); err != nil {
			return []string{"BADJSON", r.Out}
		}
		var toks []string
		jsonTokens(v, &toks)
		return toks
	default:
		return []string{strings.ToUpper(r.Class), r.Err}
	}
}

// vsig: a user function with a typed signature, registered through an Extension; it prints what it received
func vsig(_ *transformctx.Ctx, s string, i int64, f float64, b bool) (string, error) {
	return fmt.Sprintf("%s#%d#%s#%t#", s, i, strconv.FormatFloat(f, 'f', -1, 64), b), nil
}

// evalExtensions: the built-in extension, unless the tree calls a user function
func evalExtensions(t *dtree) []omniparser.Extension {
	for _, k := range t.Kind {
		if k == "sig" {
			return []omniparser.Extension{{CreateSchemaHandler: omniv21.CreateSchemaHandler,
				CustomFuncs: customfuncs.Merge(allCustomFuncs(), customfuncs.CustomFuncs{"vsig": vsig})}}
		}
	}
	return nil
}

func c02Replay(args []string) int {
	sum := newSummary()
	nviol, rejected := 0, 0
	type cached struct {
		sch    omniparser.Schema
		schema string
		err    error
		p      string
	}
	cache := map[string]*cached{}
	err := readLines(args[0], func(line []byte) error {
		var c c02Case
		if e := json.Unmarshal(line, &c); e != nil {
			return e
		}
		inputs := map[string]string{"xml": c.D.renderXML()}
		if c.D.jsonOK(0) {
			inputs["json"] = c.D.renderJSON()
		}
		for _, format := range []string{"xml", "json"} {
			in, ok := inputs[format]
			if !ok {
				continue
			}
			inlineOK := false
			for vi, o := range []renderOpts{{}, {templates: true}, {dynamic: true}, {names: true}} {
				ck := fmt.Sprint(format, vi, hashOf(c.T))
				ce := cache[ck]
				if ce == nil {
					if len(cache) > 50000 {
						cache = map[string]*cached{}
					}
					ce = &cached{schema: renderEvalSchema(&c.T, format, o)}
					ce.sch, ce.err, ce.p = newSchema([]byte(ce.schema), evalExtensions(&c.T)...)
					cache[ck] = ce
				}
				schema, sch, e, p := ce.schema, ce.sch, ce.err, ce.p
				if p != "" {
					violation("C03", "newschema-panic", "NewSchema panicked: "+p, M{"schema": schema})
					continue
				}
				if e != nil {
					if vi == 1 && inlineOK {
						// "a template reference behaves as its body inlined at the reference site": the inlined rendering of this
						// very tree was accepted, the rendering with references is refused - real-code behaviour, not a generator fault
						nviol++
						if nviol <= 40 {
							violation("C02", "eval-template-rejected", fmt.Sprintf("the schema with template references is rejected (%v) while the same declarations inlined are accepted", e),
								M{"format": format, "schema": schema, "input": in, "expected": c.Exp, "actual": []string{"NEWSCHEMA", e.Error()}, "variant": vi})
						}
						continue
					}
					rejected++
					if rejected <= 3 {
						emit(M{"kind": "schema_rejected", "schema": schema, "err": e.Error()})
					}
					continue
				}
				if vi == 0 {
					inlineOK = true
				}
				out := runTranscript(sch, strings.NewReader(in), RunOpts{MaxReads: 4, Ext: evalExt})
				sum.eval(c.Nt, M{"s": schema, "i": in})
				var got []string
				if out.Panic != "" {
					got = []string{"PANIC", out.Panic}
				} else if out.NewTrErr != "" {
					got = []string{"NEWTRANSFORM", out.NewTrErr}
				} else {
					got = outputTokens(out.Results)
				}
				exp := expectedWithNames(o, c.Exp)
				if strings.Join(canonKeptEmpty(got), "\x00") != strings.Join(canonKeptEmpty(exp), "\x00") {
					nviol++
					if nviol <= 40 {
						key := "eval-mismatch"
						if vi == 1 {
							key = "eval-mismatch-template"
						} else if vi == 2 {
							key = "eval-mismatch-xpath-dynamic"
						} else if vi == 3 {
							key = "eval-mismatch-field-names"
						}
						violation("C02", key, fmt.Sprintf("%s input %q: expected %v got %v", format, in, exp, got),
							M{"format": format, "schema": schema, "input": in, "expected": exp, "actual": got, "results": out.Results, "variant": vi})
					}
				}
				if vi == 0 && format == "xml" {
					sum.sample(M{"schema": schema, "input": in, "expected": c.Exp})
				}
			}
		}
		return nil
	})
	if err != nil {
		fmt.Println("error:", err)
		return 3
	}
	sum.inc("mismatches", nviol)
	sum.inc("schema_rejected", rejected)
	sum.done()
	return 0
}

func init() { cmds["c02-replay"] = c02Replay }

// ---- Stream.tla cases: a whole input of several records, declarations that leave the record (`..`, `../a`)

type c02StreamCase struct {
	T   dtree      `json:"t"`
	D   sdoc       `json:"d"`
	X   sxpath     `json:"x"`
	Exp [][]string `json:"exp"` // one value per delivered record, in order
	Nt  bool       `json:"nt"`
}

func resTokens(r Res) []string { return outputTokens([]Res{r}) }

type cachedSchema struct {
	sch omniparser.Schema
	err error
	p   string
}

func c02Stream(args []string) int {
	sum := newSummary()
	nviol := 0
	schemas := map[string]*cachedSchema{}
	err := readLines(args[0], func(line []byte) error {
		var c c02StreamCase
		if e := json.Unmarshal(line, &c); e != nil {
			return e
		}
		target := ""
		for _, st := range c.X.Steps {
			target += "/" + st.Test
		}
		in := c.D.renderXML()
		for vi, o := range []renderOpts{{}, {templates: true}, {dynamic: true}} {
			schema := renderEvalSchemaAt(&c.T, "xml", o, target)
			ce := schemas[schema]
			if ce == nil {
				ce = &cachedSchema{}
				ce.sch, ce.err, ce.p = newSchema([]byte(schema))
				schemas[schema] = ce
			}
			sch, e, p := ce.sch, ce.err, ce.p
			if p != "" || e != nil {
				violation("C02", "stream-schema-rejected", fmt.Sprintf("schema rejected: %v %s", e, p), M{"schema": schema})
				continue
			}
			out := runTranscript(sch, strings.NewReader(in), RunOpts{MaxReads: len(c.Exp) + 3, Ext: evalExt})
			sum.eval(c.Nt, M{"s": schema, "i": in})
			var got [][]string
			if out.Panic != "" || out.NewTrErr != "" {
				got = [][]string{{"PANIC/NEWTRANSFORM", out.Panic + out.NewTrErr}}
			} else {
				for _, r := range out.Results {
					if r.Class == "eof" {
						break
					}
					got = append(got, resTokens(r))
				}
			}
			same := len(got) == len(c.Exp)
			for k := 0; same && k < len(got); k++ {
				same = strings.Join(canonKeptEmpty(got[k]), "\x00") == strings.Join(canonKeptEmpty(c.Exp[k]), "\x00")
			}
			if !same {
				nviol++
				if nviol <= 40 {
					violation("C02", "stream-eval-mismatch", fmt.Sprintf("xml input %q target %s: expected per record %v got %v", in, target, c.Exp, got),
						M{"schema": schema, "input": in, "expected": c.Exp, "actual": got, "variant": vi})
				}
			}
			if vi == 0 && c.Nt {
				sum.sample(M{"schema": schema, "input": in, "expected": c.Exp})
			}
		}
		return nil
	})
	if err != nil {
		fmt.Println("error:", err)
		return 3
	}
	sum.inc("mismatches", nviol)
	sum.done()
	return 0
}

func init() { cmds["c02-stream"] = c02Stream }

// ---- B2: random larger declaration trees and records; TLC evaluates Ref (and Impl) on the logged case

// xpaths of random fields: none, the plain ones, and the positional ones (indices into xpTable / Eval!XP)
var fieldXPs = []int{0, 1, 2, 3, 4, 1, 2, 8, 9, 10, 11, 12, 13}

func genDeclTree(r interface{ Intn(int) int }, m int) dtree {
	t := dtree{}
	add := func(par int, kind string, xp int, ty string, notrim, keep bool, lit string) int {
		t.M++
		t.Par = append(t.Par, par)
		t.Kind = append(t.Kind, kind)
		t.Xp = append(t.Xp, xp)
		t.Ty = append(t.Ty, ty)
		t.Notrim = append(t.Notrim, notrim)
		t.Keep = append(t.Keep, keep)
		t.Lit = append(t.Lit, lit)
		return t.M
	}
	tys := []string{"none", "none", "none", "int"}
	lits := []string{"x", " y ", "", "1"}
	var grow func(p int, depth int)
	grow = func(p, depth int) {
		pk := t.Kind[p-1]
		nk := 1 + r.Intn(3)
		for k := 0; k < nk && t.M < m; k++ {
			choice := r.Intn(10)
			switch {
			case pk == "concat" || choice < 4 || depth >= 3 && choice != 4:
				ty := tys[r.Intn(4)]
				if pk == "concat" {
					ty = "none" // well-typed call: concat takes strings
				}
				if r.Intn(3) == 0 {
					lit := lits[r.Intn(4)]
					if ty == "int" {
						lit = "1"
					}
					add(p, "const", 0, ty, r.Intn(4) == 0, r.Intn(3) == 0, lit)
				} else if pk == "concat" && r.Intn(4) == 0 {
					c := add(p, "concat", r.Intn(2), "none", false, false, "")
					grow(c, depth+1)
				} else {
					add(p, "field", fieldXPs[r.Intn(len(fieldXPs))], ty, r.Intn(5) == 0, r.Intn(3) == 0, "")
				}
			case choice == 4 && pk != "concat":
				// a field with a computed xpath; the computation is a constant naming a child (or nothing)
				dtyp := tys[r.Intn(4)]
				c := add(p, "dynfield", 0, dtyp, false, r.Intn(3) == 0, "")
				add(c, "const", 0, "none", false, false, []string{"a", "b", ""}[r.Intn(3)])
			case choice < 6:
				c := add(p, "object", []int{0, 1, 2, 3, 8, 9, 10, 11, 12}[r.Intn(9)], "none", false, r.Intn(4) == 0, "")
				grow(c, depth+1)
			case choice < 8 && pk != "array":
				c := add(p, "array", 0, "none", false, r.Intn(4) == 0, "")
				grow(c, depth+1)
			default:
				c := add(p, "concat", r.Intn(2), tys[r.Intn(4)], false, false, "")
				grow(c, depth+1)
			}
		}
	}
	add(0, "object", 0, "none", false, r.Intn(5) == 0, "")
	grow(1, 0)
	return t
}

func genRecordDoc(r interface{ Intn(int) int }, n int) sdoc {
	d := sdoc{}
	texts := []string{"1", " y ", "2", "x"}
	add := func(par int, kind, nm string) int {
		d.N++
		d.Par = append(d.Par, par)
		d.Kind = append(d.Kind, kind)
		d.Nm = append(d.Nm, nm)
		d.At = append(d.At, "")
		return d.N
	}
	var grow func(p, depth int)
	grow = func(p, depth int) {
		nk := r.Intn(4)
		lastText := false
		for k := 0; k < nk && d.N < n; k++ {
			if !lastText && r.Intn(3) == 0 {
				add(p, "T", texts[r.Intn(4)])
				lastText = true
				continue
			}
			lastText = false
			e := add(p, "E", []string{"a", "b"}[r.Intn(2)])
			if depth < 3 {
				grow(e, depth+1)
			}
		}
	}
	root := add(0, "E", "a")
	grow(root, 0)
	return d
}

func c02Drive(args []string) int {
	outPath := args[0]
	ncases, maxM, maxN := 300, 8, 8
	if len(args) > 1 {
		fmt.Sscanf(args[1], "%d", &ncases)
	}
	if len(args) > 2 {
		fmt.Sscanf(args[2], "%d", &maxM)
	}
	if len(args) > 3 {
		fmt.Sscanf(args[3], "%d", &maxN)
	}
	r := rng(202)
	sum := newSummary()
	var events []interface{}
	for ci := 0; ci < ncases; ci++ {
		t := genDeclTree(r, 3+r.Intn(maxM-2))
		vi := r.Intn(3)
		o := []renderOpts{{}, {templates: true}, {dynamic: true}}[vi]
		for di := 0; di < 3; di++ {
			d := genRecordDoc(r, 2+r.Intn(maxN-1))
			format, in := "xml", d.renderXML()
			if d.jsonOK(0) && r.Intn(2) == 0 {
				format, in = "json", d.renderJSON()
			}
			schema := renderEvalSchema(&t, format, o)
			sch, e, p := newSchema([]byte(schema))
			if p != "" {
				violation("C03", "newschema-panic", "NewSchema panicked: "+p, M{"schema": schema})
				continue
			}
			if e != nil {
				sum.inc("schema_rejected", 1)
				emit(M{"kind": "schema_rejected", "schema": schema, "err": e.Error()})
				break
			}
			out := runTranscript(sch, strings.NewReader(in), RunOpts{MaxReads: 4, Ext: evalExt})
			var got []string
			if out.Panic != "" {
				got = []string{"PANIC", out.Panic}
			} else if out.NewTrErr != "" {
				got = []string{"NEWTRANSFORM", out.NewTrErr}
			} else {
				got = canonKeptEmpty(outputTokens(out.Results))
			}
			events = append(events, M{"tr": len(events) + 1, "t": t, "d": d, "got": got, "schema": schema, "input": in, "format": format})
			sum.Traces++
			sum.eval(t.M >= 4 && len(got) > 1, M{"s": schema, "i": in})
			if ci == 0 && di == 0 {
				sum.sample(M{"schema": schema, "input": in, "got": got})
			}
		}
	}
	mustWriteNDJSON(outPath, events)
	sum.done()
	return 0
}

func init() {
	cmds["c02-drive"] = c02Drive
}
