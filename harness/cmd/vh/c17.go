package main

import (
	"runtime"
	"fmt"
	"io"
	"strings"

	"github.com/jf-tech/omniparser/idr"
	"github.com/jf-tech/omniparser/transformctx"
)

// C17: what stays reachable from the k-th delivered record must not grow with k.

// repeatReader produces prefix + (unit(i))^k + suffix lazily, so that hundreds of thousands of records need no buffer.
type repeatReader struct {
	prefix, suffix string
	unit           func(i int) string
	k              int
	i              int
	cur            []byte
	stage          int
}

func (r *repeatReader) Read(p []byte) (int, error) {
	for len(r.cur) == 0 {
		switch {
		case r.stage == 0:
			r.cur, r.stage = []byte(r.prefix), 1
		case r.stage == 1 && r.i < r.k:
			r.cur = []byte(r.unit(r.i))
			r.i++
		case r.stage == 1:
			r.cur, r.stage = []byte(r.suffix), 2
		default:
			return 0, io.EOF
		}
	}
	n := copy(p, r.cur)
	r.cur = r.cur[n:]
	return n, nil
}

// treeSizeFromRoot counts the nodes reachable from the root of n.  Links that form a cycle (possible only if a released
// node is still linked) make the structure unbounded: reported as 1<<30.
func treeSizeFromRoot(n *idr.Node) int {
	root := n
	for hops := 0; root.Parent != nil; hops++ {
		if hops > 1<<20 {
			return 1 << 30
		}
		root = root.Parent
	}
	seen := map[*idr.Node]bool{}
	stack := []*idr.Node{root}
	for len(stack) > 0 {
		x := stack[len(stack)-1]
		stack = stack[:len(stack)-1]
		if seen[x] {
			return 1 << 30
		}
		seen[x] = true
		for c := x.FirstChild; c != nil; c = c.NextSibling {
			if c == x || len(seen)+len(stack) > 1<<22 {
				return 1 << 30
			}
			stack = append(stack, c)
		}
	}
	return len(seen)
}

type retCase struct {
	Name   string
	Schema string
	Prefix string
	Suffix string
	Unit   func(i int) string // i-th input unit; every `Period` units the pattern repeats
	Period int                // deliveries repeat with this period (records failing the filter are not delivered)
}

func c17Cases() []retCase {
	sch := func(format, fileDecl, xpath string) string {
		fd := ""
		if fileDecl != "" {
			fd = `"file_declaration": ` + fileDecl + `,`
		}
		xp := ""
		if xpath != "" {
			xp = `"xpath": ` + jstr(xpath) + `, `
		}
		return `{"parser_settings": {"version": "omni.2.1", "file_format_type": "` + format + `"}, ` + fd + `
 "transform_declarations": {"FINAL_OUTPUT": {` + xp + `"object": {"v": {"xpath": "v"}}}}}`
	}
	// the same with a cast that fails for every other record: a record whose transform fails must be let go like any other
	schI := func(format, fileDecl, xpath string) string {
		return strings.Replace(sch(format, fileDecl, xpath), `{"v": {"xpath": "v"}}`, `{"v": {"xpath": "v", "type": "int"}}`, 1)
	}
	alt := func(a, b string) func(int) string {
		return func(i int) string {
			if i%2 == 0 {
				return a
			}
			return b
		}
	}
	return []retCase{
		{"xml/compact", sch("xml", "", "/root/rec"), "<root><hdr>h</hdr>", "</root>", func(int) string { return "<rec><v>1</v><w>x</w></rec>" }, 1},
		{"xml/whitespace-between-records", sch("xml", "", "/root/rec"), "<root>\n  <hdr>h</hdr>\n", "</root>", func(int) string { return "  <rec><v>1</v><w>x</w></rec>\n" }, 1},
		{"xml/filtered", sch("xml", "", "/root/rec[v='1']"), "<root>", "</root>", alt("<rec><v>1</v></rec>", "<rec><v>2</v></rec>"), 1},
		{"xml/filtered-by-attribute-padded-xpath", sch("xml", "", "  /root/rec[@k='1'] \n"), "<root>", "</root>", alt(`<rec k="1"><v>1</v></rec>`, `<rec k="2"><v>2</v></rec>`), 1},
		{"xml/filtered-by-attribute-quote-in-literal", sch("xml", "", `/root/rec[@k="o'b"]`), "<root>", "</root>", alt(`<rec k="o'b"><v>1</v></rec>`, `<rec k="ob"><v>2</v></rec>`), 1},
		{"xml/filtered-by-attribute-double-quote-in-literal", sch("xml", "", `/root/rec[@k='say "hi"' and @j="it's"]`), "<root>", "</root>", alt(`<rec k='say "hi"' j="it's"><v>1</v></rec>`, `<rec k="say" j="its"><v>2</v></rec>`), 1},
		{"xml/filtered-quote-in-literal", sch("xml", "", `/root/rec[v="o'b"]`), "<root>", "</root>", alt("<rec><v>o'b</v></rec>", "<rec><v>2</v></rec>"), 1},
		{"json/filtered-padded-xpath", sch("json", "", " /recs/*[v='1'] "), `{"recs": [`, `{"v": "last"}]}`, alt(`{"v": "1"},`, `{"v": "2"}, `), 1},
		{"xml/nested-groups", sch("xml", "", "/root/g/rec"), "<root><g>", "</g></root>", func(int) string { return "<rec><v>1</v></rec>" }, 1},
		{"json/distinct-property-names", sch("json", "", "/recs/*"), `{"recs": {`, `"last": {"v": "z"}}}`, func(i int) string { return fmt.Sprintf(`"order-%d-%x": {"v": "1", "k%d": 1},`, i, i*7919, i) }, 1},
		{"json/javascript-with-context", strings.Replace(sch("json", "", "/recs/*"), `{"v": {"xpath": "v"}}`, `{"v": {"xpath": "v"}, "j": {"custom_func": {"name": "javascript_with_context", "args": [{"const": "JSON.parse(_node).v + x"}, {"const": "x"}, {"xpath": "v"}]}}}`, 1),
			`{"recs": [`, `{"v": "last"}]}`, func(i int) string { return `{"v": "1", "pad": "0123456789012345678901234567890123456789"},` }, 1},
		{"json/array", sch("json", "", "/recs/*"), `{"hdr": "h", "recs": [`, `{"v": "last"}]}`, func(int) string { return `{"v": "1", "w": [1, 2]},` + "\n" }, 1},
		{"json/filtered", sch("json", "", "/recs/*[v='1']"), `{"recs": [`, `{"v": "last"}]}`, alt(`{"v": "1"},`, `{"v": "2"}, `), 1},
		{"csv/rows", sch("csv", `{"delimiter": ",", "data_row_index": 1, "columns": [{"name": "v"}, {"name": "w"}]}`, ""), "", "", func(int) string { return "1,x\n\n" }, 1},
		{"csv/filtered", sch("csv", `{"delimiter": ",", "data_row_index": 1, "columns": [{"name": "v"}, {"name": "w"}]}`, ".[v='1']"), "", "", alt("1,x\n", "2,y\n"), 1},
		{"csv2/nested", sch("csv2", `{"delimiter": ",", "records": [{"name": "H", "header": "^H", "is_target": true, "columns": [{"name": "v", "index": 2}],
		   "child_records": [{"name": "D", "header": "^D", "columns": [{"name": "w", "index": 2}]}]}]}`, ""), "", "", func(int) string { return "H,1\nD,x\n\nD,y\n" }, 1},
		{"csv2/filtered", sch("csv2", `{"delimiter": ",", "records": [{"name": "H", "header": "^H", "is_target": true, "columns": [{"name": "v", "index": 2}]}]}`, ".[v='1']"), "", "", alt("H,1\n", "H,2\n"), 1},
		{"fixedlength/rows", sch("fixed-length", `{"envelopes": [{"by_rows": 2, "columns": [{"name": "v", "start_pos": 2, "length": 1, "line_pattern": "^A"}]}]}`, ""), "", "", func(int) string { return "A1\nB2\n\n" }, 1},
		{"fixedlength/header-footer", sch("fixed-length", `{"envelopes": [{"name": "G", "by_header_footer": {"header": "^G", "footer": "^G"}, "not_target": true},
		   {"name": "R", "by_header_footer": {"header": "^A", "footer": "^Z"}, "columns": [{"name": "v", "start_pos": 2, "length": 1, "line_pattern": "^A"}]}]}`, ""), "G0\n", "", func(int) string { return "A1\nM\nZ\n" }, 1},
		{"fixedlength2/nested", sch("fixedlength2", `{"envelopes": [{"name": "H", "header": "^H", "is_target": true, "columns": [{"name": "v", "start_pos": 2, "length": 1}],
		   "child_envelopes": [{"name": "D", "header": "^D", "columns": [{"name": "w", "start_pos": 2, "length": 1}]}]}]}`, ""), "", "", func(int) string { return "H1\nDx\n\nDy\n" }, 1},
		{"fixedlength2/filtered", sch("fixedlength2", `{"envelopes": [{"name": "H", "header": "^H", "is_target": true, "columns": [{"name": "v", "start_pos": 2, "length": 1}]}]}`, ".[v='1']"), "", "", alt("H1\n", "H2\n"), 1},
		{"edi/segments", sch("edi", `{"segment_delimiter": "~", "element_delimiter": "*", "ignore_crlf": true, "segment_declarations": [
		   {"name": "ISA", "child_segments": [{"name": "HDR", "min": 0, "max": -1, "is_target": true, "elements": [{"name": "v", "index": 1}],
		     "child_segments": [{"name": "ITM", "min": 0, "max": -1, "elements": [{"name": "w", "index": 1}]}]}, {"name": "IEA"}]}]}`, ""), "ISA*0~\n", "IEA*0~\n", func(int) string { return "HDR*1~\nITM*x~\nITM*y~\n\n" }, 1},
		{"xml/failing-transform", schI("xml", "", "/root/rec"), "<root><hdr>h</hdr>", "</root>", alt("<rec><v>1</v><w>x</w></rec>", "<rec><v>bad</v><w>y</w></rec>"), 1},
		{"json/failing-transform", schI("json", "", "/recs/*"), `{"recs": [`, `{"v": "7"}]}`, alt(`{"v": "1", "w": [1]},`, `{"v": "bad", "w": [2]},`), 1},
		{"csv/failing-transform", schI("csv", `{"delimiter": ",", "data_row_index": 1, "columns": [{"name": "v"}, {"name": "w"}]}`, ""), "", "", alt("1,x\n", "bad,y\n"), 1},
		{"csv2/failing-transform", schI("csv2", `{"delimiter": ",", "records": [{"name": "H", "header": "^H", "is_target": true, "columns": [{"name": "v", "index": 2}],
		   "child_records": [{"name": "D", "header": "^D", "min": 0, "columns": [{"name": "w", "index": 2}]}]}]}`, ""), "", "", alt("H,1\nD,x\n", "H,bad\nD,y\nD,z\n"), 1},
		{"fixedlength/failing-transform", schI("fixed-length", `{"envelopes": [{"by_rows": 2, "columns": [{"name": "v", "start_pos": 2, "length": 1, "line_pattern": "^A"}]}]}`, ""), "", "", alt("A1\nB2\n", "Ax\nB2\n"), 1},
		{"fixedlength2/failing-transform", schI("fixedlength2", `{"envelopes": [{"name": "H", "header": "^H", "is_target": true, "columns": [{"name": "v", "start_pos": 2, "length": 1}],
		   "child_envelopes": [{"name": "D", "header": "^D", "min": 0, "columns": [{"name": "w", "start_pos": 2, "length": 1}]}]}]}`, ""), "", "", alt("H1\nDx\n", "Hb\nDy\nDz\n"), 1},
		{"edi/failing-transform", schI("edi", `{"segment_delimiter": "~", "element_delimiter": "*", "segment_declarations": [
		   {"name": "HDR", "min": 0, "max": -1, "is_target": true, "elements": [{"name": "v", "index": 1}],
		     "child_segments": [{"name": "ITM", "min": 0, "max": -1, "elements": [{"name": "w", "index": 1}]}]}]}`, ""), "", "", alt("HDR*1~ITM*x~", "HDR*bad~ITM*y~ITM*z~"), 1},
		// targets without any content (no element, no attribute, no value): nothing to hold on to, still to be let go
		{"xml/childless-targets", sch("xml", "", "/root/e"), "<root><hdr>h</hdr>", "</root>", func(int) string { return "<e/>" }, 1},
		{"xml/childless-targets-filtered", sch("xml", "", "/root/e[not(v)]"), "<root>", "</root>", alt("<e/>", "<e><v>1</v></e>"), 1},
		{"json/childless-targets", sch("json", "", "/recs/*"), `{"recs": [`, `{}]}`, alt(`{},`, `[],`), 1},
		{"json/childless-targets-filtered", sch("json", "", "/recs/*[not(v)]"), `{"recs": [`, `{}]}`, alt(`{},`, `{"v": "1"},`), 1},
		{"edi/childless-targets", sch("edi", `{"segment_delimiter": "~", "element_delimiter": "*", "segment_declarations": [
		   {"name": "ISA", "child_segments": [{"name": "HDR", "min": 0, "max": -1, "is_target": true}, {"name": "IEA"}]}]}`, ""), "ISA*0~", "IEA*0~", func(int) string { return "HDR~" }, 1},
		{"edi/filtered", sch("edi", `{"segment_delimiter": "~", "element_delimiter": "*", "segment_declarations": [
		   {"name": "HDR", "min": 0, "max": -1, "is_target": true, "elements": [{"name": "v", "index": 1}]}]}`, ".[v='1']"), "", "", alt("HDR*1~", "HDR*2~"), 1},
	}
}

// c17-drive <out.ndjson> <k>
func c17Drive(args []string) int {
	k := 2000
	if len(args) > 1 {
		fmt.Sscanf(args[1], "%d", &k)
	}
	sum := newSummary()
	var events []interface{}
	for ci, c := range c17Cases() {
		sch, err, p := newSchema([]byte(c.Schema))
		if err != nil || p != "" {
			fmt.Println("error: c17 schema rejected", c.Name, err, p)
			return 3
		}
		rd := &repeatReader{prefix: c.Prefix, suffix: c.Suffix, unit: c.Unit, k: k}
		tr, err := sch.NewTransform("in", rd, &transformctx.Ctx{})
		if err != nil {
			fmt.Println("error:", c.Name, err)
			return 3
		}
		events = append(events, M{"ev": "start", "tr": ci + 1, "case": c.Name, "k": k})
		delivered := 0
		firstSize, lastSize := 0, 0
		ok := true
		for ok {
			var e error
			pv, _ := guarded(0, func() { _, e = tr.Read() })
			if pv != "" {
				violation("C17", "panic", "panic while streaming: "+pv, M{"case": c.Name, "delivered": delivered})
				break
			}
			switch classify(e) {
			case "ok":
				delivered++
				probe := delivered <= 16 || delivered&(delivered-1) == 0 || delivered%1000 == 0
				if !probe {
					continue
				}
				rr, e2 := tr.RawRecord()
				if e2 != nil {
					continue
				}
				n, _ := rr.Raw().(*idr.Node)
				if n == nil {
					continue
				}
				sz := treeSizeFromRoot(n)
				if firstSize == 0 {
					firstSize = sz
				}
				lastSize = sz
				events = append(events, M{"ev": "size", "tr": ci + 1, "case": c.Name, "k": delivered, "size": sz})
			case "failed":
			default:
				ok = false
				if classify(e) == "fatal" {
					fmt.Println("error: c17 input ended with a fatal error:", c.Name, e)
					return 3
				}
			}
		}
		events = append(events, M{"ev": "end", "tr": ci + 1, "case": c.Name, "delivered": delivered})
		// what the Transform retains besides the node tree (reader buffers, caches): live heap after a collection at a
		// quarter and at the end of a long stream, while the current record's tree stays as small as above
		if firstSize > 0 && lastSize <= 4*firstSize {
			n1, n2 := 10000, 40000
			if strings.Contains(c.Name, "with-context") {
				n1, n2 = 80000, 160000 // beyond what the bounded per-node caches of the script functions may hold (65 536 entries)
			}
			rd2 := &repeatReader{prefix: c.Prefix, suffix: c.Suffix, unit: c.Unit, k: 3*n2 + 10}
			if tr2, err := sch.NewTransform("in", rd2, &transformctx.Ctx{}); err == nil {
				var h1, h2 uint64
				got := 0
				live := func() uint64 {
					var ms runtime.MemStats
					runtime.GC()
					runtime.GC()
					runtime.ReadMemStats(&ms)
					return ms.HeapAlloc
				}
				for reads := 0; reads < 8*n2 && got < n2; reads++ {
					var e error
					pv, _ := guarded(0, func() { _, e = tr2.Read() })
					if pv != "" || (e != nil && classify(e) != "failed") {
						break
					}
					if e == nil {
						got++
						if got == n1 {
							h1 = live()
						}
						if got == n2 {
							h2 = live() // (inside the loop: the Transform is still in use)
						}
					}
				}
				runtime.KeepAlive(tr2)
				if got == n2 {
					events = append(events, M{"ev": "heap", "tr": ci + 1, "case": c.Name, "at": n1, "live": h1, "at2": n2, "live2": h2})
					sum.eval(true, M{"heap": c.Name})
				}
				_ = tr2
			}
		}
		sum.Traces++
		sum.eval(delivered >= 100 && (strings.Contains(c.Name, "filtered") || strings.Contains(c.Name, "failing") || strings.Contains(c.Unit(0), "\n")), M{"c": c.Name, "k": k})
		if ci == 1 {
			sum.sample(M{"case": c.Name, "unit": c.Unit(0), "records": k})
		}
	}
	mustWriteNDJSON(args[0], events)
	sum.done()
	return 0
}

func init() { cmds["c17-drive"] = c17Drive }
