package main

import (
	"fmt"
	"os"
)

type cmdFn func(args []string) int

var cmds = map[string]cmdFn{}

func main() {
	if len(os.Args) < 2 {
		fmt.Fprintln(os.Stderr, "usage: vh <cmd> [args]")
		os.Exit(2)
	}
	fn, ok := cmds[os.Args[1]]
	if !ok {
		fmt.Fprintln(os.Stderr, "unknown cmd", os.Args[1])
		os.Exit(2)
	}
	os.Exit(fn(os.Args[2:]))
}
