package main

import (
	"fmt"
	"os"
	"runtime/debug"
)

type cmdFn func(args []string) int

var cmds = map[string]cmdFn{}

func main() {
	if len(os.Args) < 2 {
		fmt.Fprintln(os.Stderr, "usage: vh <cmd> [args]")
		os.Exit(2)
	}
	// a runaway recursion inside the library must kill this process quickly (the runtime's "stack overflow" is then
	// classified by vlib.RepoCrash), not after the default 1 GB of stack and the heap that goes with it
	debug.SetMaxStack(16 << 20)
	fn, ok := cmds[os.Args[1]]
	if !ok {
		fmt.Fprintln(os.Stderr, "unknown cmd", os.Args[1])
		os.Exit(2)
	}
	os.Exit(fn(os.Args[2:]))
}
