package main

import (
	"bytes"
	"encoding/json"
	"fmt"
	"runtime/debug"
	"strings"

	"github.com/jf-tech/omniparser"
	"github.com/jf-tech/omniparser/customfuncs"
	"github.com/jf-tech/omniparser/extensions/omniv21"
	"github.com/jf-tech/omniparser/transformctx"

	"github.com/jf-tech/go-corelib/caches"

	v21 "github.com/jf-tech/omniparser/extensions/omniv21/customfuncs"
	"github.com/jf-tech/omniparser/extensions/omniv21/transform"
	"github.com/jf-tech/omniparser/idr"
)

// C13: every cache / pool configuration must produce the transcripts of the configuration with everything off.

type cacheConfig struct {
	Pool   bool   // idr node pool
	TCache bool   // per-record transform result cache
	JS     string // "on" | "off" | "cap1" : JS program cache, VM pool, node-JSON cache
	XPath  string // "default" | "cap1" : compiled xpath cache
}

func (c cacheConfig) String() string {
	return fmt.Sprintf("pool=%v,tcache=%v,js=%s,xpath=%s", c.Pool, c.TCache, c.JS, c.XPath)
}

func applyCacheConfig(c cacheConfig) {
	idr.VerifSetNodeCaching(c.Pool)
	idr.VerifResetNodePool()
	transform.VerifDisableTransformCache = !c.TCache
	v21.VerifResetCaches()
	v21.VerifSetDisableCaching(c.JS == "off")
	if c.JS == "cap1" {
		v21.JSProgramCache = caches.NewLoadingCache(1)
		v21.NodeToJSONCache = caches.NewLoadingCache(1)
	}
	if c.XPath == "cap1" {
		caches.XPathExprCache = caches.NewLoadingCache(1)
	} else {
		caches.XPathExprCache = caches.NewLoadingCache()
	}
}

func restoreCacheDefaults() {
	applyCacheConfig(cacheConfig{Pool: true, TCache: true, JS: "on", XPath: "default"})
}

// schemas the property's quantifier singles out
const c13Collide = `{"parser_settings": {"version": "omni.2.1", "file_format_type": "xml"},
 "transform_declarations": {"FINAL_OUTPUT": {"xpath": "/root/a", "object": {
   "f1": {"array": [{"xpath": "a"}]}, "f2": {"xpath": "a", "object": {"f1": {"xpath": "a"}}},
   "f3": {"xpath": "a", "template": "t"}, "f4": {"array": [{"xpath": "a", "template": "t"}]},
   "f5": {"xpath_dynamic": {"const": "a"}}, "f6": {"xpath_dynamic": {"xpath": "@p"}},
   "e1": {"xpath": "a", "object": {}}, "e2": {"xpath": "a"}}},
   "t": {"object": {"v": {"xpath": "."}, "w": {"xpath": "a"}}}}}`
const c13CollideInput = `<root><a p="a"><a>1<a>2</a></a></a><a p="b"><a>3</a><b>4</b></a><a p="a"><a>5</a></a><a p="a"><a>1<a>2</a></a></a></root>`

const c13JSRecord = `{"parser_settings": {"version": "omni.2.1", "file_format_type": "xml"},
 "transform_declarations": {"FINAL_OUTPUT": {"xpath": "/root/rec", "object": {
   "self": {"custom_func": {"name": "javascript_with_context", "args": [{"const": "JSON.parse(_node).v"}]}},
   "again": {"custom_func": {"name": "javascript_with_context", "args": [{"const": "JSON.parse(_node).v + x"}, {"const": "x"}, {"xpath": "v"}]}},
   "plain": {"custom_func": {"name": "javascript", "args": [{"const": "a + '-' + b"}, {"const": "a"}, {"xpath": "v"}, {"const": "b"}, {"xpath": "w", "type": "int"}]}}}}}}`
const c13JSRecordInput = `<root><hdr>h</hdr><rec><v>one</v><w>1</w></rec><rec><v>two</v><w>2</w></rec><rec><v>three</v><w>3</w></rec></root>`

// javascript_with_context on an ancestor that changes between records
const c13JSAncestor = `{"parser_settings": {"version": "omni.2.1", "file_format_type": "xml"},
 "transform_declarations": {"FINAL_OUTPUT": {"xpath": "/root/rec", "object": {
   "v": {"xpath": "v"},
   "parent_sees": {"xpath": "..", "custom_func": {"name": "javascript_with_context", "args": [{"const": "JSON.parse(_node).rec.v"}]}}}}}}`

// a decl anchored on an ancestor of the record (same node, same ID for every record, content changes), in a stream where
// one record fails: whatever survives a failed record must not leak into the next one
const c13Ancestor = `{"parser_settings": {"version": "omni.2.1", "file_format_type": "xml"},
 "transform_declarations": {"FINAL_OUTPUT": {"xpath": "/root/rec", "object": {
   "a_parent": {"xpath": "..", "object": {"last_v": {"xpath": "rec[last()]/v"}, "hdr": {"xpath": "hdr"}}},
   "a_tmpl": {"xpath": "..", "template": "t"},
   "qty": {"xpath": "qty", "type": "int"},
   "v": {"xpath": "v"}}},
   "t": {"object": {"n": {"xpath": "rec[last()]/qty"}}}}}`
const c13AncestorInput = `<root><hdr>h</hdr><rec><v>one</v><qty>1</qty></rec><rec><v>two</v><qty>bad</qty></rec><rec><v>three</v><qty>3</qty></rec><rec><v>four</v><qty>x</qty></rec><rec><v>five</v><qty>5</qty></rec></root>`

// predecessors for the pool-history phase: whatever a pooled node carried in its previous life (namespace prefix / URI,
// JSON type) must be invisible to the next transform that draws it from the pool
const c13NSXML = `{"parser_settings": {"version": "omni.2.1", "file_format_type": "xml"},
 "transform_declarations": {"FINAL_OUTPUT": {"xpath": "/x:root/x:rec", "object": {"id": {"xpath": "x:id"}, "q": {"xpath": "x:qty/@x:u"}}}}}`
const c13NSXMLInput = `<x:root xmlns:x="urn:x"><x:rec x:n="1"><x:id>a</x:id><x:name>n</x:name><x:qty x:u="kg">1</x:qty></x:rec><x:rec><x:id>b</x:id><x:item>i</x:item><x:qty x:u="g">2</x:qty></x:rec><x:rec><x:id>c</x:id><x:sku>s</x:sku><x:sub>t</x:sub></x:rec></x:root>`
const c13TypedJSON = `{"parser_settings": {"version": "omni.2.1", "file_format_type": "json"},
 "transform_declarations": {"FINAL_OUTPUT": {"xpath": "/*", "object": {"id": {"xpath": "id"}}}}}`
const c13TypedJSONInput = `[{"id": 1, "qty": 2.5, "ok": true, "none": null, "tags": [1, 2, 3], "o": {"n": 7, "b": false}}, {"id": 2, "qty": 0, "ok": false, "tags": [4, 5], "o": {"n": 8}}]`

// a script that throws for one record, and a script that reads a global it is not given: with the VM pool on it must see
// what it sees with the pool off (nothing)
const c13JSThrow = `{"parser_settings": {"version": "omni.2.1", "file_format_type": "xml"},
 "transform_declarations": {"FINAL_OUTPUT": {"xpath": "/root/rec", "object": {"id": {"xpath": "@id"},
   "a_probe": ` + jsProbe + `, "b_code": ` + jsThrow + `,
   "c_ctx": {"custom_func": {"name": "javascript_with_context", "args": [{"const": "if (JSON.parse(_node).code == 'BAD-ctx') { throw 'ctx' }; typeof secret === 'undefined' ? 'clean' : 'LEAK:' + secret"}]}},
   "d_plain": {"custom_func": {"name": "javascript", "args": [{"const": "typeof _node === 'undefined' ? 'no _node' : 'LEAK: sees _node'"}]}},
   "e_secret": {"custom_func": {"name": "javascript", "args": [{"const": "if (secret == 's3') { throw 'secret' }; 'ok'"}, {"const": "secret"}, {"xpath": "s"}]}}}}}}`

// the same with the throwing records last: whatever a failed call leaves behind is still there when the next transform starts
const c13JSThrowLastInput = `<root><rec id="1"><code>k1</code><s>s1</s></rec><rec id="2"><s>s2</s></rec><rec id="3"><code>BAD-secret</code><s>s9</s></rec><rec id="4"><s>s3</s></rec></root>`
const c13JSThrowInput = `<root><rec id="1"><code>k1</code><s>s1</s></rec><rec id="2"><code>BAD-secret</code><s>s2</s></rec><rec id="3"><s>s3</s></rec><rec id="4"><code>BAD-ctx</code><s>s4</s></rec><rec id="5"><s>s5</s></rec><rec id="6"><code>k6</code></rec></root>`

// two declarations that differ only in ignore_error, evaluated on the same node: the lenient one first (fqdn order)
const c13IETwin = `{"parser_settings": {"version": "omni.2.1", "file_format_type": "xml"},
 "transform_declarations": {"FINAL_OUTPUT": {"xpath": "/root/rec", "object": {
   "a_lenient": {"custom_func": {"name": "javascript", "args": [{"const": "if (v == 'bad') { throw 'bad v' }; v + '!'"}, {"const": "v"}, {"xpath": "v"}], "ignore_error": true}},
   "b_strict": {"custom_func": {"name": "javascript", "args": [{"const": "if (v == 'bad') { throw 'bad v' }; v + '!'"}, {"const": "v"}, {"xpath": "v"}]}},
   "c_list": {"array": [
      {"custom_func": {"name": "dateTimeToRFC3339", "args": [{"xpath": "d"}, {"const": ""}, {"const": ""}], "ignore_error": true}},
      {"custom_func": {"name": "dateTimeToRFC3339", "args": [{"xpath": "d"}, {"const": ""}, {"const": ""}]}}]}}}}}`
const c13IETwinInput = `<root><rec><v>one</v><d>2020-01-02</d></rec><rec><v>bad</v><d>2020-01-03</d></rec><rec><v>three</v><d>nodate</d></rec><rec><v>four</v><d>2020-01-05</d></rec></root>`

// one namespace URI under two prefixes that are in scope at the same time: which of them a node reports is a choice,
// but it must be the same choice every time (results and checksums are functions of the input)
const c13TwoPrefixes = `{"parser_settings": {"version": "omni.2.1", "file_format_type": "xml"},
 "transform_declarations": {"FINAL_OUTPUT": {"xpath": "/root/*", "object": {"a_id": {"xpath": "a:id"}, "b_id": {"xpath": "b:id"}, "all": {"custom_func": {"name": "copy"}}}}}}`
const c13TwoPrefixesInput = `<root xmlns:a="urn:same" xmlns:b="urn:same" xmlns="urn:same"><a:rec><a:id>1</a:id><b:v>x</b:v><w>d</w></a:rec><b:rec><b:id>2</b:id><a:v a:k="1">y</a:v></b:rec><rec><id>3</id><a:id>3a</a:id><b:id>3b</b:id></rec><a:rec><b:id>4</b:id></a:rec><b:rec><a:id>5</a:id></b:rec><a:rec><a:id>6</a:id><b:id>6</b:id></a:rec></root>`

// the node handed to javascript_with_context is the record itself, the records differ in shape: the pool hands the
// context node of an earlier record out again for a later one
const c13JSShapes = `{"parser_settings": {"version": "omni.2.1", "file_format_type": "xml"},
 "transform_declarations": {"FINAL_OUTPUT": {"xpath": "/root/rec", "object": {"id": {"xpath": "id"},
   "ctx_id": {"custom_func": {"name": "javascript_with_context", "args": [{"const": "JSON.parse(_node).id"}]}},
   "n": {"custom_func": {"name": "javascript_with_context", "args": [{"const": "Object.keys(JSON.parse(_node)).length"}]}}}}}}`

func c13JSShapesInput() string {
	var sb strings.Builder
	sb.WriteString("<root>")
	for i := 0; i < 80; i++ {
		sb.WriteString(fmt.Sprintf("<rec><id>r%d</id>", i))
		for k := 0; k < (i*7)%4; k++ {
			sb.WriteString(fmt.Sprintf("<x%d>v</x%d>", k, k))
		}
		if i%5 == 0 {
			sb.WriteString("<deep><d1><d2>z</d2></d1></deep>")
		}
		sb.WriteString("</rec>")
	}
	sb.WriteString("</root>")
	return sb.String()
}

// the xpath of a field computed from an external property: two runs on the *same* Schema object with different values
const c13ExtDyn = `{"parser_settings": {"version": "omni.2.1", "file_format_type": "json"},
 "transform_declarations": {"FINAL_OUTPUT": {"xpath": "/*", "object": {
   "picked": {"xpath_dynamic": {"external": "value_path"}}, "tag": {"external": "tag"},
   "via_func": {"xpath_dynamic": {"custom_func": {"name": "concat", "args": [{"external": "value_path"}]}}}}}}}`
const c13ExtDynInput = `[{"a": "A1", "b": "B1"}, {"a": "A2", "b": "B2"}]`

// tenants with Extensions of their own: both bind the name `tag`, to different functions; tenant A also replaces the
// built-in `upper`.  Next to them a schema on the built-in extension that uses the built-in functions of the same names.
const c13ExtFuncs = `{"parser_settings": {"version": "omni.2.1", "file_format_type": "json"},
 "transform_declarations": {"FINAL_OUTPUT": {"xpath": "/*", "object": {"id": {"xpath": "id"},
   "t": {"custom_func": {"name": "tag", "args": [{"xpath": "id"}]}},
   "u": {"custom_func": {"name": "upper", "args": [{"xpath": "name"}]}},
   "l": {"custom_func": {"name": "lower", "args": [{"xpath": "name"}]}}}}}}`
const c13BuiltinFuncs = `{"parser_settings": {"version": "omni.2.1", "file_format_type": "json"},
 "transform_declarations": {"FINAL_OUTPUT": {"xpath": "/*", "object": {"id": {"xpath": "id"},
   "u": {"custom_func": {"name": "upper", "args": [{"xpath": "name"}]}},
   "l": {"custom_func": {"name": "lower", "args": [{"xpath": "name"}]}},
   "c": {"custom_func": {"name": "concat", "args": [{"xpath": "id"}, {"const": "-"}, {"xpath": "name"}]}},
   "k": {"custom_func": {"name": "coalesce", "args": [{"xpath": "missing"}, {"xpath": "name"}]}}}}}}`
const c13ExtFuncsInput = `[{"id": "1", "name": "Alice"}, {"id": "2", "name": "bob"}, {"id": "3"}, {"id": "4", "name": "Chloé"}]`

func tenantExtension(tenant string, replaceUpper bool) omniparser.Extension {
	over := customfuncs.CustomFuncs{"tag": func(_ *transformctx.Ctx, s string) (string, error) { return tenant + ":" + s, nil }}
	if replaceUpper {
		over["upper"] = func(_ *transformctx.Ctx, s string) (string, error) { return tenant + "^" + strings.ToUpper(s), nil }
	}
	// (the way the repository's samples build an Extension's table: the exported tables first, the tenant's own last)
	return omniparser.Extension{CreateSchemaHandler: omniv21.CreateSchemaHandler,
		CustomFuncs: customfuncs.Merge(customfuncs.CommonCustomFuncs, v21.OmniV21CustomFuncs, over)}
}

func c13Corpus() ([]*corpusItem, error) {
	items, err := multiRunCorpus(false)
	if err != nil {
		return nil, err
	}
	extra := []*corpusItem{
		{Name: "c13/identical-decls-templates-dynamic", Format: "xml", Schema: []byte(c13Collide), Input: []byte(c13CollideInput)},
		{Name: "c13/js-on-record", Format: "xml", Schema: []byte(c13JSRecord), Input: []byte(c13JSRecordInput)},
		{Name: "c13/js-on-ancestor", Format: "xml", Schema: []byte(c13JSAncestor), Input: []byte(c13JSRecordInput)},
		{Name: "c13/js-throw-then-probe", Format: "xml", Schema: []byte(c13JSThrow), Input: []byte(c13JSThrowInput)},
		{Name: "c13/ignore-error-twin", Format: "xml", Schema: []byte(c13IETwin), Input: []byte(c13IETwinInput)},
		{Name: "c13/xml-two-prefixes-one-uri", Format: "xml", Schema: []byte(c13TwoPrefixes), Input: []byte(c13TwoPrefixesInput)},
		{Name: "c13/js-context-varying-shapes", Format: "xml", Schema: []byte(c13JSShapes), Input: []byte(c13JSShapesInput())},
		{Name: "c13/js-throw-last", Format: "xml", Schema: []byte(c13JSThrow), Input: []byte(c13JSThrowLastInput)},
		{Name: "c13/ancestor-anchored-with-failing-records", Format: "xml", Schema: []byte(c13Ancestor), Input: []byte(c13AncestorInput)},
	}
	for _, tn := range []struct {
		name  string
		upper bool
	}{{"A", true}, {"B", false}} {
		tn := tn
		extra = append(extra, &corpusItem{Name: "c13/ext-tenant-" + tn.name, Format: "json", Schema: []byte(c13ExtFuncs), Input: []byte(c13ExtFuncsInput),
			mk: func() (omniparser.Schema, error) {
				sch, err, p := newSchema([]byte(c13ExtFuncs), tenantExtension(tn.name, tn.upper))
				if err == nil && p != "" {
					err = fmt.Errorf("panic: %s", p)
				}
				return sch, err
			}})
	}
	// a target filter next to lines the reader itself rejects: filtered-out records directly before and after such lines
	extra = append(extra,
		&corpusItem{Name: "c13/csv-filter-and-rejected-lines", Format: "csv", Schema: []byte(strings.Replace(miniCSV, `{"FINAL_OUTPUT": {"object"`, `{"FINAL_OUTPUT": {"xpath": ".[id != '3' and id != '5']", "object"`, 1)),
			Input: []byte("id,name,qty\n1,alpha,10\n2,be\"ta,20\n3,gamma,30\n4,\"del\"ta,40\n5,eps,50\n6,\"open\"x,60\n7,eta,70\n8,theta,80\n3,again,31\n9,io\"ta,90\n10,kappa,100\n11,lambda,110\n")},
		&corpusItem{Name: "c13/csv2-filter-and-rejected-lines", Format: "csv2", Schema: []byte(strings.Replace(miniCSV2, `{"FINAL_OUTPUT": {"object"`, `{"FINAL_OUTPUT": {"xpath": ".[id != 'c']", "object"`, 1)),
			Input: []byte("H,a,1\nD,x\nH,c,3\nH,b\"b,2\nD,y\nH,d,4\nD,z\nH,c,5\nD,\"z\"z\nH,e,6\nH,f,7\n")})
	// sibling fields whose names share everything after a dot, several of them failing on the same record: which failure
	// is reported is part of the result
	extra = append(extra, &corpusItem{Name: "c13/dotted-field-names", Format: "json", Schema: []byte(`{"parser_settings": {"version": "omni.2.1", "file_format_type": "json"},
 "transform_declarations": {"FINAL_OUTPUT": {"xpath": "/*", "object": {
   "ship.zip": {"xpath": "ship", "type": "int"}, "bill.zip": {"xpath": "bill", "type": "int"}, "a.b.zip": {"xpath": "ab", "type": "int"}, "zip": {"xpath": "zip", "type": "int"},
   "x%.zip": {"xpath": "x", "type": "int"}, "zip.": {"xpath": "z2", "type": "int"}, "nested": {"object": {"q.zip": {"xpath": "q", "type": "int"}, "p.zip": {"xpath": "p", "type": "int"}}}}}}}`),
		Input: []byte(`[{"ship": "1", "bill": "2", "ab": "3", "zip": "4", "x": "5", "z2": "6", "q": "7", "p": "8"}, {"ship": "s", "bill": "b", "ab": "ab", "zip": "z", "x": "x", "z2": "zz", "q": "q", "p": "p"},
 {"ship": "1", "bill": "b", "ab": "ab"}, {"ship": "s", "bill": "2", "ab": "ab"}, {"q": "q", "p": "p"}, {"ship": "1", "q": "7", "p": "p"}, {"x": "x", "z2": "zz", "zip": "z"}, {"bill": "b", "zip": "z", "ship": "s"}]`)})
	extra = append(extra, &corpusItem{Name: "c13/union-xpaths", Format: "xml", Schema: []byte(`{"parser_settings": {"version": "omni.2.1", "file_format_type": "xml"},
 "transform_declarations": {"FINAL_OUTPUT": {"xpath": "/root/rec", "object": {
   "ab": {"array": [{"xpath": "a | b"}]}, "ba": {"array": [{"xpath": "b | a"}]}, "deep": {"array": [{"xpath": "g/b | a | g/a"}]},
   "objs": {"array": [{"xpath": "g | a", "object": {"t": {"xpath": "."}}}]}, "one": {"xpath": "c | d"}}}}}`),
		Input: []byte(`<root><rec><a>a1</a><b>b1</b><a>a2</a><g><a>ga1</a><b>gb1</b></g><b>b2</b><c>c1</c></rec><rec><b>b3</b><a>a3</a><g><b>gb2</b><a>ga2</a></g><a>a4</a><d>d1</d></rec>` +
			`<rec><a>a5</a><b>b5</b><a>a6</a><g><a>ga3</a><b>gb3</b></g><b>b6</b><c>c2</c></rec><rec><a>a7</a><b>b7</b><a>a8</a><b>b8</b><a>a9</a><c>c3</c></rec><rec><g><a>x</a></g><b>y</b><a>z</a></rec></root>`)})
	extra = append(extra, &corpusItem{Name: "c13/js-odd-endings", Format: "json", Schema: []byte(`{"parser_settings": {"version": "omni.2.1", "file_format_type": "json"},
 "transform_declarations": {"FINAL_OUTPUT": {"xpath": "/*", "object": {"id": {"xpath": "id"},
   "a": {"custom_func": {"name": "javascript", "args": [{"const": "v + 1 // trailing comment"}, {"const": "v"}, {"xpath": "v", "type": "int"}], "ignore_error": true}},
   "b": {"custom_func": {"name": "javascript", "args": [{"const": "v + 2\n//# sourceMappingURL=nosuch.map"}, {"const": "v"}, {"xpath": "v", "type": "int"}], "ignore_error": true}},
   "c": {"custom_func": {"name": "javascript", "args": [{"const": "'use strict'; v + 3;\n/* block */\n"}, {"const": "v"}, {"xpath": "v", "type": "int"}], "ignore_error": true}},
   "d": {"custom_func": {"name": "javascript", "args": [{"const": "v + 4\n//@ sourceURL=x.js"}, {"const": "v"}, {"xpath": "v", "type": "int"}], "ignore_error": true}},
   "e": {"custom_func": {"name": "javascript", "args": [{"const": "\ufeffv + 5"}, {"const": "v"}, {"xpath": "v", "type": "int"}], "ignore_error": true}}}}}}`),
		Input: []byte(`[{"id": "1", "v": 1}, {"id": "2", "v": 10}, {"id": "3"}]`)})
	for k, lit := range []string{"NEW  YORK", "NEW YORK", "NEW\\tYORK"} {
		extra = append(extra, &corpusItem{Name: fmt.Sprintf("c13/xpath-literal-twin-%d", k+1), Format: "json", Schema: []byte(`{"parser_settings": {"version": "omni.2.1", "file_format_type": "json"},
 "transform_declarations": {"FINAL_OUTPUT": {"xpath": "/*", "object": {"city": {"xpath": "city", "no_trim": true}, "val": {"xpath": "val[../city = '` + lit + `']"},
   "n": {"xpath": ".[contains(city, '` + lit + `')]/val"}}}}}`),
			Input: []byte(`[{"city": "NEW  YORK", "val": "1"}, {"city": "NEW YORK", "val": "2"}, {"city": "NEW\tYORK", "val": "3"}, {"city": "NEWYORK", "val": "4"}]`)})
	}
	extra = append(extra, &corpusItem{Name: "c13/edi-defaulted-elements", Format: "edi", Schema: []byte(`{"parser_settings": {"version": "omni.2.1", "file_format_type": "edi"},
 "file_declaration": {"segment_delimiter": "~", "element_delimiter": "*", "segment_declarations": [{"name": "HDR", "is_target": true, "max": -1,
   "elements": [{"name": "id", "index": 1}, {"name": "city", "index": 2, "default": "anywhere"}, {"name": "country", "index": 3, "default": "nowhere"}, {"name": "zip", "index": 4, "empty_if_missing": true}]}]},
 "transform_declarations": {"FINAL_OUTPUT": {"object": {"id": {"xpath": "id"},
   "city": {"xpath": "city", "template": "wrap"}, "country": {"xpath": "country", "template": "wrap"}, "zip": {"xpath": "zip", "template": "wrap"},
   "all": {"array": [{"xpath": "*", "template": "val"}]},
   "city_js": {"xpath": "city", "custom_func": {"name": "javascript_with_context", "args": [{"const": "_node"}]}},
   "country_js": {"xpath": "country", "custom_func": {"name": "javascript_with_context", "args": [{"const": "_node"}]}}}},
  "wrap": {"object": {"v": {"xpath": "."}}}, "val": {"object": {"w": {"xpath": "."}}}}}`),
		Input: []byte("HDR*1~HDR*2*paris~HDR*3*rome*italy*00100~HDR*4~HDR*5**spain~")})
	extra = append(extra, &corpusItem{Name: "c13/builtin-funcs", Format: "json", Schema: []byte(c13BuiltinFuncs), Input: []byte(c13ExtFuncsInput)})
	for _, it := range extra {
		if it.mk != nil {
			continue
		}
		sch, err, p := newSchema(it.Schema)
		if err != nil || p != "" {
			return nil, fmt.Errorf("c13 schema %s rejected: %v %s", it.Name, err, p)
		}
		it.sch = sch
	}
	// three items on ONE Schema object, differing in their external properties only
	extSch, err, p := newSchema([]byte(c13ExtDyn))
	if err != nil || p != "" {
		return nil, fmt.Errorf("c13 external-property schema rejected: %v %s", err, p)
	}
	for _, e := range []map[string]string{{"value_path": "a", "tag": "first"}, {"value_path": "b", "tag": "second"}, {"value_path": "nomatch", "tag": ""}} {
		extra = append(extra, &corpusItem{Name: "c13/external-xpath-" + e["value_path"], Format: "json", Schema: []byte(c13ExtDyn), Input: []byte(c13ExtDynInput), Ext: e, sch: extSch})
	}
	// external properties whose names differ only in the case of their letters (a schema name that matches none of them
	// exactly is a missing property, every time)
	caseSchema := []byte(`{"parser_settings": {"version": "omni.2.1", "file_format_type": "json"},
 "transform_declarations": {"FINAL_OUTPUT": {"xpath": "/*", "object": {"id": {"xpath": "id"}, "exact": {"external": "Tenant_Id"},
   "other": {"custom_func": {"name": "concat", "args": [{"external": "tenant_id"}], "ignore_error": true}}, "third": {"external": "REGION", "keep_empty_or_null": true}}}}}`)
	caseSch, err, p := newSchema(caseSchema)
	if err != nil || p != "" {
		return nil, fmt.Errorf("c13 external-case schema rejected: %v %s", err, p)
	}
	extra = append(extra, &corpusItem{Name: "c13/external-names-differing-in-case", Format: "json", Schema: caseSchema, Input: []byte(`[{"id": "1"}, {"id": "2"}, {"id": "3"}, {"id": "4"}]`),
		Ext: map[string]string{"Tenant_Id": "from-header", "TENANT_ID": "from-env", "tenant_ID": "from-flag", "Tenant_id": "from-file", "REGION": "", "Region": "eu", "region": "us"}, sch: caseSch})
	return append(extra, items...), nil
}

func c13Drive(args []string) int {
	outPath := args[0]
	defer restoreCacheDefaults()
	items, err := c13Corpus()
	if err != nil {
		fmt.Println("error:", err)
		return 3
	}
	var configs []cacheConfig
	for _, pool := range []bool{false, true} {
		for _, tc := range []bool{false, true} {
			for _, js := range []string{"off", "on", "cap1"} {
				for _, xp := range []string{"cap1", "default"} {
					configs = append(configs, cacheConfig{pool, tc, js, xp})
				}
			}
		}
	}
	sum := newSummary()
	// transcripts[config][item]
	all := make([][][]string, len(configs))
	for ci, c := range configs {
		applyCacheConfig(c)
		all[ci] = make([][]string, len(items))
		// two passes over the corpus in the same process state: the second one runs with warm caches
		for pass := 0; pass < 2; pass++ {
			for ii, it := range items {
				o := runItem(it, nil)
				fp := fpAll(o, "full")
				if pass == 1 {
					// within one configuration the warm run must equal the cold run as well
					if fmt.Sprint(fp) != fmt.Sprint(all[ci][ii]) {
						fp = append(fp, "WARM-RUN-DIFFERS")
					}
				}
				all[ci][ii] = fp
			}
		}
	}
	var events []interface{}
	// pool history: each compact item right after a transform of another format, garbage collection held off so that the
	// pooled nodes of the predecessor are the ones the item draws; pool off is the reference
	preds := []*corpusItem{
		{Name: "c13/xml-namespaced", Format: "xml", Schema: []byte(c13NSXML), Input: []byte(c13NSXMLInput)},
		{Name: "c13/json-typed", Format: "json", Schema: []byte(c13TypedJSON), Input: []byte(c13TypedJSONInput)},
	}
	for _, pd := range preds {
		sch, err, p := newSchema(pd.Schema)
		if err != nil || p != "" {
			fmt.Println("error: c13 predecessor schema rejected", pd.Name, err, p)
			return 3
		}
		pd.sch = sch
	}
	trNo := len(items)
	for _, it := range items {
		if len(it.Input) > 6000 {
			continue
		}
		for _, pd := range preds {
			if pd.Format == it.Format {
				continue
			}
			trNo++
			for _, pool := range []bool{false, true} {
				applyCacheConfig(cacheConfig{Pool: pool, TCache: true, JS: "on", XPath: "default"})
				old := debug.SetGCPercent(-1)
				for k := 0; k < 3; k++ { // enough released nodes for every node of the item
					transcriptOf(pd.sch, bytes.NewReader(pd.Input), 100000)
				}
				o := runItem(it, nil)
				debug.SetGCPercent(old)
				ev := "golden"
				if pool {
					ev = "same"
					sum.Traces++
					sum.eval(true, M{"i": it.Name, "p": pd.Name})
				}
				events = append(events, M{"ev": ev, "tr": trNo, "item": it.Name, "results": fpAll(o, "full"),
					"config": fmt.Sprintf("pool=%v right after %s", pool, pd.Name)})
			}
		}
	}
	// the compiled-xpath cache against no cache at all (idr's DisableXPathCache, the path xpath_dynamic takes): expressions
	// whose literals contain runs of white space, either quote character, brackets - anything a cache key might normalise
	{
		doc := `<r><e n="A  B"><v>double</v></e><e n="A B"><v>single</v></e><e n="A	B"><v>tab</v></e><e n=" A B "><v>padded</v></e><e n="it's"><v>apos</v></e><e n='say "x"'><v>quot</v></e><e n="[1]"><v>bracket</v></e><e n="a]b"><v>close</v></e></r>`
		sr, e := idr.NewXMLStreamReader(strings.NewReader(doc), "/r")
		var root *idr.Node
		if e == nil {
			root, e = sr.Read()
		}
		if e != nil {
			fmt.Println("error: c13 xpath-cache document:", e)
			return 3
		}
		exprs := []string{`e[@n='A  B']/v`, `e[@n='A B']/v`, "e[@n='A\tB']/v", `e[@n=' A B ']/v`, `e[@n="it's"]/v`, `e[@n='say "x"']/v`, `e[@n='[1]']/v`, `e[@n='a]b']/v`,
			`e[contains(@n, '  ')]/v`, `e[contains(@n, ' ')]/v`, `e[ @n = 'A B' ]/v`, `e[starts-with(@n,' ')]/v`, `e[string-length(@n) = 4]/v`, ` e [ 2 ] / v `, `e[@n='A  B' or @n='A B']/v`}
		for round := 0; round < 2; round++ { // cold and warm
			for _, x := range exprs {
				sig := func(flags ...uint) string {
					ns, err := idr.MatchAll(root, x, flags...)
					if err != nil {
						return "error"
					}
					var vs []string
					for _, n := range ns {
						vs = append(vs, n.InnerText())
					}
					return strings.Join(vs, ",")
				}
				trNo++
				events = append(events, M{"ev": "golden", "tr": trNo, "item": "xpath " + x, "results": []string{sig(idr.DisableXPathCache)}, "config": "no xpath cache"})
				events = append(events, M{"ev": "same", "tr": trNo, "item": "xpath " + x, "results": []string{sig()}, "config": fmt.Sprintf("xpath cache, round %d", round+1)})
				sum.Traces++
				sum.eval(true, M{"x": x, "r": round})
			}
		}
	}
	for ii, it := range items {
		events = append(events, M{"ev": "golden", "tr": ii + 1, "item": it.Name, "results": all[0][ii], "config": configs[0].String()})
		for ci := 1; ci < len(configs); ci++ {
			events = append(events, M{"ev": "same", "tr": ii + 1, "item": it.Name, "results": all[ci][ii], "config": configs[ci].String()})
			sum.Traces++
			sum.eval(len(all[ci][ii]) > 2, M{"i": it.Name, "c": configs[ci].String()})
		}
	}
	sum.sample(M{"item": items[0].Name, "all_off": all[0][0], "configs": len(configs)})
	mustWriteNDJSON(outPath, events)
	sum.inc("configurations", len(configs))
	sum.done()
	return 0
}

// c13-replay <cases.ndjson>: the (declaration tree, record) cases TLC emits from MC_Eval - the spaces in which Eval.tla's
// cached evaluator was checked against the cache-free one (identical declarations at anchoring and non-anchoring
// positions, computed xpaths that fail next to a declaration with the same text, calls differing in ignore_error only,
// typed user functions) - each run on the real Transform with every cache off and with every cache on.
func c13Replay(args []string) int {
	defer restoreCacheDefaults()
	sum := newSummary()
	off := cacheConfig{Pool: false, TCache: false, JS: "off", XPath: "cap1"}
	on := cacheConfig{Pool: true, TCache: true, JS: "on", XPath: "default"}
	type cached struct {
		sch omniparser.Schema
		ok  bool
	}
	schemas := map[string]*cached{}
	nviol := 0
	err := readLines(args[0], func(line []byte) error {
		var c c02Case
		if e := json.Unmarshal(line, &c); e != nil {
			return e
		}
		inputs := map[string]string{"xml": c.D.renderXML()}
		if c.D.jsonOK(0) {
			inputs["json"] = c.D.renderJSON()
		}
		for _, format := range []string{"xml", "json"} {
			in, ok := inputs[format]
			if !ok {
				continue
			}
			for vi, o := range []renderOpts{{}, {templates: true}} {
				ck := fmt.Sprint(format, vi, hashOf(c.T))
				ce := schemas[ck]
				if ce == nil {
					if len(schemas) > 50000 {
						schemas = map[string]*cached{}
					}
					sch, e, p := newSchema([]byte(renderEvalSchema(&c.T, format, o)), evalExtensions(&c.T)...)
					ce = &cached{sch, e == nil && p == ""}
					schemas[ck] = ce
				}
				if !ce.ok {
					continue // (C02 reports a well-formed tree that is rejected)
				}
				var fps [2][]string
				for k, cfg := range []cacheConfig{off, on} {
					applyCacheConfig(cfg)
					fps[k] = fpAll(runTranscript(ce.sch, strings.NewReader(in), RunOpts{MaxReads: 4, Ext: evalExt}), "full")
				}
				sum.eval(c.Nt, M{"f": format, "v": vi})
				if fmt.Sprint(fps[0]) != fmt.Sprint(fps[1]) {
					nviol++
					if nviol <= 20 {
						violation("C13", "cache-visible:eval-case", fmt.Sprintf("%s input %q: all caches off gives %v, all caches on gives %v", format, in, fps[0], fps[1]),
							M{"format": format, "schema": renderEvalSchema(&c.T, format, o), "input": in, "all_off": fps[0], "all_on": fps[1]})
					}
				}
			}
		}
		return nil
	})
	if err != nil {
		fmt.Println("error:", err)
		return 3
	}
	sum.inc("mismatches", nviol)
	sum.done()
	return 0
}

func init() {
	cmds["c13-drive"] = c13Drive
	cmds["c13-replay"] = c13Replay
}
