package main

import "fmt"

// Compact, harness-owned schemas: one per built-in format, multi-record inputs, every record
// addressed only through its own data, one numeric cast so that a record can fail on its own.

const miniCSV = `{
 "parser_settings": {"version": "omni.2.1", "file_format_type": "csv"},
 "file_declaration": {"delimiter": ",", "header_row_index": 1, "data_row_index": 2,
   "columns": [{"name": "id"}, {"name": "name"}, {"name": "qty"}]},
 "transform_declarations": {"FINAL_OUTPUT": {"object": {
   "id": {"xpath": "id"}, "name": {"xpath": "name", "no_trim": true}, "qty": {"xpath": "qty", "type": "int"}}}}
}`
const miniCSVInput = "id,name,qty\n1,alpha,10\n2,\"be,ta\",20\n3,\"gam\"\"ma\",x\n\n4,delta,40\n5,\"multi\nline\",50\n"

const miniCSV2 = `{
 "parser_settings": {"version": "omni.2.1", "file_format_type": "csv2"},
 "file_declaration": {"delimiter": ",", "records": [
   {"name": "H", "header": "^H,", "is_target": true,
    "columns": [{"name": "id", "index": 2}, {"name": "qty", "index": 3}],
    "child_records": [{"name": "D", "header": "^D,", "min": 0, "columns": [{"name": "item", "index": 2}]}]}]},
 "transform_declarations": {"FINAL_OUTPUT": {"object": {
   "id": {"xpath": "id"}, "qty": {"xpath": "qty", "type": "int"},
   "items": {"array": [{"xpath": "D/item"}]}}}}
}`
const miniCSV2Input = "H,a,1\nD,x\nD,\"y,z\"\nH,b,2\n\nH,c,bad\nD,w\nH,d,4\nD,\"q\"\"r\"\n"

const miniFixed = `{
 "parser_settings": {"version": "omni.2.1", "file_format_type": "fixed-length"},
 "file_declaration": {"envelopes": [{"by_rows": 2, "columns": [
   {"name": "id", "start_pos": 1, "length": 3, "line_pattern": "^A"},
   {"name": "qty", "start_pos": 2, "length": 4, "line_pattern": "^B"}]}]},
 "transform_declarations": {"FINAL_OUTPUT": {"object": {
   "id": {"xpath": "id"}, "qty": {"xpath": "qty", "type": "int"}}}}
}`
const miniFixedInput = "A01 first\nB0010\nA02 second\nB0020\n\nA03 third\nBxx30\nA04 fourth\nB0040\n"

const miniFixed2 = `{
 "parser_settings": {"version": "omni.2.1", "file_format_type": "fixedlength2"},
 "file_declaration": {"envelopes": [
   {"name": "H", "header": "^H", "is_target": true,
    "columns": [{"name": "id", "start_pos": 2, "length": 3}, {"name": "qty", "start_pos": 5, "length": 4}],
    "child_envelopes": [{"name": "D", "header": "^D", "columns": [{"name": "item", "start_pos": 2, "length": 5}]}]}]},
 "transform_declarations": {"FINAL_OUTPUT": {"object": {
   "id": {"xpath": "id"}, "qty": {"xpath": "qty", "type": "int"},
   "items": {"array": [{"xpath": "D/item"}]}}}}
}`
const miniFixed2Input = "H0010010\nDitem1\nDitem2\nH0020020\n\nH003 bad\nDitem3\nH0040040\n"

const miniEDI = `{
 "parser_settings": {"version": "omni.2.1", "file_format_type": "edi"},
 "file_declaration": {"segment_delimiter": "~", "element_delimiter": "*", "component_delimiter": ":", "release_character": "?",
   "ignore_crlf": true,
   "segment_declarations": [
   {"name": "HDR", "min": 0, "max": -1, "is_target": true,
    "elements": [{"name": "id", "index": 1}, {"name": "qty", "index": 2, "default": "0"}],
    "child_segments": [{"name": "ITM", "min": 0, "max": -1,
       "elements": [{"name": "sku", "index": 1, "component_index": 1}, {"name": "sub", "index": 1, "component_index": 2, "default": ""}]}]}]},
 "transform_declarations": {"FINAL_OUTPUT": {"object": {
   "id": {"xpath": "id"}, "qty": {"xpath": "qty", "type": "int"},
   "items": {"array": [{"xpath": "ITM", "object": {"sku": {"xpath": "sku"}, "sub": {"xpath": "sub"}}}]}}}}
}`
const miniEDIInput = "HDR*a*1~\nITM*s1:x~\nITM*s?*2~\nHDR*b*2~\nHDR*c*bad~\nITM*s3~\nHDR*d~\n"

const miniJSON = `{
 "parser_settings": {"version": "omni.2.1", "file_format_type": "json"},
 "transform_declarations": {"FINAL_OUTPUT": {"xpath": "/*", "object": {
   "id": {"xpath": "id"}, "qty": {"xpath": "qty", "type": "int"},
   "tags": {"array": [{"xpath": "tags/*"}]}}}}
}`
const miniJSONInput = `[{"id": "a", "qty": 1, "tags": ["x", "y"]}, {"id": "b", "qty": 2, "tags": []},
 {"id": "c", "qty": "bad"}, {"id": "d", "qty": 4, "tags": ["é", "中"]}]`

const miniXML = `{
 "parser_settings": {"version": "omni.2.1", "file_format_type": "xml"},
 "transform_declarations": {"FINAL_OUTPUT": {"xpath": "/root/rec", "object": {
   "id": {"xpath": "@id"}, "qty": {"xpath": "qty", "type": "int"},
   "tags": {"array": [{"xpath": "tag"}]}}}}
}`
const miniXMLInput = `<?xml version="1.0"?><root><rec id="a"><qty>1</qty><tag>x</tag><tag>y</tag></rec><rec id="b"><qty>2</qty></rec><rec id="c"><qty>bad</qty></rec><rec id="d"><qty>4</qty><tag>&amp;é</tag></rec></root>`

// per-record failures of every kind a transform can produce, between records that succeed: a cast that fails, a value
// that casts but cannot be rendered as JSON (NaN / infinities), a custom function that returns an error, a script that throws
const miniFailKinds = `{
 "parser_settings": {"version": "omni.2.1", "file_format_type": "csv"},
 "file_declaration": {"delimiter": ",", "header_row_index": 1, "data_row_index": 2,
   "columns": [{"name": "id"}, {"name": "f"}, {"name": "d"}, {"name": "s"}]},
 "transform_declarations": {"FINAL_OUTPUT": {"object": {
   "id": {"xpath": "id"}, "f": {"xpath": "f", "type": "float"},
   "d": {"custom_func": {"name": "dateTimeToRFC3339", "args": [{"xpath": "d"}, {"const": ""}, {"const": ""}]}},
   "s": {"custom_func": {"name": "javascript", "args": [{"const": "if (s == 'boom') { throw 'boom' }; s + '!'"}, {"const": "s"}, {"xpath": "s"}]}}}}}
}`
const miniFailKindsInput = "id,f,d,s\n1,1.5,2020-01-01,a\n2,NaN,2020-01-02,b\n3,2.5,notadate,c\n4,-Inf,2020-01-04,d\n5,3.5,2020-01-05,boom\n" +
	"6,Infinity,2020-01-06,f\n7,x,2020-01-07,g\n8,1e999,2020-01-08,h\n9,4.5,2020-01-09,i\n"

// every date-time function, with and without explicit zones: the result may depend on the arguments only (not on the
// process's local zone)
const miniDateTime = `{
 "parser_settings": {"version": "omni.2.1", "file_format_type": "csv"},
 "file_declaration": {"delimiter": ",", "header_row_index": 1, "data_row_index": 2,
   "columns": [{"name": "id"}, {"name": "dt"}, {"name": "ep"}]},
 "transform_declarations": {"FINAL_OUTPUT": {"object": {
   "id": {"xpath": "id"},
   "r1": {"custom_func": {"name": "dateTimeToRFC3339", "args": [{"xpath": "dt"}, {"const": ""}, {"const": ""}]}},
   "r2": {"custom_func": {"name": "dateTimeToRFC3339", "args": [{"xpath": "dt"}, {"const": "America/New_York"}, {"const": "Asia/Tokyo"}]}},
   "r3": {"custom_func": {"name": "dateTimeToRFC3339", "args": [{"xpath": "dt"}, {"const": ""}, {"const": "Europe/Berlin"}]}},
   "l1": {"custom_func": {"name": "dateTimeLayoutToRFC3339", "args": [{"xpath": "dt"}, {"const": "2006-01-02T15:04:05"}, {"const": "false"}, {"const": ""}, {"const": ""}]}},
   "e1": {"custom_func": {"name": "dateTimeToEpoch", "args": [{"xpath": "dt"}, {"const": ""}, {"const": "SECOND"}]}},
   "e2": {"custom_func": {"name": "dateTimeToEpoch", "args": [{"xpath": "dt"}, {"const": "Australia/Sydney"}, {"const": "MILLISECOND"}]}},
   "t1": {"custom_func": {"name": "epochToDateTimeRFC3339", "args": [{"xpath": "ep"}, {"const": "SECOND"}]}},
   "t2": {"custom_func": {"name": "epochToDateTimeRFC3339", "args": [{"xpath": "ep"}, {"const": "MILLISECOND"}]}},
   "t3": {"custom_func": {"name": "epochToDateTimeRFC3339", "args": [{"xpath": "ep"}, {"const": "SECOND"}, {"const": "America/St_Johns"}]}}}}}
}`
const miniDateTimeInput = "id,dt,ep\n1,2021-03-14T03:30:00,0\n2,2020-09-22T12:34:56,1600000000\n3,1969-12-31T23:59:59,-1\n4,2021-11-07T01:30:00,1636263000\n5,bad,12\n6,2024-02-29T00:00:00,x\n"

// a declared element without default: its absence ends the stream with a fatal error (a record can not be skipped here)
const miniEDIRequired = `{
 "parser_settings": {"version": "omni.2.1", "file_format_type": "edi"},
 "file_declaration": {"segment_delimiter": "~", "element_delimiter": "*",
   "segment_declarations": [{"name": "HDR", "min": 0, "max": -1, "is_target": true,
     "elements": [{"name": "id", "index": 1}, {"name": "qty", "index": 2}]}]},
 "transform_declarations": {"FINAL_OUTPUT": {"object": {"id": {"xpath": "id"}, "qty": {"xpath": "qty", "type": "int"}}}}
}`
const miniEDIRequiredInput = "HDR*a*1~HDR*b*x~HDR*c~HDR*d*4~"

// data after the complete top-level JSON value: a fatal error at the Read that meets it, whatever the token is
const miniJSONTrailInput = `[{"id": "a", "qty": 1, "tags": ["x"]}, {"id": "b", "qty": "bad"}] 7`
const miniJSONTrailInput2 = `[{"id": "a", "qty": 1}]
"tail" {"id": "z"}`
const miniJSONTrailInput3 = `{"id": "solo", "qty": 3} null`

// a filter on the target of the legacy fixed-length reader that rejects the last envelope (and one in the middle)
const miniFixedFiltered = `{
 "parser_settings": {"version": "omni.2.1", "file_format_type": "fixed-length"},
 "file_declaration": {"envelopes": [{"name": "R", "by_header_footer": {"header": "^A", "footer": "^B"}, "columns": [
   {"name": "id", "start_pos": 1, "length": 3, "line_pattern": "^A"},
   {"name": "qty", "start_pos": 2, "length": 4, "line_pattern": "^B"}]}]},
 "transform_declarations": {"FINAL_OUTPUT": {"xpath": ".[qty != '0000']", "object": {
   "id": {"xpath": "id"}, "qty": {"xpath": "qty", "type": "int"}}}}
}`
const miniFixedFilteredInput = "A01 first\nB0010\nA02 second\nB0000\nA03 third\nB0030\nA04 fourth\nB0000\n"

// character data, a comment and a processing instruction after the document element
const miniXMLTrailerInput = `<?xml version="1.0"?><root><rec id="a"><qty>1</qty></rec><rec id="b"><qty>x</qty></rec></root>
<!-- end of file -->
<?done yes?>
`

// values full of characters that are special somewhere on the way out: backslashes, the six-character texts \u0026 /
// \u003c, quotes, angle brackets, ampersands, control characters, line separators, non-BMP runes
const miniSpecials = `{
 "parser_settings": {"version": "omni.2.1", "file_format_type": "csv"},
 "file_declaration": {"delimiter": "|", "data_row_index": 1, "columns": [{"name": "id"}, {"name": "note"}]},
 "transform_declarations": {"FINAL_OUTPUT": {"object": {"id": {"xpath": "id"}, "note": {"xpath": "note", "no_trim": true},
   "both": {"custom_func": {"name": "concat", "args": [{"xpath": "note"}, {"const": "<&>\\u0026"}]}}}}}
}`
const miniSpecialsInput = "1|plain\n2|C:\\share\\u0026\\readme.txt\n3|a\\u003cb \\u003e c\n4|<tag attr='x'>&amp;</tag>\n5|tab\there \x01 ctl\n6|\u2028 sep \u2029 \U0001F600\n7|back\\slash \\\\ double\n"

// csv2 with replace_double_quotes: double quotes are ordinary characters that arrive as single quotes
const miniCSV2RDQ = `{
 "parser_settings": {"version": "omni.2.1", "file_format_type": "csv2"},
 "file_declaration": {"delimiter": ",", "replace_double_quotes": true, "records": [{"name": "R", "columns": [{"name": "id", "index": 1}, {"name": "note", "index": 2}]}]},
 "transform_declarations": {"FINAL_OUTPUT": {"object": {"id": {"xpath": "id"}, "note": {"xpath": "note"}}}}
}`
const miniCSV2RDQInput = "1,plain\n2,say \"hi\"\n3,\"quoted\n4,5\" wide\n5,\"last\" line\n"

// an XML document that declares a single-byte encoding itself (the decoder switches charset after the declaration)
const miniXMLDeclaredInput = "<?xml version=\"1.0\" encoding=\"ISO-8859-1\"?>\n<root><rec id=\"a\"><qty>1</qty><tag>caf\xe9</tag></rec><rec id=\"b\"><qty>2</qty><tag>\xfcber</tag></rec><rec id=\"c\"><qty>bad</qty></rec><rec id=\"d\"><qty>4</qty><tag>na\xefve &amp; cr\xe8me</tag></rec></root>\n"

// lines the csv readers themselves reject (a bare quote inside a field, text after a closing quote) between lines they
// accept: the reader reports the line and carries on with the next one
const miniCSVBadLinesInput = "id,name,qty\n1,alpha,10\n2,be\"ta,20\n3,gamma,30\n4,\"del\"ta,40\n5,eps,50\n6,\"open,60\n"
const miniCSV2BadLinesInput = "H,a,1\nD,x\nH,b\"b,2\nD,y\nH,c,3\nD,\"z\"z\nH,d,4\n"

// an optional multi-line preamble (header .. footer, or a fixed number of rows) in front of single-line records that
// would match the preamble's lines too
const miniFixed2Preamble = `{
 "parser_settings": {"version": "omni.2.1", "file_format_type": "fixedlength2"},
 "file_declaration": {"envelopes": [
   {"name": "PRE", "header": "^BEGIN", "footer": "^END", "min": 0, "max": 1, "columns": [{"name": "m", "start_pos": 1, "length": 5, "line_pattern": "^meta"}]},
   {"name": "R", "is_target": true, "columns": [{"name": "id", "start_pos": 1, "length": 5}, {"name": "qty", "start_pos": 6, "length": 4}]}]},
 "transform_declarations": {"FINAL_OUTPUT": {"object": {"id": {"xpath": "id"}, "qty": {"xpath": "qty", "type": "int"}}}}
}`
const miniFixed2RowsPreamble = `{
 "parser_settings": {"version": "omni.2.1", "file_format_type": "fixedlength2"},
 "file_declaration": {"envelopes": [
   {"name": "PRE", "rows": 4, "min": 1, "max": 1, "columns": [{"name": "m", "start_pos": 1, "length": 5, "line_index": 2}]},
   {"name": "R", "is_target": true, "columns": [{"name": "id", "start_pos": 1, "length": 5}, {"name": "qty", "start_pos": 6, "length": 4}]}]},
 "transform_declarations": {"FINAL_OUTPUT": {"object": {"id": {"xpath": "id"}, "qty": {"xpath": "qty", "type": "int"}}}}
}`
const miniFixed2PreambleInput = "BEGIN\nmeta1\nmeta2\nEND\nR00010010\nR00020020\nR0003 bad\nR00040040\n"
const miniCSV2Preamble = `{
 "parser_settings": {"version": "omni.2.1", "file_format_type": "csv2"},
 "file_declaration": {"delimiter": ",", "records": [
   {"name": "PRE", "header": "^BEGIN", "footer": "^END", "min": 0, "max": 1, "columns": [{"name": "m", "index": 1, "line_pattern": "^meta"}]},
   {"name": "R", "is_target": true, "columns": [{"name": "id", "index": 1}, {"name": "qty", "index": 2}]}]},
 "transform_declarations": {"FINAL_OUTPUT": {"object": {"id": {"xpath": "id"}, "qty": {"xpath": "qty", "type": "int"}}}}
}`
const miniCSV2PreambleInput = "BEGIN,x\nmeta1,y\nmeta2\nEND\nr1,10\nr2,20\nr3,bad\nr4,40\n"

func miniSamples() []Sample {
	return []Sample{
		{"mini/fixedlength2-preamble", "fixedlength2", []byte(miniFixed2Preamble), []byte(miniFixed2PreambleInput)},
		{"mini/fixedlength2-rows-preamble", "fixedlength2", []byte(miniFixed2RowsPreamble), []byte(miniFixed2PreambleInput)},
		{"mini/csv2-preamble", "csv2", []byte(miniCSV2Preamble), []byte(miniCSV2PreambleInput)},
		{"mini/csv-rejected-lines", "csv", []byte(miniCSV), []byte(miniCSVBadLinesInput)},
		{"mini/csv2-rejected-lines", "csv2", []byte(miniCSV2), []byte(miniCSV2BadLinesInput)},
		{"mini/xml-declared-latin1", "xml", []byte(miniXML), []byte(miniXMLDeclaredInput)},
		{"mini/csv2-replace-double-quotes", "csv2", []byte(miniCSV2RDQ), []byte(miniCSV2RDQInput)},
		{"mini/specials", "csv", []byte(miniSpecials), []byte(miniSpecialsInput)},
		{"mini/xml-trailer", "xml", []byte(miniXML), []byte(miniXMLTrailerInput)},
		{"mini/json-trailing-scalar", "json", []byte(miniJSON), []byte(miniJSONTrailInput)},
		{"mini/json-trailing-string-object", "json", []byte(miniJSON), []byte(miniJSONTrailInput2)},
		{"mini/json-trailing-null", "json", []byte(miniJSON), []byte(miniJSONTrailInput3)},
		{"mini/fixedlength-filtered", "fixedlength", []byte(miniFixedFiltered), []byte(miniFixedFilteredInput)},
		{"mini/edi-required-element", "edi", []byte(miniEDIRequired), []byte(miniEDIRequiredInput)},
		{"mini/datetime", "csv", []byte(miniDateTime), []byte(miniDateTimeInput)},
		{"mini/failkinds", "csv", []byte(miniFailKinds), []byte(miniFailKindsInput)},
		{"mini/csv", "csv", []byte(miniCSV), []byte(miniCSVInput)},
		{"mini/csv2", "csv2", []byte(miniCSV2), []byte(miniCSV2Input)},
		{"mini/fixedlength", "fixedlength", []byte(miniFixed), []byte(miniFixedInput)},
		{"mini/fixedlength2", "fixedlength2", []byte(miniFixed2), []byte(miniFixed2Input)},
		{"mini/edi", "edi", []byte(miniEDI), []byte(miniEDIInput)},
		{"mini/json", "json", []byte(miniJSON), []byte(miniJSONInput)},
		{"mini/xml", "xml", []byte(miniXML), []byte(miniXMLInput)},
	}
}

// Generated inputs whose multi-line records straddle the readers' buffer boundaries (bufio 4096, EDI scanner 128..64K).

const genFixed2Rows = `{
 "parser_settings": {"version": "omni.2.1", "file_format_type": "fixedlength2"},
 "file_declaration": {"envelopes": [{"name": "R", "rows": 3, "columns": [
   {"name": "l1", "start_pos": 1, "length": 700, "line_index": 1},
   {"name": "l2", "start_pos": 1, "length": 700, "line_index": 2},
   {"name": "l3", "start_pos": 1, "length": 700, "line_index": 3}]}]},
 "transform_declarations": {"FINAL_OUTPUT": {"object": {"l1": {"xpath": "l1"}, "l2": {"xpath": "l2"}, "l3": {"xpath": "l3"}}}}
}`

const genFixed2HF = `{
 "parser_settings": {"version": "omni.2.1", "file_format_type": "fixedlength2"},
 "file_declaration": {"envelopes": [{"name": "R", "header": "^H", "footer": "^F", "columns": [
   {"name": "h", "start_pos": 1, "length": 700, "line_pattern": "^H"},
   {"name": "d", "start_pos": 1, "length": 700, "line_pattern": "^D"},
   {"name": "f", "start_pos": 1, "length": 700, "line_pattern": "^F"}]}]},
 "transform_declarations": {"FINAL_OUTPUT": {"object": {"h": {"xpath": "h"}, "d": {"xpath": "d"}, "f": {"xpath": "f"}}}}
}`

const genFixedLegacyRows = `{
 "parser_settings": {"version": "omni.2.1", "file_format_type": "fixed-length"},
 "file_declaration": {"envelopes": [{"by_rows": 3, "columns": [
   {"name": "l1", "start_pos": 1, "length": 700, "line_pattern": "^H"},
   {"name": "l2", "start_pos": 1, "length": 700, "line_pattern": "^D"},
   {"name": "l3", "start_pos": 1, "length": 700, "line_pattern": "^F"}]}]},
 "transform_declarations": {"FINAL_OUTPUT": {"object": {"l1": {"xpath": "l1"}, "l2": {"xpath": "l2"}, "l3": {"xpath": "l3"}}}}
}`

const genCSV2Rows = `{
 "parser_settings": {"version": "omni.2.1", "file_format_type": "csv2"},
 "file_declaration": {"delimiter": ",", "records": [{"name": "R", "rows": 3, "columns": [
   {"name": "a", "index": 2, "line_index": 1}, {"name": "b", "index": 2, "line_index": 2}, {"name": "c", "index": 2, "line_index": 3}]}]},
 "transform_declarations": {"FINAL_OUTPUT": {"object": {"a": {"xpath": "a"}, "b": {"xpath": "b"}, "c": {"xpath": "c"}}}}
}`

func genLines(prefixes []string, recs, width int) string {
	var sb []byte
	for r := 0; r < recs; r++ {
		for li, p := range prefixes {
			line := []byte(p)
			for len(line) < width+(r*7+li*13)%41 {
				line = append(line, byte('a'+(len(line)*7+r*3+li)%26))
			}
			sb = append(sb, line...)
			if r%2 == 0 {
				sb = append(sb, '\r')
			}
			sb = append(sb, '\n')
			// insignificant blank lines, also between the rows of one record
			if (r+li)%3 == 0 {
				sb = append(sb, '\n')
			}
			if (r*3+li)%5 == 0 {
				sb = append(sb, '\r', '\n')
			}
		}
	}
	return string(sb)
}

func genCSVLines(recs, width int) string {
	var sb []byte
	for r := 0; r < recs; r++ {
		for li := 0; li < 3; li++ {
			sb = append(sb, fmt.Sprintf("k%d,\"", li)...)
			for n := 0; n < width+(r*5+li*11)%37; n++ {
				c := byte('a' + (n*5+r+li)%26)
				if n%97 == 13 {
					sb = append(sb, '"', '"')
					continue
				}
				if n%131 == 17 {
					c = ','
				}
				sb = append(sb, c)
			}
			sb = append(sb, '"', '\n')
		}
	}
	return string(sb)
}

func genEDILong(segs, width int) string {
	var sb []byte
	for s := 0; s < segs; s++ {
		sb = append(sb, "HDR*"...)
		for n := 0; n < width*(1+s%5); n++ {
			c := byte('a' + (n*3+s)%26)
			if n%53 == 7 {
				sb = append(sb, '?', '~')
				continue
			}
			sb = append(sb, c)
		}
		sb = append(sb, fmt.Sprintf("*%d~\n", s)...)
		sb = append(sb, fmt.Sprintf("ITM*s%d:x%d~\n", s, s)...)
	}
	return string(sb)
}

const miniCSVSkip = `{
 "parser_settings": {"version": "omni.2.1", "file_format_type": "csv"},
 "file_declaration": {"delimiter": "|", "replace_double_quotes": true, "header_row_index": 3, "data_row_index": 6,
   "columns": [{"name": "id"}, {"name": "name", "alias": "nm"}]},
 "transform_declarations": {"FINAL_OUTPUT": {"object": {"id": {"xpath": "id"}, "name": {"xpath": "nm"}}}}
}`
const miniCSVSkipInput = "junk line 1\njunk, \"line\" 2\nid|name\nnote a\nnote b\n1|alpha\n2|\"beta\n3|gamma\n"

func genCSVRDQ(rows int) string {
	var sb []byte
	sb = append(sb, "junk 1\njunk \"2\"\nid|name\nnote a\nnote b\n"...)
	for i := 0; i < rows; i++ {
		sb = append(sb, fmt.Sprintf("%d|na\"me %d\n", i, i*7)...)
	}
	return string(sb)
}

func generatedSamples() []Sample {
	return []Sample{
		{"gen/csv-replace-double-quotes-long", "csv", []byte(miniCSVSkip), []byte(genCSVRDQ(60))},
		{"gen/csv-skip-rows", "csv", []byte(miniCSVSkip), []byte(miniCSVSkipInput)},
		{"gen/fixedlength2-rows", "fixedlength2", []byte(genFixed2Rows), []byte(genLines([]string{"H", "D", "F"}, 9, 600))},
		{"gen/fixedlength2-headerfooter", "fixedlength2", []byte(genFixed2HF), []byte(genLines([]string{"H", "D", "F"}, 9, 600))},
		{"gen/fixedlength-rows", "fixedlength", []byte(genFixedLegacyRows), []byte(genLines([]string{"H", "D", "F"}, 9, 600))},
		{"gen/csv2-rows", "csv2", []byte(genCSV2Rows), []byte(genCSVLines(8, 500))},
		{"gen/edi-long", "edi", []byte(miniEDI), []byte(genEDILong(12, 90))},
	}
}
