package main

// Compact, harness-owned schemas: one per built-in format, multi-record inputs, every record
// addressed only through its own data, one numeric cast so that a record can fail on its own.

const miniCSV = `{
 "parser_settings": {"version": "omni.2.1", "file_format_type": "csv"},
 "file_declaration": {"delimiter": ",", "header_row_index": 1, "data_row_index": 2,
   "columns": [{"name": "id"}, {"name": "name"}, {"name": "qty"}]},
 "transform_declarations": {"FINAL_OUTPUT": {"object": {
   "id": {"xpath": "id"}, "name": {"xpath": "name", "no_trim": true}, "qty": {"xpath": "qty", "type": "int"}}}}
}`
const miniCSVInput = "id,name,qty\n1,alpha,10\n2,\"be,ta\",20\n3,\"gam\"\"ma\",x\n\n4,delta,40\n5,\"multi\nline\",50\n"

const miniCSV2 = `{
 "parser_settings": {"version": "omni.2.1", "file_format_type": "csv2"},
 "file_declaration": {"delimiter": ",", "records": [
   {"name": "H", "header": "^H,", "is_target": true,
    "columns": [{"name": "id", "index": 2}, {"name": "qty", "index": 3}],
    "child_records": [{"name": "D", "header": "^D,", "min": 0, "columns": [{"name": "item", "index": 2}]}]}]},
 "transform_declarations": {"FINAL_OUTPUT": {"object": {
   "id": {"xpath": "id"}, "qty": {"xpath": "qty", "type": "int"},
   "items": {"array": [{"xpath": "D/item"}]}}}}
}`
const miniCSV2Input = "H,a,1\nD,x\nD,\"y,z\"\nH,b,2\n\nH,c,bad\nD,w\nH,d,4\nD,\"q\"\"r\"\n"

const miniFixed = `{
 "parser_settings": {"version": "omni.2.1", "file_format_type": "fixed-length"},
 "file_declaration": {"envelopes": [{"by_rows": 2, "columns": [
   {"name": "id", "start_pos": 1, "length": 3, "line_pattern": "^A"},
   {"name": "qty", "start_pos": 2, "length": 4, "line_pattern": "^B"}]}]},
 "transform_declarations": {"FINAL_OUTPUT": {"object": {
   "id": {"xpath": "id"}, "qty": {"xpath": "qty", "type": "int"}}}}
}`
const miniFixedInput = "A01 first\nB0010\nA02 second\nB0020\n\nA03 third\nBxx30\nA04 fourth\nB0040\n"

const miniFixed2 = `{
 "parser_settings": {"version": "omni.2.1", "file_format_type": "fixedlength2"},
 "file_declaration": {"envelopes": [
   {"name": "H", "header": "^H", "is_target": true,
    "columns": [{"name": "id", "start_pos": 2, "length": 3}, {"name": "qty", "start_pos": 5, "length": 4}],
    "child_envelopes": [{"name": "D", "header": "^D", "columns": [{"name": "item", "start_pos": 2, "length": 5}]}]}]},
 "transform_declarations": {"FINAL_OUTPUT": {"object": {
   "id": {"xpath": "id"}, "qty": {"xpath": "qty", "type": "int"},
   "items": {"array": [{"xpath": "D/item"}]}}}}
}`
const miniFixed2Input = "H0010010\nDitem1\nDitem2\nH0020020\n\nH003 bad\nDitem3\nH0040040\n"

const miniEDI = `{
 "parser_settings": {"version": "omni.2.1", "file_format_type": "edi"},
 "file_declaration": {"segment_delimiter": "~", "element_delimiter": "*", "component_delimiter": ":", "release_character": "?",
   "ignore_crlf": true,
   "segment_declarations": [
   {"name": "HDR", "min": 0, "max": -1, "is_target": true,
    "elements": [{"name": "id", "index": 1}, {"name": "qty", "index": 2, "default": "0"}],
    "child_segments": [{"name": "ITM", "min": 0, "max": -1,
       "elements": [{"name": "sku", "index": 1, "component_index": 1}, {"name": "sub", "index": 1, "component_index": 2, "default": ""}]}]}]},
 "transform_declarations": {"FINAL_OUTPUT": {"object": {
   "id": {"xpath": "id"}, "qty": {"xpath": "qty", "type": "int"},
   "items": {"array": [{"xpath": "ITM", "object": {"sku": {"xpath": "sku"}, "sub": {"xpath": "sub"}}}]}}}}
}`
const miniEDIInput = "HDR*a*1~\nITM*s1:x~\nITM*s?*2~\nHDR*b*2~\nHDR*c*bad~\nITM*s3~\nHDR*d~\n"

const miniJSON = `{
 "parser_settings": {"version": "omni.2.1", "file_format_type": "json"},
 "transform_declarations": {"FINAL_OUTPUT": {"xpath": "/*", "object": {
   "id": {"xpath": "id"}, "qty": {"xpath": "qty", "type": "int"},
   "tags": {"array": [{"xpath": "tags/*"}]}}}}
}`
const miniJSONInput = `[{"id": "a", "qty": 1, "tags": ["x", "y"]}, {"id": "b", "qty": 2, "tags": []},
 {"id": "c", "qty": "bad"}, {"id": "d", "qty": 4, "tags": ["é", "中"]}]`

const miniXML = `{
 "parser_settings": {"version": "omni.2.1", "file_format_type": "xml"},
 "transform_declarations": {"FINAL_OUTPUT": {"xpath": "/root/rec", "object": {
   "id": {"xpath": "@id"}, "qty": {"xpath": "qty", "type": "int"},
   "tags": {"array": [{"xpath": "tag"}]}}}}
}`
const miniXMLInput = `<?xml version="1.0"?><root><rec id="a"><qty>1</qty><tag>x</tag><tag>y</tag></rec><rec id="b"><qty>2</qty></rec><rec id="c"><qty>bad</qty></rec><rec id="d"><qty>4</qty><tag>&amp;é</tag></rec></root>`

func miniSamples() []Sample {
	return []Sample{
		{"mini/csv", "csv", []byte(miniCSV), []byte(miniCSVInput)},
		{"mini/csv2", "csv2", []byte(miniCSV2), []byte(miniCSV2Input)},
		{"mini/fixedlength", "fixedlength", []byte(miniFixed), []byte(miniFixedInput)},
		{"mini/fixedlength2", "fixedlength2", []byte(miniFixed2), []byte(miniFixed2Input)},
		{"mini/edi", "edi", []byte(miniEDI), []byte(miniEDIInput)},
		{"mini/json", "json", []byte(miniJSON), []byte(miniJSONInput)},
		{"mini/xml", "xml", []byte(miniXML), []byte(miniXMLInput)},
	}
}
