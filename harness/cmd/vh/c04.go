package main

import (
	"encoding/json"
	"fmt"
	"io"
	"sort"
	"strings"

	"github.com/jf-tech/omniparser/idr"
)

// ---- abstract documents / xpaths as emitted by MC_StreamSelect

type sdoc struct {
	N    int      `json:"n"`
	Par  []int    `json:"par"`
	Kind []string `json:"kind"`
	Nm   []string `json:"nm"`
	At   []string `json:"at"`
}
type sstep struct {
	Axis string `json:"axis"`
	Test string `json:"test"`
}
type sxpath struct {
	Steps []sstep `json:"steps"`
	Pk    string  `json:"pk"`
	Pn    string  `json:"pn"`
	Pv    string  `json:"pv"`
	Pre   string  `json:"pre"` // "attr": [@k='1'] in front of the last predicate
}
type c04Case struct {
	D   sdoc   `json:"d"`
	X   sxpath `json:"x"`
	Out []int  `json:"out"`
	Sel []int  `json:"sel"`
	Nt  bool   `json:"nt"`
}

func (d *sdoc) kids(p int) []int {
	var out []int
	for i := 1; i <= d.N; i++ {
		if d.Par[i-1] == p {
			out = append(out, i)
		}
	}
	return out
}

var richDocs = false // set by the replayer for the "rich values" rendering

// nsMap: set by the replayer for the namespace renderings - the abstract names (elements a, b, c and the attribute k)
// are rendered as qualified names; two abstract names may share the local name and differ only in the prefix.  The
// specification's names are opaque, so a qualified name is just another name.  URIs: prefix p -> urn:p.
var nsMap map[string]string

func qn(name string) string {
	if v, ok := nsMap[name]; ok {
		return v
	}
	return name
}

// nsRebind: set by the replayer for the fifth rendering - every other element below the root binds the prefixes again,
// to URIs of its own; the qualified names (what xpaths see) stay what they are, what is in scope changes from element
// to element
var nsRebind = false

func nsRebinds(i int) string {
	out := ""
	for _, d := range strings.Fields(nsDecls()) {
		out += " " + strings.Replace(d, `"urn:`, `"urn:`+fmt.Sprint(i)+"-", 1)
	}
	return out
}

// nsDecls: xmlns declarations for every prefix the current nsMap uses (put on the root element)
func nsDecls() string {
	seen := map[string]bool{}
	var keys []string
	for _, v := range nsMap {
		if i := strings.Index(v, ":"); i > 0 && !seen[v[:i]] {
			seen[v[:i]] = true
			keys = append(keys, v[:i])
		}
	}
	sort.Strings(keys)
	out := ""
	for _, k := range keys {
		out += ` xmlns:` + k + `="urn:` + k + `"`
	}
	return out
}

// qnOf: the qualified name of a real node
func qnOf(n *idr.Node) string {
	if idr.IsXML(n) {
		if p := idr.XMLSpecificOf(n).NamespacePrefix; p != "" {
			return p + ":" + n.Data
		}
	}
	return n.Data
}

func xmlEsc(s string) string {
	return strings.NewReplacer("&", "&amp;", "<", "&lt;", `"`, "&quot;").Replace(s)
}

func (d *sdoc) xml(i int, sb *strings.Builder) {
	if d.Kind[i-1] == "T" {
		sb.WriteString(xmlEsc(valOf(d.Nm[i-1], richDocs)))
		return
	}
	sb.WriteString("<" + qn(d.Nm[i-1]))
	if d.Par[i-1] == 0 {
		sb.WriteString(nsDecls())
	} else if nsRebind && i%2 == 0 {
		sb.WriteString(nsRebinds(i))
	}
	if d.At[i-1] != "" {
		sb.WriteString(` ` + qn("k") + `="` + xmlEsc(valOf(d.At[i-1], richDocs)) + `"`)
	}
	ks := d.kids(i)
	if len(ks) == 0 {
		sb.WriteString("/>")
		return
	}
	sb.WriteString(">")
	for _, k := range ks {
		d.xml(k, sb)
	}
	sb.WriteString("</" + qn(d.Nm[i-1]) + ">")
}

func (d *sdoc) renderXML() string {
	var sb strings.Builder
	for _, k := range d.kids(0) {
		d.xml(k, &sb)
	}
	return sb.String()
}

// enc: canonical pre-order encoding of the subtree of abstract node i: "E:name[@k=v]" / "T:text" with depth
func (d *sdoc) enc(i, depth int, out *[]string) {
	if d.Kind[i-1] == "T" {
		*out = append(*out, fmt.Sprintf("%d T %s", depth, valOf(d.Nm[i-1], richDocs)))
		return
	}
	a := ""
	if d.At[i-1] != "" {
		a = " @" + qn("k") + "=" + valOf(d.At[i-1], richDocs)
	}
	*out = append(*out, fmt.Sprintf("%d E %s%s", depth, qn(d.Nm[i-1]), a))
	for _, k := range d.kids(i) {
		d.enc(k, depth+1, out)
	}
}

func encNode(n *idr.Node, depth int, out *[]string) {
	switch n.Type {
	case idr.TextNode:
		*out = append(*out, fmt.Sprintf("%d T %s", depth, n.Data))
	case idr.ElementNode:
		a := ""
		for c := n.FirstChild; c != nil; c = c.NextSibling {
			if c.Type == idr.AttributeNode && !strings.HasPrefix(qnOf(c), "xmlns:") { // namespace declarations are not data
				a += " @" + qnOf(c) + "=" + c.InnerText()
			}
		}
		*out = append(*out, fmt.Sprintf("%d E %s%s", depth, qnOf(n), a))
		for c := n.FirstChild; c != nil; c = c.NextSibling {
			if c.Type != idr.AttributeNode {
				encNode(c, depth+1, out)
			}
		}
	}
}

// jsonOK: representable as a JSON document (objects with unique keys, scalar strings, no attributes, no mixed content)
func (d *sdoc) jsonOK(i int) bool {
	ks := d.kids(i)
	names := map[string]bool{}
	for _, k := range ks {
		if d.Kind[k-1] == "T" {
			if len(ks) != 1 || i == 0 {
				return false
			}
			continue
		}
		if d.At[k-1] != "" || names[d.Nm[k-1]] || !d.jsonOK(k) {
			return false
		}
		names[d.Nm[k-1]] = true
	}
	return true
}

func (d *sdoc) jsonVal(i int, sb *strings.Builder) {
	ks := d.kids(i)
	if len(ks) == 1 && d.Kind[ks[0]-1] == "T" {
		b, _ := json.Marshal(valOf(d.Nm[ks[0]-1], richDocs))
		sb.Write(b)
		return
	}
	sb.WriteString("{")
	for n, k := range ks {
		if n > 0 {
			sb.WriteString(",")
		}
		b, _ := json.Marshal(d.Nm[k-1])
		sb.Write(b)
		sb.WriteString(":")
		d.jsonVal(k, sb)
	}
	sb.WriteString("}")
}

func (d *sdoc) renderJSON() string {
	var sb strings.Builder
	d.jsonVal(0, &sb)
	return sb.String()
}

// rich renderings of the abstract text / attribute values: variant 1 puts quote characters into the values, so that the
// xpath literals have to be written with the other quote character
var richVal = map[string]string{"1": "o'b", "2": `q"t`, "x": "x y"}

func valOf(v string, rich bool) string {
	if rich {
		if r, ok := richVal[v]; ok {
			return r
		}
	}
	return v
}

func xpathLit(v string) string {
	if strings.Contains(v, "'") {
		return `"` + v + `"`
	}
	return "'" + v + "'"
}

func (x *sxpath) render() string { return x.renderV(false) }

func (x *sxpath) renderV(rich bool) string {
	var sb strings.Builder
	for _, s := range x.Steps {
		if s.Axis == "child" {
			sb.WriteString("/" + qn(s.Test))
		} else {
			sb.WriteString("//" + qn(s.Test))
		}
	}
	if x.Pre == "attr" {
		sb.WriteString("[@" + qn("k") + "=" + xpathLit(valOf("1", rich)) + "]")
	}
	switch x.Pk {
	case "child=":
		sb.WriteString("[" + qn(x.Pn) + "=" + xpathLit(valOf(x.Pv, rich)) + "]")
	case "self=":
		sb.WriteString("[.=" + xpathLit(valOf(x.Pv, rich)) + "]")
	case "attr=":
		sb.WriteString("[@" + qn("k") + "=" + xpathLit(valOf(x.Pv, rich)) + "]")
	case "child":
		sb.WriteString("[" + qn(x.Pn) + "]")
	case "nochild":
		sb.WriteString("[not(" + qn(x.Pn) + ")]")
	}
	return sb.String()
}

type streamReader interface {
	Read() (*idr.Node, error)
	Release(*idr.Node)
}

// streamAll runs a streaming reader to the end and returns the encodings of the delivered subtrees.
func streamAll(sr streamReader, limit int) (out [][]string, err error) {
	for i := 0; i < limit; i++ {
		n, e := sr.Read()
		if e == io.EOF {
			return out, nil
		}
		if e != nil {
			return out, e
		}
		var enc []string
		encNode(n, 0, &enc)
		out = append(out, enc)
		sr.Release(n)
	}
	return out, fmt.Errorf("no end after %d reads", limit)
}

// loadWhole loads the complete document into an IDR tree (xpath "." streams the document node itself... so use "/*"
// on a reader without releasing): the engine's whole-document selection binds the specification's xpath-lite.
func wholeDocSelect(xmlText, xp string) ([][]string, error) {
	sr, err := idr.NewXMLStreamReader(strings.NewReader(xmlText), "/*")
	if err != nil {
		return nil, err
	}
	root, err := sr.Read()
	if err != nil {
		return nil, err
	}
	doc := root.Parent
	ns, err := idr.MatchAll(doc, xp)
	if err != nil {
		return nil, err
	}
	var out [][]string
	seen := map[*idr.Node]bool{}
	for _, n := range ns {
		if seen[n] { // the engine may list a node twice (e.g. //a//a); selection is a set
			continue
		}
		seen[n] = true
		var enc []string
		encNode(n, 0, &enc)
		out = append(out, enc)
	}
	return out, nil
}

func sortedEnc(a [][]string) [][]string {
	out := append([][]string(nil), a...)
	sort.Slice(out, func(i, j int) bool { return strings.Join(out[i], "\x00") < strings.Join(out[j], "\x00") })
	return out
}

func sameEnc(a, b [][]string) bool {
	x, _ := json.Marshal(a)
	y, _ := json.Marshal(b)
	if len(a) == 0 && len(b) == 0 {
		return true
	}
	return string(x) == string(y)
}

func c04Replay(args []string) int {
	sum := newSummary()
	specMismatch, nviol := 0, 0
	err := readLines(args[0], func(line []byte) error {
		var c c04Case
		if e := json.Unmarshal(line, &c); e != nil {
			return e
		}
		for vi, rich := range []bool{false, true, false, false, false} {
			richDocs = rich
			// renderings 3 and 4: qualified names - b shares a's local name under another prefix; everything prefixed;
			// rendering 5: the same with prefixes bound again on inner elements
			nsMap = []map[string]string{nil, nil, {"b": "p:a"}, {"a": "p:a", "b": "q:a", "k": "q:k"}, {"a": "p:a", "b": "q:a", "k": "q:k"}}[vi]
			nsRebind = vi == 4
			xmlText, xp := c.D.renderXML(), c.X.renderV(rich)
			var exp, expSel [][]string
			for _, i := range c.Out {
				var enc []string
				c.D.enc(i, 0, &enc)
				exp = append(exp, enc)
			}
			for _, i := range c.Sel {
				var enc []string
				c.D.enc(i, 0, &enc)
				expSel = append(expSel, enc)
			}
			// binding of xpath-lite: the real engine on the fully loaded document must select what the spec selects
			whole, e := wholeDocSelect(xmlText, xp)
			// a selection is a set: the engine lists the matches of `//b/*` context by context, not in document order
			if e != nil || !sameEnc(sortedEnc(whole), sortedEnc(expSel)) {
				specMismatch++
				if specMismatch < 5 {
					emit(M{"kind": "spec_mismatch", "xml": xmlText, "xpath": xp, "spec": expSel, "engine": whole, "err": fmt.Sprint(e)})
				}
				continue
			}
			texts := map[string]string{"xml": xmlText}
			if c.D.jsonOK(0) && nsMap == nil { // JSON has no namespaces
				texts["json"] = c.D.renderJSON()
			}
			for _, format := range []string{"xml", "json"} {
				text, ok := texts[format]
				if !ok {
					continue
				}
				var got [][]string
				var rerr error
				pv, _ := guarded(0, func() {
					var sr streamReader
					var e error
					sxp := xp
					if rich {
						sxp = " " + xp + " \n" // the readers trim the target xpath
					}
					// the target xpath is evaluated from the document node: a relative path says the same as the absolute one
					if vi == 0 && len(c.X.Steps) > 0 && c.X.Steps[0].Axis == "child" && strings.HasPrefix(xp, "/") {
						switch (len(text) + len(xp)) % 3 {
						case 1:
							sxp = xp[1:]
						case 2:
							sxp = "." + xp
						}
					}
					if format == "xml" {
						sr, e = idr.NewXMLStreamReader(strings.NewReader(text), sxp)
					} else {
						sr, e = idr.NewJSONStreamReader(strings.NewReader(text), sxp)
					}
					if e != nil {
						rerr = e
						return
					}
					got, rerr = streamAll(sr, 4*c.D.N+4)
				})
				sum.eval(c.Nt, M{"x": text, "p": xp})
				if pv != "" || rerr != nil || !sameEnc(got, exp) {
					nviol++
					if nviol <= 50 {
						violation("C04", format+"-stream-mismatch", fmt.Sprintf("%s %q xpath %q: expected %v, streamed %v %v %s", format, text, xp, exp, got, rerr, pv),
							M{"format": format, "doc": text, "xpath": xp, "expected": exp, "actual": got, "whole_document_selection": whole, "case": c})
					}
				}
			}
			sum.sample(M{"xml": xmlText, "xpath": xp, "expected": exp})
		}
		richDocs, nsMap, nsRebind = false, nil, false
		return nil
	})
	if err != nil {
		fmt.Println("error:", err)
		return 3
	}
	sum.inc("spec_mismatch", specMismatch)
	sum.inc("mismatches", nviol)
	sum.done()
	return 0
}

func init() {
	cmds["c04-replay"] = c04Replay
}

// ---- B2: random larger documents; the delivered subtrees are logged as encodings and TLC evaluates the
// reference selection (and the reader model) on the logged abstract document (Trace_StreamSelect.tla).

func genDoc(r interface{ Intn(int) int }, n int, jsonish bool) sdoc {
	d := sdoc{}
	names := []string{"a", "b", "c"}
	texts := []string{"1", "2", "x"}
	add := func(par int, kind, nm, at string) int {
		d.N++
		d.Par = append(d.Par, par)
		d.Kind = append(d.Kind, kind)
		d.Nm = append(d.Nm, nm)
		d.At = append(d.At, at)
		return d.N
	}
	var grow func(p, depth int)
	grow = func(p, depth int) {
		nk := r.Intn(4)
		if depth == 0 {
			nk = 1 + r.Intn(3)
		}
		if jsonish && nk == 1 && r.Intn(2) == 0 && p != 0 {
			add(p, "T", texts[r.Intn(3)], "")
			return
		}
		used := map[string]bool{}
		lastText := false
		for k := 0; k < nk && d.N < n; k++ {
			if !jsonish && !lastText && r.Intn(4) == 0 {
				add(p, "T", texts[r.Intn(3)], "")
				lastText = true
				continue
			}
			nm := names[r.Intn(3)]
			if jsonish {
				if used[nm] {
					continue
				}
				used[nm] = true
			}
			at := ""
			if !jsonish && r.Intn(3) == 0 {
				at = []string{"1", "2"}[r.Intn(2)]
			}
			e := add(p, "E", nm, at)
			lastText = false
			if depth < 5 {
				grow(e, depth+1)
			}
		}
	}
	root := add(0, "E", names[r.Intn(3)], "")
	grow(root, 0)
	return d
}

func genXPath(r interface{ Intn(int) int }) sxpath {
	x := sxpath{}
	tests := []string{"a", "b", "c", "*"}
	for k := 1 + r.Intn(3); k > 0; k-- {
		ax := "child"
		if r.Intn(3) == 0 {
			ax = "desc"
		}
		x.Steps = append(x.Steps, sstep{ax, tests[r.Intn(4)]})
	}
	switch r.Intn(6) {
	case 0:
		x.Pk = "none"
	case 1:
		x.Pk, x.Pn, x.Pv = "child=", tests[r.Intn(3)], []string{"1", "2"}[r.Intn(2)]
	case 2:
		x.Pk, x.Pv = "self=", []string{"1", "2", "x"}[r.Intn(3)]
	case 3:
		x.Pk, x.Pv = "attr=", []string{"1", "2"}[r.Intn(2)]
	case 4:
		x.Pk, x.Pn = "child", tests[r.Intn(3)]
	default:
		x.Pk = "none"
	}
	if x.Pk != "none" && r.Intn(4) == 0 {
		x.Pre = "attr"
	}
	return x
}

func c04Drive(args []string) int {
	outPath := args[0]
	ncases, maxN := 300, 30
	if len(args) > 1 {
		fmt.Sscanf(args[1], "%d", &ncases)
	}
	if len(args) > 2 {
		fmt.Sscanf(args[2], "%d", &maxN)
	}
	r := rng(404)
	sum := newSummary()
	var events []interface{}
	for ci := 0; ci < ncases; ci++ {
		jsonish := r.Intn(3) == 0
		d := genDoc(r, 4+r.Intn(maxN), jsonish)
		for xi := 0; xi < 4; xi++ {
			x := genXPath(r)
			xp := x.render()
			encs := make([][]string, d.N)
			for i := 1; i <= d.N; i++ {
				var e []string
				d.enc(i, 0, &e)
				encs[i-1] = e
			}
			texts := map[string]string{"xml": d.renderXML()}
			if d.jsonOK(0) {
				texts["json"] = d.renderJSON()
			}
			for format, text := range texts {
				var got [][]string
				var rerr error
				pv, _ := guarded(0, func() {
					var sr streamReader
					var e error
					if format == "xml" {
						sr, e = idr.NewXMLStreamReader(strings.NewReader(text), xp)
					} else {
						sr, e = idr.NewJSONStreamReader(strings.NewReader(text), xp)
					}
					if e != nil {
						rerr = e
						return
					}
					got, rerr = streamAll(sr, 4*d.N+4)
				})
				if pv != "" || rerr != nil {
					violation("C04", format+"-stream-error", fmt.Sprintf("%s %q xpath %q: %v %s", format, text, xp, rerr, pv),
						M{"format": format, "doc": text, "xpath": xp})
					continue
				}
				if got == nil {
					got = [][]string{}
				}
				events = append(events, M{"tr": len(events) + 1, "format": format, "d": d, "x": x, "delivered": got, "encs": encs, "doc": text, "xpath": xp})
				sum.Traces++
				sum.eval(len(got) >= 1 && d.N >= 6, M{"t": text, "p": xp})
			}
			if ci == 0 && xi == 0 {
				sum.sample(M{"doc": texts["xml"], "xpath": xp})
			}
		}
	}
	mustWriteNDJSON(outPath, events)
	sum.done()
	return 0
}

func init() {
	cmds["c04-drive"] = c04Drive
}

// ---- removeLastFilterInXPath against XPathSplit.tla (through the verif accessor)

func c04Split(args []string) int {
	sum := newSummary()
	nviol := 0
	err := readLines(args[0], func(line []byte) error {
		var c struct {
			S   []string `json:"s"`
			Out []string `json:"out"`
			Wf  bool     `json:"wf"`
		}
		if e := json.Unmarshal(line, &c); e != nil {
			return e
		}
		// two renderings of the "other character" class: ASCII and a multi-byte rune
		for vi, other := range []string{"a", "é"} {
			r := strings.NewReplacer("a", other)
			in, exp := r.Replace(strings.Join(c.S, "")), r.Replace(strings.Join(c.Out, ""))
			var got string
			pv, _ := guarded(0, func() { got = idr.VerifRemoveLastFilter(in) })
			sum.eval(c.Wf && strings.Contains(in, "]"), M{"s": in, "v": vi})
			if pv != "" || got != exp {
				nviol++
				if nviol <= 20 {
					key := "split-filter"
					if !c.Wf {
						key = "split-filter-illformed"
					}
					violation("C04", key, fmt.Sprintf("removeLastFilterInXPath(%q) = %q, specified %q %s", in, got, exp, pv), M{"xpath": in, "got": got, "expected": exp, "wellformed": c.Wf})
				}
			}
		}
		return nil
	})
	if err != nil {
		fmt.Println("error:", err)
		return 3
	}
	sum.inc("mismatches", nviol)
	sum.done()
	return 0
}

func init() { cmds["c04-split"] = c04Split }
