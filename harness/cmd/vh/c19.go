package main

import (
	"encoding/json"
	"fmt"
	"strconv"
	"strings"
	"time"

	"github.com/jf-tech/omniparser/customfuncs"
)

type dtRow struct {
	Row struct {
		InHasTZ   bool `json:"inHasTZ"`
		Layout    bool `json:"layout"`
		FromGiven bool `json:"fromGiven"`
		ToGiven   bool `json:"toGiven"`
	} `json:"row"`
	Mode string `json:"mode"`
}

var dtZones = []string{"MST", "EST", "HST", "CET", "EET", "WET", "MET", "PST8PDT", "CST6CDT", "EST5EDT", "MST7MDT", "Etc/GMT+7", "Etc/GMT-14", "GMT", "Zulu", "UTC", "America/New_York", "America/Los_Angeles", "America/St_Johns", "America/Sao_Paulo", "Europe/London", "Europe/Berlin",
	"Europe/Moscow", "Africa/Cairo", "Africa/Johannesburg", "Asia/Kolkata", "Asia/Kathmandu", "Asia/Tokyo", "Asia/Shanghai", "Asia/Tehran",
	"Australia/Sydney", "Australia/Lord_Howe", "Australia/Adelaide", "Pacific/Auckland", "Pacific/Chatham", "Pacific/Kiritimati", "Pacific/Honolulu",
	"Etc/GMT+12", "Etc/GMT-14", "Atlantic/Azores", "America/Anchorage", "America/Mexico_City", "Asia/Dubai", "Asia/Karachi", "Asia/Dhaka",
	"Asia/Yangon", "Asia/Seoul", "Europe/Lisbon", "Europe/Istanbul", "America/Caracas", "America/Halifax", "Pacific/Apia", "Indian/Maldives"}

type civil struct{ Y, M, D, H, Mi, S int }

func (c civil) arr() []int { return []int{c.Y, c.M, c.D, c.H, c.Mi, c.S} }

func civilOf(t time.Time) civil {
	return civil{t.Year(), int(t.Month()), t.Day(), t.Hour(), t.Minute(), t.Second()}
}

// parse an RFC3339 (or no-zone) output into civil fields and offset
func parseOut(s string) (c civil, hasTZ bool, off int, err error) {
	if t, e := time.Parse(time.RFC3339, s); e == nil {
		_, o := t.Zone()
		return civilOf(t), true, o, nil
	}
	t, e := time.Parse("2006-01-02T15:04:05", s)
	if e != nil {
		return civil{}, false, 0, e
	}
	return civilOf(t), false, 0, nil
}

func floorDiv(a, b int64) (q, r int64) {
	q = a / b
	r = a % b
	if r < 0 {
		q--
		r += b
	}
	return
}

func dtGrid(r interface{ Intn(int) int }, n int) []civil {
	years := []int{1, 2, 100, 999, 1000, 1582, 1677, 1678, 1883, 1900, 1969, 1970, 1999, 2000, 2021, 2024, 2037, 2038, 2039, 2100, 2262, 2263, 5000, 9998, 9999}
	var out []civil
	for _, y := range years {
		out = append(out, civil{y, 1, 1, 0, 0, 0}, civil{y, 12, 31, 23, 59, 59}, civil{y, 6, 15, 12, 34, 56})
		if y%4 == 0 && (y%100 != 0 || y%400 == 0) {
			out = append(out, civil{y, 2, 29, 1, 2, 3})
		}
	}
	// around DST transitions of the current rules
	out = append(out, civil{2021, 3, 14, 2, 30, 0}, civil{2021, 3, 14, 1, 59, 59}, civil{2021, 11, 7, 1, 30, 0}, civil{2021, 3, 28, 1, 30, 0}, civil{2021, 10, 31, 1, 30, 0},
		civil{2021, 4, 4, 2, 30, 0}, civil{2021, 10, 3, 2, 30, 0})
	for i := 0; i < n; i++ {
		y := 1 + r.Intn(9999)
		out = append(out, civil{y, 1 + r.Intn(12), 1 + r.Intn(28), r.Intn(24), r.Intn(60), r.Intn(60)})
	}
	return out
}

// text renderings the smart parser advertises
var dtDateFmts = []string{"2006-01-02", "01-02-2006", "2006/01/02", "01/02/2006", "20060102"}
var dtTimeFmts = []string{"15:04:05", "15:04:05.000", "15:04:05.000000000", "150405", "03:04:05 PM", "03:04:05PM"}
var dtDelims = []string{"T", " "}

func offsetSuffix(off int, form int) string {
	if off == 0 && form == 0 {
		return "Z"
	}
	sign := "+"
	o := off
	if o < 0 {
		sign, o = "-", -o
	}
	h, m := o/3600, (o%3600)/60
	switch form % 3 {
	case 0:
		return fmt.Sprintf("%s%02d:%02d", sign, h, m)
	case 1:
		return fmt.Sprintf("%s%02d%02d", sign, h, m)
	default:
		if m == 0 {
			return fmt.Sprintf("%s%02d", sign, h)
		}
		return fmt.Sprintf("%s%02d:%02d", sign, h, m)
	}
}

// c19-drive <rows.ndjson> <out.ndjson> <nrandom>
func c19Drive(args []string) int {
	var rows []dtRow
	if err := readLines(args[0], func(line []byte) error {
		var r dtRow
		if e := json.Unmarshal(line, &r); e != nil {
			return e
		}
		rows = append(rows, r)
		return nil
	}); err != nil || len(rows) == 0 {
		fmt.Println("error: no decision-table rows", err)
		return 3
	}
	nrandom := 150
	if len(args) > 2 {
		fmt.Sscanf(args[2], "%d", &nrandom)
	}
	r := rng(1919)
	sum := newSummary()
	var events []interface{}
	add := func(e M) {
		e["tr"] = len(events) + 1
		events = append(events, e)
	}
	rowHits := map[string]int{}
	wholeMinute := func(loc *time.Location, t time.Time) bool { _, o := t.In(loc).Zone(); return o%60 == 0 }
	grid := dtGrid(r, nrandom)
	// wall-clock readings around every offset change (DST, standard-time changes) of every zone in three years: the
	// reading is bound to that zone (as the text's zone and as fromTZ), where "which offset applies" is decided within hours
	zoneOf := map[int]string{}
	for _, zn := range dtZones {
		loc, _ := time.LoadLocation(zn)
		for _, year := range []int{1975, 2011, 2021} {
			t := time.Date(year, 1, 1, 0, 0, 0, 0, time.UTC)
			for k := 0; k < 4; k++ {
				_, end := t.In(loc).ZoneBounds()
				if end.IsZero() || end.Year() != year {
					break
				}
				_, off := end.In(loc).Zone()
				local := end.UTC().Add(time.Duration(off) * time.Second) // the wall reading at which the new offset starts
				for _, dm := range []int{-14 * 60, -9 * 60, -5 * 60, -210, -121, -90, -45, -1, 0, 30, 61, 119, 181, 240, 5 * 60, 9 * 60, 13 * 60} {
					w := local.Add(time.Duration(dm) * time.Minute)
					zoneOf[len(grid)] = zn
					grid = append(grid, civil{w.Year(), int(w.Month()), w.Day(), w.Hour(), w.Minute(), w.Second()})
				}
				t = end.Add(time.Hour)
			}
		}
	}
	for gi, c := range grid {
		for _, row := range rows {
			// concretise the row
			inZone, fromZone, toZone := dtZones[r.Intn(len(dtZones))], dtZones[r.Intn(len(dtZones))], dtZones[r.Intn(len(dtZones))]
			if zn, ok := zoneOf[gi]; ok {
				inZone, fromZone = zn, zn
				if r.Intn(2) == 0 {
					toZone = zn
				}
			}
			inLoc, _ := time.LoadLocation(inZone)
			fromLoc, _ := time.LoadLocation(fromZone)
			toLoc, _ := time.LoadLocation(toZone)
			wallIn := time.Date(c.Y, time.Month(c.M), c.D, c.H, c.Mi, c.S, 0, inLoc)
			wallFrom := time.Date(c.Y, time.Month(c.M), c.D, c.H, c.Mi, c.S, 0, fromLoc)
			wallTo := time.Date(c.Y, time.Month(c.M), c.D, c.H, c.Mi, c.S, 0, toLoc)
			// time.Date normalises readings inside a DST gap; such a reading does not exist in that zone: skip the zone use
			if row.Row.InHasTZ && civilOf(wallIn) != c || row.Row.FromGiven && civilOf(wallFrom) != c || row.Row.ToGiven && civilOf(wallTo) != c {
				continue
			}
			_, inOff := wallIn.Zone()
			_, fromOff := wallFrom.Zone()
			_, toOffWall := wallTo.Zone()
			// RFC 3339 cannot carry second-granular offsets (local mean time before standard time): not generated
			// (only for the zones the row uses: a zone-less reading of the year 1 is as good as any)
			if row.Row.InHasTZ && inOff%60 != 0 || row.Row.FromGiven && fromOff%60 != 0 || row.Row.ToGiven && toOffWall%60 != 0 {
				continue
			}
			ms := 0
			tf := dtTimeFmts[r.Intn(len(dtTimeFmts))]
			df := dtDateFmts[r.Intn(len(dtDateFmts))]
			if c.Y < 1000 && df != "2006-01-02" && df != "2006/01/02" && df != "20060102" {
				df = "2006-01-02"
			}
			delim := dtDelims[r.Intn(2)]
			if df == "20060102" || strings.HasPrefix(tf, "1504") {
				delim = "T"
			}
			if strings.Contains(tf, ".000") {
				ms = r.Intn(1000)
			}
			base := time.Date(c.Y, time.Month(c.M), c.D, c.H, c.Mi, c.S, ms*1000000, time.UTC)
			text := base.Format(df + delim + tf)
			useIANA := false
			if row.Row.InHasTZ {
				if r.Intn(3) == 0 {
					text += "-" + inZone
					useIANA = true
				} else {
					suffix := offsetSuffix(inOff, r.Intn(3))
					if suffix != "Z" && r.Intn(2) == 0 {
						text += " " // " +hh:mm" / " -hh:mm" are advertised forms
					}
					text += suffix
				}
			}
			from, to := "", ""
			if row.Row.FromGiven {
				from = fromZone
			}
			if row.Row.ToGiven {
				to = toZone
			}
			// effective instant (for the tz database lookup of the to-zone's offset at the instant)
			effOff, effHas := 0, false
			if row.Row.InHasTZ {
				effOff, effHas = inOff, true
			} else if row.Row.FromGiven {
				effOff, effHas = fromOff, true
			}
			utc := time.Date(c.Y, time.Month(c.M), c.D, c.H, c.Mi, c.S, 0, time.UTC).Add(-time.Duration(effOff) * time.Second)
			_, toOffInst := utc.In(toLoc).Zone()
			if row.Row.ToGiven && effHas && toOffInst%60 != 0 {
				continue
			}
			if y := utc.In(toLoc).Year(); row.Row.ToGiven && (y < 1 || y > 9999) {
				continue // the rendering in the target zone leaves the years 1..9999
			}
			if y := utc.Year(); y < 1 || y > 9999 {
				continue
			}
			_ = wholeMinute
			var out string
			var err error
			layoutDesc := ""
			if row.Row.Layout {
				// dateTimeLayoutToRFC3339 with an explicit Go layout; IANA suffixes are a smart-parser notion: use offsets
				lay := "2006-01-02 15:04:05"
				ltext := base.Format(lay)
				ltz := "false"
				if row.Row.InHasTZ {
					lay += "Z07:00"
					ltext += offsetSuffix(inOff, 0)
					ltz = "true"
				}
				layoutDesc = lay
				text = ltext
				out, err = customfuncs.DateTimeLayoutToRFC3339(nil, ltext, lay, ltz, from, to)
			} else {
				out, err = customfuncs.DateTimeToRFC3339(nil, text, from, to)
			}
			desc := M{"text": text, "from": from, "to": to, "layout": layoutDesc, "iana": useIANA}
			_, nearChange := zoneOf[gi]
			nontrivial := c.Y < 1970 || c.Y > 2038 || effOff != 0 || nearChange
			sum.eval(nontrivial, desc)
			rowHits[fmt.Sprint(row.Row)]++
			if err != nil {
				violation("C19", "conversion-error", fmt.Sprintf("a supported date-time text was rejected: %q: %v", text, err), desc)
				continue
			}
			oc, ohas, ooff, perr := parseOut(out)
			if perr != nil {
				violation("C19", "output-not-rfc3339", fmt.Sprintf("output %q of %q is not RFC 3339", out, text), desc)
				continue
			}
			add(M{"ev": "conv", "in": c.arr(), "inHasTZ": row.Row.InHasTZ, "inOff": inOff, "fromGiven": row.Row.FromGiven, "fromOff": fromOff,
				"toGiven": row.Row.ToGiven, "toOffWall": toOffWall, "toOffInst": toOffInst, "out": oc.arr(), "outHasTZ": ohas, "outOff": ooff, "desc": desc, "result": out})
			if row.Row.Layout || row.Row.ToGiven {
				continue
			}
			// epoch in both units, and its inverse
			for _, unit := range []string{"SECOND", "MILLISECOND"} {
				es, err := customfuncs.DateTimeToEpoch(nil, text, from, unit)
				if err != nil {
					violation("C19", "epoch-error", fmt.Sprintf("dateTimeToEpoch(%q): %v", text, err), desc)
					continue
				}
				ev, perr := strconv.ParseInt(es, 10, 64)
				if perr != nil {
					violation("C19", "epoch-not-a-number", es, desc)
					continue
				}
				per := int64(86400)
				if unit == "MILLISECOND" {
					per *= 1000
				}
				day, rem := floorDiv(ev, per)
				add(M{"ev": "epoch", "in": c.arr(), "ms": ms, "inHasTZ": row.Row.InHasTZ, "inOff": inOff, "fromGiven": row.Row.FromGiven, "fromOff": fromOff,
					"unit": unit, "epochDay": day, "epochRem": rem, "desc": desc, "result": es})
				sum.eval(nontrivial, M{"e": text, "u": unit})
				// inverse, rendered in a third zone; the epoch fed back is the *specified* one (so that a wrong
				// dateTimeToEpoch does not mask epochToDateTimeRFC3339)
				tzName := dtZones[r.Intn(len(dtZones))]
				tzLoc, _ := time.LoadLocation(tzName)
				expUTC := utc.Add(time.Duration(ms) * time.Millisecond)
				_, tzOff := expUTC.In(tzLoc).Zone()
				if y := expUTC.In(tzLoc).Year(); tzOff%60 != 0 || y < 1 || y > 9999 {
					continue
				}
				d0 := expUTC.Sub(time.Date(1970, 1, 1, 0, 0, 0, 0, time.UTC))
				_ = d0
				expEpoch := dtEpochOf(expUTC, unit)
				back, err := customfuncs.EpochToDateTimeRFC3339(nil, strconv.FormatInt(expEpoch, 10), unit, tzName)
				if err != nil {
					violation("C19", "epoch-inverse-error", err.Error(), desc)
					continue
				}
				bc, _, boff, perr := parseOut(back)
				if perr != nil {
					violation("C19", "output-not-rfc3339", back, desc)
					continue
				}
				iday, irem := floorDiv(expEpoch, per)
				add(M{"ev": "inv", "unit": unit, "epochDay": iday, "epochRem": irem, "out": bc.arr(), "outOff": boff, "tzOff": tzOff, "tz": tzName, "epoch": strconv.FormatInt(expEpoch, 10), "result": back})
				sum.eval(nontrivial, M{"i": expEpoch, "u": unit, "z": tzName})
			}
		}
	}
	// one text under several parsing regimes in one process, in both orders: the smart parser (month first), explicit layouts
	// that read the same characters differently, layouts with and without a zone: every call answers for its own arguments
	{
		type call struct {
			desc string
			f    func() (string, error)
			want string // "" = must be an error
		}
		mk := func(text string) []call {
			return []call{
				{"smart parser", func() (string, error) { return customfuncs.DateTimeToRFC3339(nil, text, "", "") }, "2021-03-04T10:00:00"},
				{"layout 02/01/2006 15:04:05", func() (string, error) {
					return customfuncs.DateTimeLayoutToRFC3339(nil, text, "02/01/2006 15:04:05", "false", "", "")
				}, "2021-04-03T10:00:00"},
				{"layout 01/02/2006 15:04:05 from Asia/Tokyo", func() (string, error) {
					return customfuncs.DateTimeLayoutToRFC3339(nil, text, "01/02/2006 15:04:05", "false", "Asia/Tokyo", "")
				}, "2021-03-04T10:00:00+09:00"},
				{"layout 2006-01-02 (does not fit)", func() (string, error) {
					return customfuncs.DateTimeLayoutToRFC3339(nil, text, "2006-01-02", "false", "", "")
				}, ""},
				{"epoch, smart parser from UTC", func() (string, error) { return customfuncs.DateTimeToEpoch(nil, text, "UTC", "SECOND") }, "1614852000"},
			}
		}
		text := "03/04/2021 10:00:00"
		for _, order := range [][]int{{0, 1, 2, 3, 4}, {4, 3, 2, 1, 0}, {1, 0, 3, 2, 4}, {2, 4, 0, 1, 3}} {
			// every order on a text of its own (whatever an earlier call left behind for that text is met by the later ones)
			text = strings.Replace(text, "10:00:00", fmt.Sprintf("10:00:%02d", len(order)+order[0]+order[1]*5), 1)
			cs := mk(text)
			sec := text[len(text)-2:]
			for _, k := range order {
				c := cs[k]
				got, err := c.f()
				want := strings.Replace(c.want, "10:00:00", "10:00:"+sec, 1)
				if k == 4 {
					var secs int
					fmt.Sscanf(sec, "%d", &secs)
					want = fmt.Sprint(1614852000 + secs)
				}
				ok := (c.want == "" && err != nil) || (c.want != "" && err == nil && got == want)
				sum.eval(true, M{"regime": c.desc, "text": text})
				if !ok {
					violation("C19", "regime-"+c.desc, fmt.Sprintf("%q through %s (after other readings of the same text): expected %q (\"\" = an error), got %q %v", text, c.desc, want, got, err), M{"text": text, "order": order})
				}
			}
		}
	}
	// empty in, empty out; unparsable in, error out
	for fi, f := range []func(string) (string, error){
		func(s string) (string, error) { return customfuncs.DateTimeToRFC3339(nil, s, "UTC", "Asia/Tokyo") },
		func(s string) (string, error) {
			return customfuncs.DateTimeLayoutToRFC3339(nil, s, "2006-01-02", "false", "", "")
		},
		func(s string) (string, error) { return customfuncs.DateTimeToEpoch(nil, s, "", "SECOND") },
		func(s string) (string, error) { return customfuncs.EpochToDateTimeRFC3339(nil, s, "SECOND") },
	} {
		o, e := f("")
		add(M{"ev": "empty", "out": o, "err": e != nil})
		bads := []string{"not a date", "2021-13-45", "99999", "2021-02-30T10:00:00", "12:34", "2021-01-01T25:00:00Z", "١٢٣"}
		if fi == 3 {
			bads = []string{"abc", "1.5", "١٢٣", "12 34", "0x10", "--1"}
		}
		for _, bad := range bads {
			o, e := f(bad)
			add(M{"ev": "bad", "in_text": bad, "out": o, "err": e != nil})
			sum.eval(true, M{"bad": bad})
		}
	}
	for _, row := range rows {
		if rowHits[fmt.Sprint(row.Row)] == 0 {
			fmt.Println("error: decision-table row never exercised:", row.Row)
			return 3
		}
	}
	sum.Traces = len(events)
	if len(events) > 0 {
		sum.sample(events[0])
	}
	mustWriteNDJSON(args[1], events)
	sum.done()
	return 0
}

// dtEpochOf computes the Unix time of t in the unit without going through UnixNano (which overflows outside 1678-2262)
func dtEpochOf(t time.Time, unit string) int64 {
	if unit == "SECOND" {
		return t.Unix()
	}
	return t.Unix()*1000 + int64(t.Nanosecond()/1000000)
}

func init() { cmds["c19-drive"] = c19Drive }
