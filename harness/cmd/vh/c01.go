package main

import (
	"bytes"
	"encoding/json"
	"errors"
	"fmt"
	"io"
	"strings"
	"unicode/utf8"

	"github.com/jf-tech/omniparser"
	"github.com/jf-tech/omniparser/errs"
	"github.com/jf-tech/omniparser/schemahandler"
	"github.com/jf-tech/omniparser/transformctx"
)

// ---- B1: replay of TLC-generated (script, call word) cases against the real omniparser.Transform
// obtained through the public Extension mechanism with a scripted Ingester.

type scriptSym struct {
	K    string `json:"k"`
	V    int    `json:"v"`
	Junk bool   `json:"junk"`
}
type callExp struct {
	Op    string `json:"op"`
	Class string `json:"class"`
	V     int    `json:"v"`
	Nilb  bool   `json:"nilb"`
	Ing   int    `json:"ing"`
}
type c01Case struct {
	Script []scriptSym `json:"script"`
	Calls  []callExp   `json:"calls"`
}

type contErr struct{ v int }

func (e contErr) Error() string { return fmt.Sprintf("cont-%d", e.v) }

// (the second one wraps a per-record failure, as a handler that gives up after too many bad records would report it: what
// is terminal is decided by the handler's IsContinuableError, not by what the error wraps)
var fatalErrs = map[int]error{1: errors.New("fatal-1"), 2: fmt.Errorf("fatal-2, giving up after: %w", errs.ErrTransformFailed("cont-9"))}

type scriptedRaw struct{ v int }

func (r *scriptedRaw) Raw() interface{} { return r.v }
func (r *scriptedRaw) Checksum() string { return fmt.Sprintf("sum-%d", r.v) }

type scriptedIngester struct {
	script []scriptSym
	pos    int
	calls  int
}

func (g *scriptedIngester) Read() (schemahandler.RawRecord, []byte, error) {
	g.calls++
	if g.pos >= len(g.script) {
		return nil, nil, io.EOF
	}
	s := g.script[g.pos]
	g.pos++
	var junk []byte
	if s.Junk {
		junk = []byte(`{"junk":true}`)
	}
	switch s.K {
	case "ok":
		return &scriptedRaw{s.V}, []byte(fmt.Sprintf(`{"rec":%d}`, s.V)), nil
	case "cont":
		return nil, junk, contErr{s.V}
	case "fatal":
		return nil, junk, fatalErrs[s.V]
	default:
		return nil, nil, io.EOF
	}
}
func (g *scriptedIngester) IsContinuableError(err error) bool {
	_, ok := err.(contErr)
	return ok
}
func (g *scriptedIngester) FmtErr(format string, args ...interface{}) error {
	return fmt.Errorf(format, args...)
}

type scriptedHandler struct{ ing *scriptedIngester }

func (h *scriptedHandler) NewIngester(ctx *transformctx.Ctx, input io.Reader) (schemahandler.Ingester, error) {
	return h.ing, nil
}

// observeErr classifies an error of the scripted transform.  beforeAnyRead: the only error RawRecord can have before the
// first Read is the "call Read first" error, whatever its wording.
func observeErr(err error, beforeAnyRead bool) (string, int) {
	switch {
	case err == io.EOF:
		return "eof", 0
	case err == fatalErrs[1]:
		return "fatal", 1
	case err == fatalErrs[2]:
		return "fatal", 2
	case errs.IsErrTransformFailed(err):
		var v int
		fmt.Sscanf(err.Error(), "cont-%d", &v)
		return "failed", v
	case err == fatalErrs[1]:
		return "fatal", 1
	case err == fatalErrs[2]:
		return "fatal", 2
	case err != nil && beforeAnyRead:
		return "mustread", 0
	default:
		return "other:" + fmt.Sprint(err), -1
	}
}

func c01Replay(args []string) int {
	sum := newSummary()
	drift := 0
	err := readLines(args[0], func(line []byte) error {
		var c c01Case
		if e := json.Unmarshal(line, &c); e != nil {
			return e
		}
		ing := &scriptedIngester{script: c.Script}
		sch, e := omniparser.NewSchema("s", strings.NewReader(`{"parser_settings":{"version":"scripted","file_format_type":"x"}}`),
			omniparser.Extension{CreateSchemaHandler: func(ctx *schemahandler.CreateCtx) (schemahandler.SchemaHandler, error) {
				return &scriptedHandler{ing}, nil
			}})
		if e != nil {
			return e
		}
		tr, e := sch.NewTransform("in", strings.NewReader(""), &transformctx.Ctx{})
		if e != nil {
			return e
		}
		nontrivial := false
		seenTerminal, lastFailed, anyRead := false, false, false
		for i, x := range c.Calls {
			var got callExp
			got.Op = x.Op
			var pv string
			p, _ := guarded(0, func() {
				if x.Op == "Read" {
					anyRead = true
					b, err := tr.Read()
					got.Nilb = b == nil
					if err == nil {
						got.Class = "ok"
						var m struct{ Rec int }
						json.Unmarshal(b, &m)
						got.V = m.Rec
					} else {
						got.Class, got.V = observeErr(err, false)
					}
				} else {
					rr, err := tr.RawRecord()
					got.Nilb = rr == nil
					if err == nil {
						got.Class = "raw"
						if v, ok := rr.Raw().(int); ok {
							got.V = v
						}
					} else {
						got.Class, got.V = observeErr(err, !anyRead)
					}
				}
			})
			pv = p
			got.Ing = ing.calls
			if seenTerminal || (x.Op == "Raw" && lastFailed) {
				nontrivial = true
			}
			if x.Op == "Read" {
				seenTerminal = seenTerminal || x.Class == "eof" || x.Class == "fatal"
				lastFailed = x.Class != "ok"
			}
			if pv != "" {
				violation("C01", "b1-panic", "panic in scripted replay: "+pv, M{"case": c, "call": i})
				break
			}
			exp := x
			ingOnly := got.Ing != exp.Ing
			got.Ing, exp.Ing = 0, 0
			if got != exp {
				violation("C01", "b1-latch", fmt.Sprintf("call %d (%s): expected %+v got %+v", i, x.Op, exp, got),
					M{"case": c, "call": i, "expected": exp, "actual": got})
				break
			}
			if ingOnly {
				drift++
			}
		}
		sum.eval(nontrivial, c)
		sum.sample(c)
		return nil
	})
	if err != nil {
		fmt.Println("error:", err)
		return 3
	}
	sum.inc("spec_drift_ingester_calls", drift)
	sum.done()
	return 0
}

// ---- B2: traces of the real read loop over the built-in formats, validated by Trace_Transform.tla

type c01Event struct {
	Ev    string `json:"ev"`
	Class string `json:"class,omitempty"`
	V     int    `json:"v"`
	Nilb  bool   `json:"nilb"`
	Valid bool   `json:"valid"` // ok => output is valid UTF-8 JSON
	Tr    int    `json:"tr"`
}

// mutateInput returns variants of a sample input: intact, truncated, byte-flipped, empty, doubled.
func mutateInput(in []byte, r interface{ Intn(int) int }, n int) [][]byte {
	out := [][]byte{in, {}, append(append([]byte{}, in...), in...)}
	for i := 0; i < n; i++ {
		if len(in) == 0 {
			break
		}
		switch r.Intn(3) {
		case 0:
			out = append(out, append([]byte{}, in[:r.Intn(len(in))]...))
		case 1:
			c := append([]byte{}, in...)
			for k := 0; k < 1+r.Intn(3); k++ {
				c[r.Intn(len(c))] = byte(r.Intn(256))
			}
			out = append(out, c)
		default:
			a, b := r.Intn(len(in)), r.Intn(len(in))
			if a > b {
				a, b = b, a
			}
			out = append(out, append(append([]byte{}, in[:a]...), in[b:]...))
		}
	}
	return out
}

func c01Drive(args []string) int {
	outPath := args[0]
	nmut := 6
	if len(args) > 1 {
		fmt.Sscanf(args[1], "%d", &nmut)
	}
	sum := newSummary()
	r := rng(101)
	var events []interface{}
	trNo := 0
	corpus := append(repoSamples(), miniSamples()...)
	// and the accepted variants of the harness-owned schemas with one number at an integer boundary (a column that
	// means "the rest of the line", an index that is never there): intact and doubled input only
	single := map[string]bool{}
	for _, s := range append(miniSamples(), generatedSamples()...) {
		for _, b := range boundarySchemas(s.Schema) {
			if _, err, p := newSchema(b.Schema); err == nil && p == "" {
				nm := s.Name + " [" + b.Desc + "]"
				single[nm] = true
				in := s.Input
				if len(in) > 3000 {
					in = in[:3000]
				}
				corpus = append(corpus, Sample{nm, s.Format, b.Schema, in})
			}
		}
	}
	for _, s := range corpus {
		sch, err, p := newSchema(s.Schema)
		if err != nil || p != "" {
			fmt.Println("error: corpus schema rejected", s.Name, err, p)
			return 3
		}
		nm := nmut
		if single[s.Name] {
			nm = 0
		}
		for vi, in := range mutateInput(s.Input, r, nm) {
			trNo++
			events = append(events, c01Event{Ev: "Reset", Tr: trNo})
			var tr omniparser.Transform
			p, _ := guarded(0, func() {
				tr, err = sch.NewTransform("in", strings.NewReader(string(in)), &transformctx.Ctx{})
			})
			if p != "" {
				violation("C01", "panic", "NewTransform panicked: "+p, M{"sample": s.Name, "input": string(in)})
				continue
			}
			if err != nil {
				continue
			}
			errIDs := map[string]int{}
			fpIDs := map[string]int{}
			idOf := func(m map[string]int, k string) int {
				if v, ok := m[k]; ok {
					return v
				}
				m[k] = len(m) + 1
				return m[k]
			}
			var evs []*c01Event
			afterTerminal := 0
			sawTerminal, sawRawAfterFail, lastFail := false, false, false
			// every Read that returns a record or a per-record failure has consumed at least one byte of a finite input
			// ("after which reading may continue"): more Reads than bytes without a terminal result means it cannot
			maxCalls := 2*len(in) + 40
			nreads := 0
			for calls := 0; calls < maxCalls && afterTerminal < 4; calls++ {
				e := &c01Event{Tr: trNo}
				var pv string
				if calls == 0 && r.Intn(3) == 0 || calls > 0 && r.Intn(10) < 3 {
					e.Ev = "Raw"
					pv, _ = guarded(0, func() {
						rr, err := tr.RawRecord()
						e.Nilb = rr == nil
						if err == nil {
							e.Class = "raw"
							e.V = idOf(fpIDs, rr.Checksum())
						} else {
							c := classify(err)
							if nreads == 0 { // before any Read: the "call Read first" error, whatever its wording
								c = "mustread"
							} else if err != io.EOF {
								e.V = idOf(errIDs, c+"|"+err.Error())
							}
							e.Class = c
						}
					})
					if lastFail {
						sawRawAfterFail = true
					}
				} else {
					e.Ev = "Read"
					nreads++
					pv, _ = guarded(0, func() {
						b, err := tr.Read()
						e.Nilb = b == nil
						e.Class = classify(err)
						if err == nil {
							e.Valid = utf8.Valid(b) && json.Valid(b)
						} else if err != io.EOF {
							e.V = idOf(errIDs, e.Class+"|"+err.Error())
						}
					})
					lastFail = e.Class != "ok"
					if sawTerminal {
						afterTerminal++
					}
					if e.Class == "eof" || e.Class == "fatal" {
						sawTerminal = true
					}
				}
				if pv != "" {
					violation("C01", "panic", "a Read/RawRecord call panicked instead of returning: "+pv, M{"sample": s.Name, "variant": vi, "input": string(in)})
					break
				}
				evs = append(evs, e)
			}
			if !sawTerminal && nreads > len(in)+3 {
				last := evs[len(evs)-1]
				violation("C01", "no-terminal-result", fmt.Sprintf("%s: %d Reads over a %d byte input and no terminal result; reading does not continue past a per-record failure (last result class %s)",
					s.Name, nreads, len(in), last.Class), M{"sample": s.Name, "variant": vi, "input": string(in), "reads": nreads})
			}
			// bind the record id of an ok Read to the fingerprint reported by the first RawRecord that follows it
			next := 1000
			for i, e := range evs {
				if e.Ev == "Read" && e.Class == "ok" {
					e.V = 0
					for j := i + 1; j < len(evs) && evs[j].Ev == "Raw"; j++ {
						if evs[j].Class == "raw" {
							e.V = evs[j].V
						}
						break
					}
					if e.V == 0 {
						next++
						e.V = next
					}
				}
			}
			for _, e := range evs {
				events = append(events, e)
			}
			sum.Traces++
			sum.eval(sawTerminal && (afterTerminal > 0 || sawRawAfterFail), M{"s": s.Name, "v": vi, "n": len(evs)})
			if vi == 3 {
				sum.sample(M{"sample": s.Name, "variant": vi, "events": evs[:min(len(evs), 12)]})
			}
		}
	}
	// two Transforms of one Schema alive at once, their calls alternating: RawRecord of one describes the record of *its*
	// most recent Read, whatever the other one has read since
	for _, smp := range miniSamples() {
		sch, err, p := newSchema(smp.Schema)
		if err != nil || p != "" {
			continue
		}
		solo := func(in []byte) []string {
			var sums []string
			runTranscript(sch, bytes.NewReader(in), RunOpts{MaxReads: 200, AfterRead: func(tr omniTransform, res Res) {
				if res.Class == "ok" {
					sums = append(sums, res.Sum)
				}
			}})
			return sums
		}
		inA := smp.Input
		inB := append(append([]byte{}, smp.Input...), smp.Input...)
		if smp.Format == "json" || smp.Format == "xml" {
			inB = smp.Input // (one top-level value per input)
		}
		wantA := solo(inA)
		ta, ea := sch.NewTransform("a", bytes.NewReader(inA), &transformctx.Ctx{})
		tb, eb := sch.NewTransform("b", bytes.NewReader(inB), &transformctx.Ctx{})
		if ea != nil || eb != nil || len(wantA) == 0 {
			continue
		}
		k := 0
		for step := 0; step < 200; step++ {
			var ra error
			pv, _ := guarded(0, func() { _, ra = ta.Read() })
			if pv != "" || classify(ra) == "eof" || classify(ra) == "fatal" {
				break
			}
			pv, _ = guarded(0, func() { tb.Read(); tb.Read() })
			if pv != "" {
				break
			}
			if ra != nil {
				continue
			}
			rr, e := ta.RawRecord()
			got := "error"
			if e == nil {
				got = rr.Checksum()
			}
			sum.eval(true, M{"twin": smp.Name, "k": k})
			if k < len(wantA) && got != wantA[k] {
				violation("C01", "rawrecord-of-another-transform", fmt.Sprintf("%s: two Transforms of one Schema: after a.Read (record %d) and two b.Read calls, a.RawRecord() has checksum %s, that record's checksum is %s",
					smp.Name, k+1, got, wantA[k]), M{"sample": smp.Name, "record": k + 1})
				break
			}
			k++
		}
	}
	// a long run of records that the target filter rejects, then one that passes: the Read that spans the run returns a
	// record, the next one the end - however long the run (the driver's stacks are capped at 16 MB)
	for _, c := range c17Cases() {
		if !strings.Contains(c.Name, "filtered") || c.Period != 1 {
			continue
		}
		sch, err, p := newSchema([]byte(c.Schema))
		if err != nil || p != "" {
			fmt.Println("error: schema rejected", c.Name, err, p)
			return 3
		}
		const run = 150000
		rd := &repeatReader{prefix: c.Prefix, suffix: c.Suffix, k: run + 1, unit: func(i int) string {
			if i < run {
				return c.Unit(1) // the rejected kind
			}
			return c.Unit(0)
		}}
		emit(M{"kind": "progress", "case": "long run of filtered-out records: " + c.Name})
		flush()
		tr, err := sch.NewTransform("in", rd, &transformctx.Ctx{})
		if err != nil {
			fmt.Println("error:", c.Name, err)
			return 3
		}
		var classes []string
		for k := 0; k < 6; k++ {
			var e error
			pv, _ := guarded(0, func() { _, e = tr.Read() })
			if pv != "" {
				violation("C01", "panic", "a Read over a long run of filtered-out records panicked: "+pv, M{"case": c.Name})
				break
			}
			classes = append(classes, classify(e))
			if classify(e) == "eof" || classify(e) == "fatal" {
				break
			}
		}
		sum.eval(true, M{"long-filtered": c.Name})
		if got := strings.Join(classes, " "); !strings.HasSuffix(got, "ok eof") && !strings.HasSuffix(got, "ok ok eof") {
			violation("C01", "long-filtered-run:"+c.Name, fmt.Sprintf("%s: %d filtered-out records and one that passes: results %v", c.Name, run, classes), M{"case": c.Name})
		}
	}
	mustWriteNDJSON(outPath, events)
	sum.inc("trace_events", len(events))
	sum.done()
	return 0
}

func min(a, b int) int {
	if a < b {
		return a
	}
	return b
}

func init() {
	cmds["c01-replay"] = c01Replay
	cmds["c01-drive"] = c01Drive
}
