package main

import (
	"bytes"
	"fmt"
	"io"

	"github.com/jf-tech/omniparser"
	"github.com/jf-tech/omniparser/customfuncs"
	"github.com/jf-tech/omniparser/extensions/omniv21"
	v21funcs "github.com/jf-tech/omniparser/extensions/omniv21/customfuncs"
	"github.com/jf-tech/omniparser/extensions/omniv21/fileformat"
	legacycsv "github.com/jf-tech/omniparser/extensions/omniv21/fileformat/csv"
	"github.com/jf-tech/omniparser/extensions/omniv21/fileformat/edi"
	legacyfl "github.com/jf-tech/omniparser/extensions/omniv21/fileformat/fixedlength"
	csv2 "github.com/jf-tech/omniparser/extensions/omniv21/fileformat/flatfile/csv"
	fl2 "github.com/jf-tech/omniparser/extensions/omniv21/fileformat/flatfile/fixedlength"
	jsonff "github.com/jf-tech/omniparser/extensions/omniv21/fileformat/json"
	xmlff "github.com/jf-tech/omniparser/extensions/omniv21/fileformat/xml"
	"github.com/jf-tech/omniparser/extensions/omniv21/transform"
	"github.com/jf-tech/omniparser/idr"
	"github.com/jf-tech/omniparser/transformctx"
)

// A recording FormatReader around each built-in reader (the documented extension point CustomFileFormats): the calls
// the omni.2.1 ingester makes - Read, Release, IsContinuableError - are logged in order, together with the driver's
// Transform.Read / RawRecord calls.  Trace_Ingester.tla validates the sequence against Ingester.tla.

type ingRecorder struct {
	readers []fileformat.FormatReader // the real readers created so far (C12: asked again after the transform ended)
	events  []interface{}
	tr      int
	ids     map[int64]int // node ID -> dense number inside the trace
}

func (r *ingRecorder) add(ev M) {
	ev["tr"] = r.tr
	r.events = append(r.events, ev)
}

func (r *ingRecorder) num(n *idr.Node) int {
	if n == nil {
		return 0
	}
	if v, ok := r.ids[n.ID]; ok {
		return v
	}
	r.ids[n.ID] = len(r.ids) + 1
	return r.ids[n.ID]
}

type ingRecFormat struct {
	inner fileformat.FileFormat
	rec   *ingRecorder
}

func (f *ingRecFormat) ValidateSchema(format string, content []byte, decl *transform.Decl) (interface{}, error) {
	return f.inner.ValidateSchema(format, content, decl)
}

func (f *ingRecFormat) CreateFormatReader(name string, input io.Reader, runtime interface{}) (fileformat.FormatReader, error) {
	rd, err := f.inner.CreateFormatReader(name, input, runtime)
	if err != nil {
		return nil, err
	}
	f.rec.readers = append(f.rec.readers, rd)
	return &recReader{inner: rd, rec: f.rec}, nil
}

type recReader struct {
	inner fileformat.FormatReader
	rec   *ingRecorder
}

func (r *recReader) Read() (*idr.Node, error) {
	n, err := r.inner.Read()
	cls := "node"
	switch {
	case err == io.EOF:
		cls = "eof"
	case err != nil && r.inner.IsContinuableError(err):
		cls = "cont"
	case err != nil:
		cls = "fatal"
	}
	if err != nil && n != nil {
		cls = "node-and-error" // no specification action consumes it
	}
	// a node ID is unique for the life of the process: a number seen before means the same node was handed out twice
	r.rec.add(M{"ev": "RRead", "n": r.rec.num(n), "cls": cls})
	return n, err
}

func (r *recReader) Release(n *idr.Node) {
	r.rec.add(M{"ev": "RRelease", "n": r.rec.num(n)})
	r.inner.Release(n)
}

func (r *recReader) IsContinuableError(err error) bool {
	b := r.inner.IsContinuableError(err)
	r.rec.add(M{"ev": "RCont", "b": b})
	return b
}

func (r *recReader) FmtErr(format string, args ...interface{}) error {
	return r.inner.FmtErr(format, args...)
}

// directFormat hands the built-in format reader a byte source of the driver's choosing instead of the one schema.go built
// (which is always a *bufio.Reader): the format readers are public constructors that accept any io.Reader.
type directFormat struct {
	inner fileformat.FileFormat
	src   *func() io.Reader
}

func (f *directFormat) ValidateSchema(format string, content []byte, decl *transform.Decl) (interface{}, error) {
	return f.inner.ValidateSchema(format, content, decl)
}

func (f *directFormat) CreateFormatReader(name string, input io.Reader, runtime interface{}) (fileformat.FormatReader, error) {
	if *f.src != nil {
		input = (*f.src)()
	}
	return f.inner.CreateFormatReader(name, input, runtime)
}

func directExtension(src *func() io.Reader) omniparser.Extension {
	var ffs []fileformat.FileFormat
	for _, ff := range []fileformat.FileFormat{
		legacycsv.NewCSVFileFormat("schema"), csv2.NewCSVFileFormat("schema"), edi.NewEDIFileFormat("schema"),
		legacyfl.NewFixedLengthFileFormat("schema"), fl2.NewFixedLengthFileFormat("schema"),
		jsonff.NewJSONFileFormat("schema"), xmlff.NewXMLFileFormat("schema"),
	} {
		ffs = append(ffs, &directFormat{inner: ff, src: src})
	}
	return omniparser.Extension{
		CreateSchemaHandler:       omniv21.CreateSchemaHandler,
		CreateSchemaHandlerParams: &omniv21.CreateParams{CustomFileFormats: ffs},
		CustomFuncs:               allCustomFuncs(),
	}
}

func allCustomFuncs() customfuncs.CustomFuncs {
	return customfuncs.Merge(customfuncs.CommonCustomFuncs, v21funcs.OmniV21CustomFuncs)
}

func recordingExtension(rec *ingRecorder) omniparser.Extension {
	var ffs []fileformat.FileFormat
	for _, ff := range []fileformat.FileFormat{
		legacycsv.NewCSVFileFormat("schema"), csv2.NewCSVFileFormat("schema"), edi.NewEDIFileFormat("schema"),
		legacyfl.NewFixedLengthFileFormat("schema"), fl2.NewFixedLengthFileFormat("schema"),
		jsonff.NewJSONFileFormat("schema"), xmlff.NewXMLFileFormat("schema"),
	} {
		ffs = append(ffs, &ingRecFormat{inner: ff, rec: rec})
	}
	return omniparser.Extension{
		CreateSchemaHandler:       omniv21.CreateSchemaHandler,
		CreateSchemaHandlerParams: &omniv21.CreateParams{CustomFileFormats: ffs},
		CustomFuncs:               allCustomFuncs(),
	}
}

// ing-drive <out.ndjson> <nmut>: corpus items and damaged variants through the recording readers
func ingDrive(args []string) int {
	nmut := 2
	if len(args) > 1 {
		fmt.Sscanf(args[1], "%d", &nmut)
	}
	sum := newSummary()
	rec := &ingRecorder{}
	r := rng(4242)
	corpus := append(append(miniSamples(), generatedSamples()...), repoSamples()...)
	for _, s := range corpus {
		if len(s.Input) > 20000 {
			continue
		}
		sch, err, p := newSchema(s.Schema, recordingExtension(rec))
		if err != nil || p != "" {
			fmt.Println("error: schema rejected under the recording extension", s.Name, err, p)
			return 3
		}
		for vi, in := range mutateInput(s.Input, r, nmut) {
			rec.tr++
			rec.ids = map[int64]int{}
			rec.add(M{"ev": "start", "sample": s.Name, "variant": vi})
			tr, err := sch.NewTransform("in", bytes.NewReader(in), &transformctx.Ctx{})
			if err != nil {
				continue
			}
			after, nodes := 0, 0
			for calls := 0; calls < 3000 && after < 3; calls++ {
				rec.add(M{"ev": "TRead"})
				var b []byte
				var e error
				pv, _ := guarded(0, func() { b, e = tr.Read() })
				if pv != "" {
					violation("C17", "panic", "Read panicked: "+pv, M{"sample": s.Name, "variant": vi})
					break
				}
				cls := classify(e)
				rec.add(M{"ev": "TReadEnd", "cls": cls, "nilb": b == nil})
				if cls == "eof" || cls == "fatal" {
					after++
				}
				if cls == "ok" {
					nodes++
				}
				if r.Intn(3) == 0 {
					rr, e2 := tr.RawRecord()
					if e2 == nil {
						n, _ := rr.Raw().(*idr.Node)
						rec.add(M{"ev": "TRaw", "cls": "raw", "n": rec.num(n)})
					} else {
						rec.add(M{"ev": "TRaw", "cls": "err", "n": 0})
					}
				}
			}
			sum.Traces++
			sum.eval(nodes >= 2, M{"s": s.Name, "v": vi})
		}
	}
	if len(rec.events) > 0 {
		sum.sample(M{"first_events": rec.events[:min(len(rec.events), 12)]})
	}
	mustWriteNDJSON(args[0], rec.events)
	sum.done()
	return 0
}

func init() { cmds["ing-drive"] = ingDrive }
