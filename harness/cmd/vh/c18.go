package main

import (
	"bytes"
	"encoding/json"
	"fmt"
	"io/ioutil"
	"strings"
	"unicode/utf8"

	"github.com/jf-tech/omniparser/header"
	"golang.org/x/text/encoding"
	"golang.org/x/text/encoding/charmap"
)

type encTable struct {
	Enc   string `json:"enc"`
	Table []int  `json:"table"`
}

func loadEncTables(path string) (map[string][]int, error) {
	out := map[string][]int{}
	err := readLines(path, func(line []byte) error {
		var t encTable
		if e := json.Unmarshal(line, &t); e != nil {
			return e
		}
		if len(t.Table) != 256 {
			return fmt.Errorf("table for %s has %d entries", t.Enc, len(t.Table))
		}
		out[t.Enc] = t.Table
		return nil
	})
	return out, err
}

func toUTF8(table []int, in []byte) []byte {
	var out []byte
	var buf [4]byte
	for _, b := range in {
		n := utf8.EncodeRune(buf[:], rune(table[b]))
		out = append(out, buf[:n]...)
	}
	return out
}

// c18-drive <tables.ndjson> <out.ndjson> <nrandom>
func c18Drive(args []string) int {
	tables, err := loadEncTables(args[0])
	if err != nil {
		fmt.Println("error:", err)
		return 3
	}
	nrandom := 20
	if len(args) > 2 {
		fmt.Sscanf(args[2], "%d", &nrandom)
	}
	sum := newSummary()
	// B1, all 512 (byte, encoding) pairs, two bindings of Encoding.tla's code-page tables:
	//  - to the standard code pages as implemented outside the repository (x/text charmap): a difference is a
	//    problem of the specification (spec_mismatch, inconclusive);
	//  - to what the repository does with a declared encoding (header.ParserSettings.WrapEncoding): a difference is
	//    a violation - the declared encoding is not decoded with its standard code page.
	mism := 0
	std := map[string]encoding.Encoding{"iso-8859-1": charmap.ISO8859_1, "windows-1252": charmap.Windows1252}
	for enc, table := range tables {
		e := enc
		ps := header.ParserSettings{Encoding: &e}
		wrong := []int{}
		for b := 0; b < 256; b++ {
			want := toUTF8(table, []byte{byte(b)})
			if cm, ok := std[enc]; ok {
				ref, _ := cm.NewDecoder().Bytes([]byte{byte(b)})
				if !bytes.Equal(ref, want) {
					mism++
					emit(M{"kind": "spec_mismatch", "enc": enc, "byte": b, "spec": table[b], "decoder": fmt.Sprintf("%x", ref)})
				}
			}
			got, _ := ioutil.ReadAll(ps.WrapEncoding(bytes.NewReader([]byte{byte(b)})))
			if !bytes.Equal(got, want) {
				wrong = append(wrong, b)
			}
			sum.eval(b >= 0x80, M{"e": enc, "b": b})
		}
		if len(wrong) > 0 {
			violation("C18", "decoder-differs-from-code-page:"+enc, fmt.Sprintf("encoding %s: %d byte value(s) are not decoded with the standard code page, first 0x%02X (all: %v)", enc, len(wrong), wrong[0], wrong),
				M{"enc": enc, "bytes": wrong})
		}
	}
	sum.inc("spec_mismatch", mism)
	r := rng(1818)
	var events []interface{}
	fam := 0
	bom := []byte{0xEF, 0xBB, 0xBF}
	// payload placement per format: tmpl(payload) -> input bytes
	type fmtTmpl struct {
		s    Sample
		tmpl func(p []byte) []byte
	}
	cat := func(parts ...[]byte) []byte { return bytes.Join(parts, nil) }
	minis := map[string]Sample{}
	for _, s := range miniSamples() {
		minis[s.Format] = s
	}
	tmpls := []fmtTmpl{
		{minis["csv"], func(p []byte) []byte { return cat([]byte("id,name,qty\n1,"), p, []byte(",10\n2,plain,20\n")) }},
		{minis["csv2"], func(p []byte) []byte { return cat([]byte("H,"), p, []byte(",1\nD,x\nH,b,2\n")) }},
		{minis["fixedlength"], func(p []byte) []byte { return cat([]byte("A"), p, []byte("\nB0010\nA02 second\nB0020\n")) }},
		{minis["fixedlength2"], func(p []byte) []byte { return cat([]byte("H"), p, []byte("\nDitem1\nH0020020\n")) }},
		{minis["edi"], func(p []byte) []byte { return cat([]byte("HDR*"), p, []byte("*1~\nITM*s1:x~\nHDR*b*2~\n")) }},
		{minis["json"], func(p []byte) []byte {
			return cat([]byte(`[{"id": "`), p, []byte(`", "qty": 1}, {"id": "b", "qty": 2}]`))
		}},
		{minis["xml"], func(p []byte) []byte {
			return cat([]byte(`<root><rec id="a"><qty>1</qty><tag>`), p, []byte(`</tag></rec><rec id="b"><qty>2</qty></rec></root>`))
		}},
	}
	for _, ft := range tmpls {
		schU, err, p := newSchema(ft.s.Schema)
		if err != nil || p != "" {
			fmt.Println("error: schema", ft.s.Name, err, p)
			return 3
		}
		var payloads [][]byte
		for lo := 0; lo < 256; lo += 8 { // every byte value appears in some payload
			var pl []byte
			for b := lo; b < lo+8; b++ {
				pl = append(pl, byte(b))
			}
			payloads = append(payloads, pl)
		}
		for k := 0; k < nrandom; k++ {
			pl := make([]byte, 1+r.Intn(12))
			for i := range pl {
				pl[i] = byte(r.Intn(256))
			}
			payloads = append(payloads, pl)
		}
		// utf-8 declared: a leading BOM is transparent
		for _, pl := range [][]byte{[]byte("plain"), []byte("\xc3\xa9t\xc3\xa9"), {}} {
			fam++
			in := ft.tmpl(pl)
			g := transcriptOf(schU, bytes.NewReader(in), 1000)
			events = append(events, M{"ev": "golden", "tr": fam, "item": ft.s.Name, "results": fpAll(g, "full"), "desc": "utf-8, no BOM"})
			v := transcriptOf(schU, bytes.NewReader(cat(bom, in)), 1000)
			events = append(events, M{"ev": "same", "tr": fam, "item": ft.s.Name, "results": fpAll(v, "full"), "desc": "utf-8 with BOM", "input": fmt.Sprintf("%q", in)})
			v2 := transcriptOf(schU, &chunkReader{data: cat(bom, in), sizes: []int{1}, failAt: -1}, 1000)
			events = append(events, M{"ev": "same", "tr": fam, "item": ft.s.Name, "results": fpAll(v2, "full"), "desc": "utf-8 with BOM, 1-byte delivery", "input": fmt.Sprintf("%q", in)})
			sum.Traces += 2
			// ... also when utf-8 is declared explicitly
			schE, errE, pE := newSchema(withEncoding(ft.s.Schema, "utf-8"))
			if errE != nil || pE != "" {
				fmt.Println("error: schema with explicit utf-8 rejected", ft.s.Name, errE, pE)
				return 3
			}
			for _, b := range []bool{false, true} {
				data, desc := in, "utf-8 declared explicitly, no BOM"
				if b {
					data, desc = cat(bom, in), "utf-8 declared explicitly, with BOM"
				}
				v3 := transcriptOf(schE, bytes.NewReader(data), 1000)
				events = append(events, M{"ev": "same", "tr": fam, "item": ft.s.Name, "results": fpAll(v3, "full"), "desc": desc, "input": fmt.Sprintf("%q", in)})
				sum.Traces++
			}
			sum.eval(true, M{"f": ft.s.Name, "bom": string(pl)})
		}
		for enc, table := range tables {
			schE, err, p := newSchema(withEncoding(ft.s.Schema, enc))
			if err != nil || p != "" {
				fmt.Println("error: schema", ft.s.Name, enc, err, p)
				return 3
			}
			for _, pl := range payloads {
				for _, withBOM := range []bool{false, true} {
					fam++
					in := ft.tmpl(pl)
					if withBOM {
						in = cat(bom, in)
					}
					// golden: convert with the specification's table, declare utf-8.  (With a single-byte code page the
					// bytes EF BB BF are three characters of data, so nothing is stripped on either side.)
					g := transcriptOf(schU, bytes.NewReader(toUTF8(table, in)), 1000)
					v := transcriptOf(schE, bytes.NewReader(in), 1000)
					events = append(events, M{"ev": "golden", "tr": fam, "item": ft.s.Name, "results": fpAll(g, "full"), "desc": "converted to utf-8"})
					events = append(events, M{"ev": "same", "tr": fam, "item": ft.s.Name, "results": fpAll(v, "full"), "desc": "declared " + enc, "input": fmt.Sprintf("%q", in), "enc": enc})
					sum.Traces++
					hi := false
					for _, b := range pl {
						hi = hi || b >= 0x80
					}
					sum.eval(hi || withBOM, M{"f": ft.s.Name, "e": enc, "p": fmt.Sprintf("%x", pl), "b": withBOM})
				}
			}
		}
		sum.sample(M{"format": ft.s.Format, "example_input": fmt.Sprintf("%q", ft.tmpl([]byte{0x80, 0xE9, 0x9D}))})
	}
	// long inputs of multi-line records (several buffer refills, which fall at different offsets once the decoder sits
	// between the source and the reader): high bytes spread over the whole input
	for _, s := range generatedSamples() {
		schU, err, p := newSchema(s.Schema)
		if err != nil || p != "" {
			fmt.Println("error: schema", s.Name, err, p)
			return 3
		}
		for enc, table := range tables {
			schE, err, p := newSchema(withEncoding(s.Schema, enc))
			if err != nil || p != "" {
				fmt.Println("error: schema", s.Name, enc, err, p)
				return 3
			}
			base := highBytes(s.Input)
			for rep := 1; rep <= 3; rep += 2 {
				in := bytes.Repeat(base, rep)
				fam++
				g := transcriptOf(schU, bytes.NewReader(toUTF8(table, in)), 100000)
				events = append(events, M{"ev": "golden", "tr": fam, "item": s.Name, "results": fpAll(g, "full"), "desc": "converted to utf-8"})
				for _, sizes := range [][]int{nil, {1}, {4096}, {1000}} {
					v := transcriptOf(schE, &chunkReader{data: in, sizes: sizes, failAt: -1}, 100000)
					events = append(events, M{"ev": "same", "tr": fam, "item": s.Name, "results": fpAll(v, "full"), "desc": fmt.Sprintf("declared %s, %d bytes, delivery %v", enc, len(in), sizes), "enc": enc})
					sum.Traces++
					sum.eval(len(g.Results) > 2, M{"f": s.Name, "e": enc, "n": len(in), "d": sizes})
				}
			}
		}
	}
	// long XML documents that name an encoding in their own declaration as well (the decoder then has a second charset
	// layer of its own), non-ASCII characters at every alignment relative to the buffer sizes
	{
		xs := minis["xml"]
		schU, err, p := newSchema(xs.Schema)
		if err != nil || p != "" {
			fmt.Println("error: schema", xs.Name, err, p)
			return 3
		}
		for enc, table := range tables {
			schE, err, p := newSchema(withEncoding(xs.Schema, enc))
			if err != nil || p != "" {
				fmt.Println("error: schema", xs.Name, enc, err, p)
				return 3
			}
			for pad := 0; pad < 6; pad++ {
				var sb bytes.Buffer
				sb.WriteString(`<?xml version="1.0" encoding="` + enc + `"?>` + strings.Repeat(" ", pad) + "<root>")
				for k := 0; sb.Len() < 14000; k++ {
					sb.WriteString(fmt.Sprintf(`<rec id="r%d"><qty>%d</qty><tag>`, k, k))
					sb.Write([]byte{'o', 'l', 0xE9, ' ', 0xFC, 'b', 'e', 'r', ' ', 0xF1, 0xE9, 0xE9})
					sb.WriteString(fmt.Sprintf("%d</tag></rec>", k%7))
				}
				sb.WriteString("</root>")
				in := sb.Bytes()
				fam++
				g := transcriptOf(schU, bytes.NewReader(toUTF8(table, in)), 100000)
				events = append(events, M{"ev": "golden", "tr": fam, "item": "xml with its own encoding declaration", "results": fpAll(g, "full"), "desc": "converted to utf-8"})
				for _, sizes := range [][]int{nil, {1000}} {
					v := transcriptOf(schE, &chunkReader{data: in, sizes: sizes, failAt: -1}, 100000)
					events = append(events, M{"ev": "same", "tr": fam, "item": "xml with its own encoding declaration", "results": fpAll(v, "full"),
						"desc": fmt.Sprintf("declared %s, %d bytes, %d blanks after the declaration, delivery %v", enc, len(in), pad, sizes), "enc": enc})
					sum.Traces++
					sum.eval(len(g.Results) > 2, M{"f": "xml-decl", "e": enc, "pad": pad, "d": sizes})
				}
			}
		}
	}
	// JSON documents that end at (or next to) a buffer edge of the declared-encoding path, with data after the top-level
	// value: how the run ends is part of the result
	{
		js := minis["json"]
		schU, err, p := newSchema(js.Schema)
		if err != nil || p != "" {
			fmt.Println("error: schema", js.Name, err, p)
			return 3
		}
		for enc, table := range tables {
			schE, err, p := newSchema(withEncoding(js.Schema, enc))
			if err != nil || p != "" {
				fmt.Println("error: schema", js.Name, enc, err, p)
				return 3
			}
			for _, total := range []int{4095, 4096, 4097, 8191, 8192, 8193} {
				for ti, trailer := range []string{` {"id": "z"}`, "\n7", " x", ""} {
					var sb bytes.Buffer
					sb.WriteString("[")
					for k := 0; sb.Len() < total-200; k++ {
						if k > 0 {
							sb.WriteString(", ")
						}
						sb.WriteString(fmt.Sprintf(`{"id": "caf`))
						sb.Write([]byte{0xE9, ' ', 0xFC})
						sb.WriteString(fmt.Sprintf(`%d", "qty": %d}`, k, k))
					}
					for sb.Len() < total-1 {
						sb.WriteString(" ")
					}
					sb.WriteString("]")
					sb.WriteString(trailer)
					in := sb.Bytes()
					fam++
					g := transcriptOf(schU, bytes.NewReader(toUTF8(table, in)), 100000)
					events = append(events, M{"ev": "golden", "tr": fam, "item": "json ending at a buffer edge", "results": fpAll(g, "classout"), "desc": "converted to utf-8"})
					v := transcriptOf(schE, bytes.NewReader(in), 100000)
					events = append(events, M{"ev": "same", "tr": fam, "item": "json ending at a buffer edge", "results": fpAll(v, "classout"),
						"desc": fmt.Sprintf("declared %s, top-level value of %d bytes, trailer no. %d", enc, total, ti), "enc": enc})
					sum.Traces++
					sum.eval(true, M{"f": "json-edge", "e": enc, "n": total, "t": ti})
				}
			}
		}
	}
	mustWriteNDJSON(args[1], events)
	sum.done()
	return 0
}

func init() { cmds["c18-drive"] = c18Drive }
