package main

import (
	"bytes"
	"fmt"
	"runtime/debug"
	"sort"
	"strings"

	"github.com/jf-tech/omniparser"
)

// C10: record pools per format; schemas address only the record's own data.
// Failure kinds: "cast" (type cast), "multi" (several xpath matches for a single-valued field), "func" (custom function error).

type recFormat struct {
	Name   string
	Schema string
	OK     []string            // record texts that transform successfully
	Fail   map[string][]string // failure kind -> record texts
	Wrap   func(recs []string) string
	sch    omniparser.Schema
}

// a script that reads a global it is not given (sees it only if an earlier call leaked it), and one that throws on demand
const jsProbe = `{"custom_func": {"name": "javascript", "args": [{"const": "typeof code === 'undefined' ? 'clean:' + id : 'LEAK:' + code"}, {"const": "id"}, {"xpath": "id"}]}}`
const jsThrow = `{"custom_func": {"name": "javascript", "args": [{"const": "if (code && code.indexOf('BAD') === 0) { throw 'bad code'; } code || ''"}, {"const": "code"}, {"xpath": "code"}]}}`

const tsFunc = `{"custom_func": {"name": "dateTimeToRFC3339", "args": [{"xpath": "ts"}, {"const": ""}, {"const": ""}]}}`

func c10Formats() []*recFormat {
	join := func(sep string) func([]string) string {
		return func(r []string) string { return strings.Join(r, sep) }
	}
	return []*recFormat{
		{Name: "csv", Schema: `{"parser_settings": {"version": "omni.2.1", "file_format_type": "csv"},
 "file_declaration": {"delimiter": ",", "header_row_index": 1, "data_row_index": 2, "columns": [{"name": "id"}, {"name": "qty"}, {"name": "ts"}]},
 "transform_declarations": {"FINAL_OUTPUT": {"object": {"id": {"xpath": "id"}, "qty": {"xpath": "qty", "type": "int"}, "ts": ` + tsFunc + `}}}}`,
			OK:   []string{"a,1,2020-01-02\n", "b,2,\n", "\"c,c\",3,2021-03-04T05:06:07Z\n", "d,4,\n", "\"e\ne\",5,\n"},
			Fail: map[string][]string{"cast": {"x,bad,\n", "y,1.5,\n"}, "func": {"z,1,not-a-date\n"}},
			Wrap: func(r []string) string { return "id,qty,ts\n" + strings.Join(r, "") }},
		{Name: "csv2", Schema: `{"parser_settings": {"version": "omni.2.1", "file_format_type": "csv2"},
 "file_declaration": {"delimiter": ",", "records": [{"name": "H", "header": "^H,", "is_target": true,
   "columns": [{"name": "id", "index": 2}, {"name": "qty", "index": 3}],
   "child_records": [{"name": "D", "header": "^D,", "columns": [{"name": "item", "index": 2}]}]}]},
 "transform_declarations": {"FINAL_OUTPUT": {"object": {"id": {"xpath": "id"}, "qty": {"xpath": "qty", "type": "int"},
   "first": {"xpath": "D/item"}, "n": {"array": [{"xpath": "D", "object": {"i": {"xpath": "item"}}}]}}}}}`,
			OK:   []string{"H,a,1\nD,x\n", "H,b,2\n", "H,c,3\nD,\"y,y\"\n", "H,d,4\nD,z\n"},
			Fail: map[string][]string{"cast": {"H,e,bad\nD,q\n"}, "multi": {"H,f,6\nD,p\nD,q\n"}},
			Wrap: join("")},
		{Name: "fixedlength", Schema: miniFixed,
			OK:   []string{"A01 first\nB0010\n", "A02 second\nB0020\n", "A03\nB0030\n", "A04 x\nB0040\n"},
			Fail: map[string][]string{"cast": {"A05\nBxx50\n", "A06\nB    \n"}},
			Wrap: join("")},
		{Name: "fixedlength2", Schema: `{"parser_settings": {"version": "omni.2.1", "file_format_type": "fixedlength2"},
 "file_declaration": {"envelopes": [{"name": "H", "header": "^H", "is_target": true,
   "columns": [{"name": "id", "start_pos": 2, "length": 3}, {"name": "qty", "start_pos": 5, "length": 4}],
   "child_envelopes": [{"name": "D", "header": "^D", "columns": [{"name": "item", "start_pos": 2, "length": 5}]}]}]},
 "transform_declarations": {"FINAL_OUTPUT": {"object": {"id": {"xpath": "id"}, "qty": {"xpath": "qty", "type": "int"},
   "first": {"xpath": "D/item"}, "n": {"array": [{"xpath": "D/item"}]}}}}}`,
			OK:   []string{"H0010010\nDitem1\n", "H0020020\n", "H0030030\nDitem3\n", "H0040040\nDi\n"},
			Fail: map[string][]string{"cast": {"H005 bad\nDitem5\n"}, "multi": {"H0060060\nDitem6\nDitem7\n"}},
			Wrap: join("")},
		{Name: "edi", Schema: `{"parser_settings": {"version": "omni.2.1", "file_format_type": "edi"},
 "file_declaration": {"segment_delimiter": "~", "element_delimiter": "*", "component_delimiter": ":", "release_character": "?", "ignore_crlf": true,
   "segment_declarations": [{"name": "HDR", "min": 0, "max": -1, "is_target": true,
    "elements": [{"name": "id", "index": 1}, {"name": "qty", "index": 2, "default": "0"}],
    "child_segments": [{"name": "ITM", "min": 0, "max": -1, "elements": [{"name": "sku", "index": 1, "component_index": 1}]}]}]},
 "transform_declarations": {"FINAL_OUTPUT": {"object": {"id": {"xpath": "id"}, "qty": {"xpath": "qty", "type": "int"},
   "first": {"xpath": "ITM/sku"}, "n": {"array": [{"xpath": "ITM/sku"}]}}}}}`,
			OK:   []string{"HDR*a*1~\nITM*s1:x~\n", "HDR*b*2~\n", "HDR*c?**3~\nITM*s?~3~\n", "HDR*d~\n"},
			Fail: map[string][]string{"cast": {"HDR*e*bad~\nITM*s5~\n"}, "multi": {"HDR*f*6~\nITM*s6~\nITM*s7~\n"}},
			Wrap: join("")},
		{Name: "json", Schema: `{"parser_settings": {"version": "omni.2.1", "file_format_type": "json"},
 "transform_declarations": {"FINAL_OUTPUT": {"xpath": "/*", "object": {"id": {"xpath": "id"}, "qty": {"xpath": "qty", "type": "int"},
   "tags": {"array": [{"xpath": "tags/*"}]}, "ts": ` + tsFunc + `, "js": {"custom_func": {"name": "javascript_with_context", "args": [{"const": "JSON.parse(_node).id"}]}},
   "a_probe": ` + jsProbe + `, "b_code": ` + jsThrow + `}}}}`,
			OK:   []string{`{"id": "a", "qty": 1, "tags": ["x", "y"]}`, `{"id": "b", "qty": 2, "tags": [], "ts": "2020-01-02", "code": "k1"}`, `{"id": "c", "qty": 3}`, `{"id": "d", "qty": 4, "tags": ["é"], "code": "k2"}`},
			Fail: map[string][]string{"cast": {`{"id": "e", "qty": "bad"}`, `{"id": "e2", "qty": 1.5}`}, "func": {`{"id": "f", "qty": 6, "ts": "garbage"}`}, "js": {`{"id": "g", "qty": 7, "code": "BAD-secret"}`}},
			Wrap: func(r []string) string { return "[" + strings.Join(r, ",\n ") + "]" }},
		// an optional header..footer declaration in front of the target whose header matches every line and whose footer
		// never comes: each input is looked ahead to its end (all lines buffered and matched) before the target gets them
		{Name: "csv2-lookahead", Schema: `{"parser_settings": {"version": "omni.2.1", "file_format_type": "csv2"},
 "file_declaration": {"delimiter": ",", "records": [
   {"name": "banner", "header": "^[CD],", "footer": "^END", "min": 0, "max": 1, "columns": [{"name": "b", "index": 2}]},
   {"name": "txn", "is_target": true, "columns": [{"name": "credit", "index": 2, "line_pattern": "^C"}, {"name": "debit", "index": 2, "line_pattern": "^D"}, {"name": "qty", "index": 3}]}]},
 "transform_declarations": {"FINAL_OUTPUT": {"object": {"credit": {"xpath": "credit"}, "debit": {"xpath": "debit"}, "qty": {"xpath": "qty", "type": "int"}}}}}`,
			OK:   []string{"C,100,1\n", "D,200,2\n", "C,5,3\n", "D,7,4\n", "C,\"9,9\",5\n"},
			Fail: map[string][]string{"cast": {"C,1,bad\n", "D,2,x\n"}},
			Wrap: join("")},
		// blocks: a plain (non-target, non-group) parent record with several child record types, the target among them; the
		// parent repeats, so whatever a finished parent instance leaves behind meets the next one
		{Name: "csv2-nested", Schema: `{"parser_settings": {"version": "omni.2.1", "file_format_type": "csv2"},
 "file_declaration": {"delimiter": ",", "records": [{"name": "P", "header": "^P,", "min": 0, "columns": [{"name": "pid", "index": 2}],
   "child_records": [{"name": "N", "header": "^N,", "min": 0, "columns": [{"name": "note", "index": 2}]},
                     {"name": "A", "header": "^A,", "is_target": true, "min": 0, "columns": [{"name": "id", "index": 2}, {"name": "qty", "index": 3}]},
                     {"name": "B", "header": "^B,", "min": 0, "columns": [{"name": "tail", "index": 2}]}]}]},
 "transform_declarations": {"FINAL_OUTPUT": {"object": {"id": {"xpath": "id"}, "qty": {"xpath": "qty", "type": "int"}, "pid": {"xpath": "../pid"}, "note": {"xpath": "../N/note"}}}}}`,
			OK:   []string{"P,p1\nN,n1\nA,a,1\nB,b1\n", "P,p2\nA,b,2\n", "P,p3\nN,n3\nA,c,3\nB,b3\nB,b4\n", "P,p4\nA,e,5\nB,b5\n"},
			Fail: map[string][]string{"cast": {"P,p5\nN,n5\nA,f,bad\nB,b6\n"}, "multi": {"P,p6\nN,n6\nN,n7\nA,g,7\n"}},
			Wrap: join("")},
		{Name: "fixedlength2-nested", Schema: `{"parser_settings": {"version": "omni.2.1", "file_format_type": "fixedlength2"},
 "file_declaration": {"envelopes": [{"name": "P", "header": "^P", "min": 0, "columns": [{"name": "pid", "start_pos": 2, "length": 3}],
   "child_envelopes": [{"name": "N", "header": "^N", "min": 0, "columns": [{"name": "note", "start_pos": 2, "length": 3}]},
                       {"name": "A", "header": "^A", "is_target": true, "min": 0, "columns": [{"name": "id", "start_pos": 2, "length": 2}, {"name": "qty", "start_pos": 4, "length": 3}]},
                       {"name": "B", "header": "^B", "min": 0, "columns": [{"name": "tail", "start_pos": 2, "length": 3}]}]}]},
 "transform_declarations": {"FINAL_OUTPUT": {"object": {"id": {"xpath": "id"}, "qty": {"xpath": "qty", "type": "int"}, "pid": {"xpath": "../pid"}, "note": {"xpath": "../N/note"}}}}}`,
			OK:   []string{"Pp01\nNn01\nAa1001\nBb01\n", "Pp02\nAa2002\n", "Pp03\nNn03\nAa3003\nBb03\nBb04\n", "Pp04\nAa5005\nBb05\n"},
			Fail: map[string][]string{"cast": {"Pp05\nNn05\nAa6bad\nBb06\n"}, "multi": {"Pp06\nNn06\nNn07\nAa7007\n"}},
			Wrap: join("")},
		// declarations whose own shape is computed from the record: xpath_dynamic built by nested and by one-level function
		// calls, by a field, inside an array and inside a template; functions of functions of fields
		{Name: "json-dyn", Schema: `{"parser_settings": {"version": "omni.2.1", "file_format_type": "json"},
 "transform_declarations": {"FINAL_OUTPUT": {"xpath": "/*", "object": {"id": {"xpath": "id"}, "qty": {"xpath": "qty", "type": "int"},
   "v_nested": {"xpath_dynamic": {"custom_func": {"name": "concat", "args": [{"const": "val_"}, {"custom_func": {"name": "lower", "args": [{"xpath": "kind"}]}}]}}},
   "v_flat": {"xpath_dynamic": {"custom_func": {"name": "concat", "args": [{"const": "val_"}, {"xpath": "lkind"}]}}},
   "v_field": {"xpath_dynamic": {"xpath": "ptr"}},
   "v_tpl": {"template": "pick"},
   "v_arr": {"array": [{"xpath_dynamic": {"custom_func": {"name": "concat", "args": [{"const": "list_"}, {"custom_func": {"name": "lower", "args": [{"xpath": "kind"}]}}, {"const": "/*"}]}}}]},
   "v_obj": {"xpath_dynamic": {"custom_func": {"name": "coalesce", "args": [{"xpath": "optr"}, {"const": "."}]}}, "object": {"k": {"xpath": "kind"}}},
   "v_fn": {"custom_func": {"name": "upper", "args": [{"custom_func": {"name": "coalesce", "args": [{"xpath": "opt"}, {"custom_func": {"name": "concat", "args": [{"xpath": "id"}, {"xpath": "kind"}]}}]}}]}}}},
  "pick": {"xpath_dynamic": {"custom_func": {"name": "concat", "args": [{"const": "val_"}, {"custom_func": {"name": "lower", "args": [{"xpath": "kind"}]}}]}}, "type": "int"}}}`,
			OK: []string{`{"id": "a", "qty": 1, "kind": "A", "lkind": "a", "ptr": "val_b", "val_a": 3, "val_b": 4, "list_a": [1, 2], "list_b": [9]}`,
				`{"id": "b", "qty": 2, "kind": "B", "lkind": "b", "ptr": "val_a", "val_a": 5, "val_b": 6, "list_a": [], "list_b": [7, 8], "opt": "o"}`,
				`{"id": "c", "qty": 3, "kind": "C", "lkind": "c", "ptr": "val_c", "val_a": 1, "val_c": 2, "list_c": ["x"], "optr": "sub", "sub": {"kind": "inner"}}`,
				`{"id": "d", "qty": 4, "kind": "B", "lkind": "a", "ptr": "id", "val_a": 7, "val_b": 8}`,
				`{"id": "e", "qty": 5, "kind": "A", "lkind": "b", "ptr": "qty", "val_a": 9, "val_b": 10, "list_a": [3]}`},
			Fail: map[string][]string{"cast": {`{"id": "f", "qty": "bad", "kind": "A", "lkind": "a", "ptr": "id", "val_a": 1}`, `{"id": "g", "qty": 1, "kind": "B", "lkind": "b", "ptr": "id", "val_b": "x"}`},
				"multi": {`{"id": "h", "qty": 1, "kind": "A", "lkind": "a", "ptr": "m/*", "val_a": 1, "m": [1, 2]}`}},
			Wrap: func(r []string) string { return "[" + strings.Join(r, ",\n ") + "]" }},
		// records that carry their own namespace declarations (one URI under two prefixes, a prefix re-declared): what a
		// record declares is in scope for that record only
		{Name: "xml-ns", Schema: `{"parser_settings": {"version": "omni.2.1", "file_format_type": "xml"},
 "transform_declarations": {"FINAL_OUTPUT": {"xpath": "/root/*", "object": {"id": {"xpath": "s:id"}, "qty": {"xpath": "s:qty", "type": "int"},
   "other": {"xpath": "b:id"}, "note": {"xpath": "n:note"}, "all": {"custom_func": {"name": "copy"}}}}}}`,
			OK: []string{`<s:rec><s:id>1</s:id><s:qty>1</s:qty></s:rec>`, `<b:rec xmlns:b="urn:shop"><b:id>2</b:id></b:rec>`,
				`<s:rec xmlns:n="urn:notes"><s:id>3</s:id><n:note>x</n:note></s:rec>`, `<s:rec xmlns:s="urn:other"><s:id>4</s:id></s:rec>`,
				`<rec xmlns="urn:shop"><id>5</id><t:note>y</t:note></rec>`, `<s:rec><s:id>6</s:id><t:note>z</t:note><s:qty>6</s:qty></s:rec>`},
			Fail: map[string][]string{"cast": {`<s:rec><s:id>7</s:id><s:qty>bad</s:qty></s:rec>`, `<s:rec xmlns:n="urn:notes"><s:id>8</s:id><s:qty>x</s:qty><n:note>n</n:note></s:rec>`}},
			Wrap: func(r []string) string {
				return `<root xmlns:s="urn:shop" xmlns:t="urn:notes">` + strings.Join(r, "\n") + "</root>"
			}},
		{Name: "xml", Schema: `{"parser_settings": {"version": "omni.2.1", "file_format_type": "xml"},
 "transform_declarations": {"FINAL_OUTPUT": {"xpath": "/root/rec", "object": {"id": {"xpath": "@id"}, "qty": {"xpath": "qty", "type": "int"},
   "one": {"xpath": "u"}, "tags": {"array": [{"xpath": "tag"}]}, "ts": ` + tsFunc + `, "js": {"custom_func": {"name": "javascript_with_context", "args": [{"const": "JSON.parse(_node).qty"}]}},
   "a_probe": ` + jsProbe + `, "b_code": ` + jsThrow + `}}}}`,
			OK:   []string{`<rec id="a"><qty>1</qty><tag>x</tag><tag>y</tag></rec>`, `<rec id="b"><qty>2</qty><u>only</u></rec>`, `<rec id="c"><qty>3</qty><ts>2020-01-02</ts></rec>`, `<rec id="d"><qty>4</qty><tag>&amp;é</tag></rec>`},
			Fail: map[string][]string{"cast": {`<rec id="e"><qty>bad</qty></rec>`}, "multi": {`<rec id="f"><qty>6</qty><u>1</u><u>2</u></rec>`}, "func": {`<rec id="g"><qty>7</qty><ts>garbage</ts></rec>`}, "js": {`<rec id="h"><qty>8</qty><code>BAD-secret</code></rec>`}},
			Wrap: func(r []string) string { return "<root>" + strings.Join(r, "\n") + "</root>" }},
	}
}

func c10Run(f *recFormat, recs []string) []string {
	o := transcriptOf(f.sch, bytes.NewReader([]byte(f.Wrap(recs))), 10000)
	fps := fpAll(o, "classout")
	// the terminal marker is the literal "eof" in the algebraic laws
	if n := len(fps); n > 0 && strings.HasPrefix(fps[n-1], "eof|") {
		fps[n-1] = "eof"
	}
	return fps
}

func c10Drive(args []string) int {
	outPath := args[0]
	rounds := 30
	if len(args) > 1 {
		fmt.Sscanf(args[1], "%d", &rounds)
	}
	r := rng(1010)
	sum := newSummary()
	var events []interface{}
	add := func(ev M) {
		ev["tr"] = len(events) + 1
		events = append(events, ev)
		sum.Traces++
	}
	// the node pool is process-wide: the formats whose nodes carry format-specific data (namespaces, JSON types) go first and
	// garbage collection is held off, so that the flat formats draw nodes with a previous life
	formats := c10Formats()
	sort.SliceStable(formats, func(i, j int) bool {
		rank := func(n string) int {
			switch {
			case n == "xml" || n == "json":
				return 0
			case n == "xml-ns": // last among them: its nodes carry prefixes and URIs
				return 1
			}
			return 2
		}
		return rank(formats[i].Name) < rank(formats[j].Name)
	})
	// baseline and sanity of the pools (a wrong pool would make the laws vacuous): in declaration order, before anything else
	// has run, ok records succeed alone and failing ones fail alone
	baseline := map[string][]string{}
	for _, f := range c10Formats() {
		sch, err, p := newSchema([]byte(f.Schema))
		if err != nil || p != "" {
			fmt.Println("error: c10 schema rejected", f.Name, err, p)
			return 3
		}
		f.sch = sch
		// (every baseline run on a Schema of its own: nothing an earlier record left behind in the Schema object either)
		fresh := func() {
			f.sch, _, _ = newSchema([]byte(f.Schema))
		}
		for _, x := range f.OK {
			fresh()
			t := c10Run(f, []string{x})
			if len(t) != 2 || !strings.HasPrefix(t[0], "ok|") {
				fmt.Println("error: pool record does not transform alone:", f.Name, x, t)
				return 3
			}
			baseline[f.Name+"\x00"+x] = t
		}
		for _, rs := range f.Fail {
			for _, x := range rs {
				fresh()
				t := c10Run(f, []string{x})
				if len(t) != 2 || !strings.HasPrefix(t[0], "failed|") {
					fmt.Println("error: failing pool record does not fail alone:", f.Name, x, t)
					return 3
				}
				baseline[f.Name+"\x00"+x] = t
			}
		}
	}
	defer debug.SetGCPercent(debug.SetGCPercent(-1))
	// (not without bound: with the collector off the thorough tier's thousands of rounds would grow the heap until the
	// kernel kills the process; a soft limit lets it run only when the heap gets there)
	defer debug.SetMemoryLimit(debug.SetMemoryLimit(3 << 30))
	for _, f := range formats {
		emit(M{"kind": "progress", "format": f.Name}) // names the format should the runtime kill the process (vlib.RepoCrash)
		sch, err, p := newSchema([]byte(f.Schema))
		if err != nil || p != "" {
			fmt.Println("error: c10 schema rejected", f.Name, err, p)
			return 3
		}
		f.sch = sch
		var pool []string
		pool = append(pool, f.OK...)
		var failing []string
		kindOf := map[string]string{}
		for k, rs := range f.Fail {
			for _, x := range rs {
				failing = append(failing, x)
				kindOf[x] = k
			}
		}
		// every record transformed alone gives what it gave at the start of the process (clean pool, nothing before it):
		// a record's output depends on that record only
		for _, x := range append(append([]string{}, pool...), failing...) {
			if t := c10Run(f, []string{x}); fmt.Sprint(t) != fmt.Sprint(baseline[f.Name+"\x00"+x]) {
				violation("C10", "record-alone-differs:"+f.Name, fmt.Sprintf("%s: the record %q transformed alone gives %v after other transforms in the process, %v at its start", f.Name, x, t, baseline[f.Name+"\x00"+x]),
					M{"format": f.Name, "record": x})
			}
		}
		pick := func(n int, withFail bool) []string {
			out := []string{}
			for i := 0; i < n; i++ {
				if withFail && r.Intn(4) == 0 {
					out = append(out, failing[r.Intn(len(failing))])
				} else {
					out = append(out, pool[r.Intn(len(pool))])
				}
			}
			return out
		}
		// bulk rounds: inputs of several buffer sizes (bufio 4096, scanner 64 KiB), so that records straddle every refill
		for bulk := 0; bulk < 2+rounds/20; bulk++ {
			a, b := pick(150+r.Intn(300), true), pick(150+r.Intn(300), true)
			if bulk%2 == 1 {
				a, b = pick(2500+r.Intn(1500), false), pick(50+r.Intn(50), true)
			}
			ta, tb := c10Run(f, a), c10Run(f, b)
			tab := c10Run(f, append(append([]string{}, a...), b...))
			add(M{"ev": "concat", "a": ta, "b": tb, "ab": tab, "format": f.Name, "recs_a": fmt.Sprintf("%d records", len(a)), "recs_b": fmt.Sprintf("%d records", len(b)), "bulk": true})
			sum.eval(true, M{"f": f.Name, "bulk": bulk, "n": len(a) + len(b)})
		}
		for round := 0; round < rounds; round++ {
			a, b := pick(r.Intn(4), true), pick(r.Intn(4), true)
			ta, tb := c10Run(f, a), c10Run(f, b)
			tab := c10Run(f, append(append([]string{}, a...), b...))
			add(M{"ev": "concat", "a": ta, "b": tb, "ab": tab, "format": f.Name, "recs_a": a, "recs_b": b})
			sum.eval(len(a)+len(b) >= 3 || strings.Contains(strings.Join(tab, " "), "failed|"), M{"f": f.Name, "a": a, "b": b})
			// permutation
			base := pick(2+r.Intn(4), true)
			perm := r.Perm(len(base))
			var permuted []string
			p1 := make([]int, len(perm))
			for i, j := range perm {
				permuted = append(permuted, base[j])
				p1[i] = j + 1
			}
			add(M{"ev": "perm", "base": c10Run(f, base), "perm": p1, "out": c10Run(f, permuted), "format": f.Name, "recs": base})
			sum.eval(true, M{"f": f.Name, "p": base, "q": perm})
			// replacement of one position by each kind of failing record
			okSeq := pick(2+r.Intn(4), false)
			tbase := c10Run(f, okSeq)
			pos := r.Intn(len(okSeq))
			for _, bad := range failing {
				repl := append([]string{}, okSeq...)
				repl[pos] = bad
				trepl := c10Run(f, repl)
				rc := ""
				if pos < len(trepl) {
					rc = strings.SplitN(trepl[pos], "|", 2)[0]
				}
				add(M{"ev": "replace", "base": tbase, "repl": trepl, "pos": pos + 1, "replclass": rc, "format": f.Name, "kind": kindOf[bad], "recs": repl})
				sum.eval(true, M{"f": f.Name, "r": repl})
			}
		}
		sum.sample(M{"format": f.Name, "ok_pool": f.OK, "fail_pool": f.Fail})
	}
	mustWriteNDJSON(outPath, events)
	sum.done()
	return 0
}

func init() { cmds["c10-drive"] = c10Drive }
