package main

import (
	"bytes"
	"encoding/json"
	"encoding/xml"
	"fmt"
	"golang.org/x/net/html/charset"
	"io"
	"reflect"
	"sort"
	"strings"

	"github.com/jf-tech/omniparser/idr"
)

type dtok struct {
	T string `json:"t"`
	V string `json:"v"`
}
type c08Case struct {
	Toks []dtok `json:"toks"`
	Nt   bool   `json:"nt"`
}

// renderJSONTokens: variant 0 plain; variant 1 substitutes payloads (unicode / escapes / numeric forms) and adds whitespace
func renderJSONTokens(toks []dtok, variant int, r interface{ Intn(int) int }) string {
	var sb strings.Builder
	needComma := []bool{false}
	strs := []string{"x", "é世🙂", "a\"b\\c", "\u0000\u001f", "line\nbreak\ttab", "</script>", " "}
	nums := []string{"0", "-0", "1e3", "1.0", "9007199254740993", "1e308", "-1.5e-7", "123456789012345678901234567890"}
	sep := func() {
		if needComma[len(needComma)-1] {
			sb.WriteString(",")
			if variant == 1 {
				sb.WriteString("\n  ")
			}
		}
	}
	afterValue := func() { needComma[len(needComma)-1] = true }
	pendingKey := false
	for _, t := range toks {
		switch t.T {
		case "{", "[":
			if !pendingKey {
				sep()
			}
			pendingKey = false
			sb.WriteString(t.T)
			needComma = append(needComma, false)
		case "}", "]":
			sb.WriteString(t.T)
			needComma = needComma[:len(needComma)-1]
			afterValue()
		case "key":
			sep()
			b, _ := json.Marshal(t.V)
			sb.Write(b)
			sb.WriteString(":")
			pendingKey = true
		default:
			if !pendingKey {
				sep()
			}
			pendingKey = false
			switch t.T {
			case "null":
				sb.WriteString("null")
			case "bool":
				sb.WriteString(t.V)
			case "num":
				if variant == 1 && t.V != "0" {
					sb.WriteString(nums[r.Intn(len(nums))])
				} else {
					sb.WriteString(t.V)
				}
			case "str":
				s := t.V
				if variant == 1 && s != "" {
					s = strs[r.Intn(len(strs))]
				}
				b, _ := json.Marshal(s)
				sb.Write(b)
			}
			afterValue()
		}
	}
	return sb.String()
}

func c08Replay(args []string) int {
	sum := newSummary()
	r := rng(808)
	nviol := 0
	copySchema := `{"parser_settings": {"version": "omni.2.1", "file_format_type": "json"},
 "transform_declarations": {"FINAL_OUTPUT": {"xpath": ".", "custom_func": {"name": "copy"}, "keep_empty_or_null": true, "no_trim": true}}}`
	sch, err, p := newSchema([]byte(copySchema))
	if err != nil || p != "" {
		fmt.Println("error: copy schema rejected", err, p)
		return 3
	}
	e2 := readLines(args[0], func(line []byte) error {
		var c c08Case
		if e := json.Unmarshal(line, &c); e != nil {
			return e
		}
		for variant := 0; variant < 2; variant++ {
			text := renderJSONTokens(c.Toks, variant, r)
			var want interface{}
			if e := json.Unmarshal([]byte(text), &want); e != nil {
				return fmt.Errorf("renderer produced invalid JSON %q: %v", text, e)
			}
			// (1) tree -> value
			var got interface{}
			var rerr error
			pv, _ := guarded(0, func() {
				sr, e := idr.NewJSONStreamReader(strings.NewReader(text), ".")
				if e != nil {
					rerr = e
					return
				}
				n, e := sr.Read()
				if e != nil {
					rerr = e
					return
				}
				got = idr.J2NodeToInterface(n, true)
				// JSONify2 must agree with it
				var viaJSON interface{}
				if e := json.Unmarshal([]byte(idr.JSONify2(n)), &viaJSON); e != nil || !reflect.DeepEqual(viaJSON, normJSON(got)) {
					rerr = fmt.Errorf("JSONify2 disagrees with J2NodeToInterface: %v", e)
				}
			})
			sum.eval(c.Nt, M{"t": text})
			if pv != "" || rerr != nil || !reflect.DeepEqual(normJSON(got), want) {
				nviol++
				if nviol <= 30 {
					violation("C08", "json-roundtrip", fmt.Sprintf("JSON %s converts back to %v (%v %s)", text, jsonOf(got), rerr, pv), M{"json": text, "back": jsonOf(got)})
				}
				continue
			}
			// (2) the copy function through a full Transform reproduces the record as an equal JSON value
			out := runTranscript(sch, strings.NewReader(text), RunOpts{MaxReads: 3})
			var viaCopy interface{}
			okc := out.Panic == "" && len(out.Results) >= 1 && out.Results[0].Class == "ok" && json.Unmarshal([]byte(out.Results[0].Out), &viaCopy) == nil
			if !okc || !reflect.DeepEqual(viaCopy, want) {
				nviol++
				if nviol <= 30 {
					violation("C08", "json-copy", fmt.Sprintf("copy of %s emits %v", text, out.Results), M{"json": text, "results": out.Results, "panic": out.Panic})
				}
			}
		}
		sum.sample(M{"json": renderJSONTokens(c.Toks, 0, r)})
		return nil
	})
	if e2 != nil {
		fmt.Println("error:", e2)
		return 3
	}
	sum.inc("mismatches", nviol)
	sum.done()
	return 0
}

func jsonOf(v interface{}) string { b, _ := json.Marshal(v); return string(b) }

// normJSON: what J2NodeToInterface returns re-read through encoding/json types (numbers float64, nested []interface{} / map)
func normJSON(v interface{}) interface{} {
	b, err := json.Marshal(v)
	if err != nil {
		return fmt.Sprintf("unmarshalable: %v", err)
	}
	var out interface{}
	_ = json.Unmarshal(b, &out)
	return out
}

// ---- XML: the IDR tree against an independent DOM built from encoding/xml events

type xnode struct {
	Kind, Local, Prefix, URI, Text string
	Kids                           []*xnode
	alt                            []string // reference only: every prefix in scope that is bound to URI
}

// xmlRefDOM: an independent DOM from the decoder's *raw* tokens (names as written) with namespace scoping done here:
// a declaration holds for the declaring element and its descendants (https://www.w3.org/TR/xml-names/#scoping-defaulting).
// Prefix is the prefix as written; alt lists every prefix that denotes the same URI at that point (the decoder proper
// reports URIs only, so each of them is a faithful rendering).
func xmlRefDOM(text string) (*xnode, error) {
	d := xml.NewDecoder(strings.NewReader(text))
	d.CharsetReader = charset.NewReaderLabel // the standard decoder honours the encoding the document declares
	root := &xnode{Kind: "doc"}
	stack := []*xnode{root}
	type decl struct{ prefix, uri string }
	scopes := [][]decl{{{"xml", "http://www.w3.org/XML/1998/namespace"}}}
	resolve := func(prefix string) string {
		for i := len(scopes) - 1; i >= 0; i-- {
			for j := len(scopes[i]) - 1; j >= 0; j-- {
				if scopes[i][j].prefix == prefix {
					return scopes[i][j].uri
				}
			}
		}
		return ""
	}
	boundBy := func(uri string) []string {
		var out []string
		seen := map[string]bool{}
		for i := len(scopes) - 1; i >= 0; i-- {
			for j := len(scopes[i]) - 1; j >= 0; j-- {
				p := scopes[i][j].prefix
				if !seen[p] {
					seen[p] = true
					if scopes[i][j].uri == uri {
						out = append(out, p)
					}
				}
			}
		}
		return out
	}
	for {
		tok, err := d.RawToken()
		if err == io.EOF {
			return root, nil
		}
		if err != nil {
			return nil, err
		}
		top := stack[len(stack)-1]
		switch t := tok.(type) {
		case xml.StartElement:
			var sc []decl
			for _, a := range t.Attr {
				if a.Name.Space == "" && a.Name.Local == "xmlns" {
					sc = append(sc, decl{"", a.Value})
				} else if a.Name.Space == "xmlns" {
					sc = append(sc, decl{a.Name.Local, a.Value})
				}
			}
			scopes = append(scopes, sc)
			e := &xnode{Kind: "elem", Local: t.Name.Local, Prefix: t.Name.Space, URI: resolve(t.Name.Space)}
			if e.URI != "" {
				e.alt = boundBy(e.URI)
			}
			for _, a := range t.Attr {
				// (the value of an attribute is its one text child, also when it is empty)
				an := &xnode{Kind: "attr", Local: a.Name.Local, Prefix: a.Name.Space, Text: a.Value, Kids: []*xnode{{Kind: "text", Text: a.Value}}}
				switch {
				case a.Name.Space == "xmlns": // a declaration: the tree keeps it as an attribute with prefix xmlns and no URI
				case a.Name.Space != "": // an unprefixed attribute is in no namespace
					an.URI = resolve(a.Name.Space)
					an.alt = boundBy(an.URI)
				}
				e.Kids = append(e.Kids, an)
			}
			top.Kids = append(top.Kids, e)
			stack = append(stack, e)
		case xml.EndElement:
			stack = stack[:len(stack)-1]
			scopes = scopes[:len(scopes)-1]
		case xml.CharData:
			top.Kids = append(top.Kids, &xnode{Kind: "text", Text: string(t)})
		}
	}
}

// sameXTree: equal trees; where the reference lists several prefixes for a URI any of them is accepted
func sameXTree(got, ref *xnode) bool {
	if got == nil || ref == nil {
		return got == ref
	}
	if got.Kind != ref.Kind || got.Local != ref.Local || got.URI != ref.URI || got.Text != ref.Text || len(got.Kids) != len(ref.Kids) {
		return false
	}
	if got.Prefix != ref.Prefix {
		ok := false
		for _, p := range ref.alt {
			ok = ok || p == got.Prefix
		}
		if !ok {
			return false
		}
	}
	for i := range got.Kids {
		if !sameXTree(got.Kids[i], ref.Kids[i]) {
			return false
		}
	}
	return true
}

func idrToX(n *idr.Node) *xnode {
	x := &xnode{}
	xs := idr.XMLSpecific{}
	if idr.IsXML(n) {
		xs = idr.XMLSpecificOf(n)
	}
	switch n.Type {
	case idr.DocumentNode:
		x.Kind = "doc"
	case idr.ElementNode:
		x.Kind, x.Local, x.Prefix, x.URI = "elem", n.Data, xs.NamespacePrefix, xs.NamespaceURI
	case idr.AttributeNode:
		x.Kind, x.Local, x.Prefix, x.URI, x.Text = "attr", n.Data, xs.NamespacePrefix, xs.NamespaceURI, n.InnerText()
	case idr.TextNode:
		x.Kind, x.Text = "text", n.Data
		return x
	}
	for c := n.FirstChild; c != nil; c = c.NextSibling {
		x.Kids = append(x.Kids, idrToX(c))
	}
	return x
}

func c08XML(args []string) int {
	n := 300
	if len(args) > 0 {
		fmt.Sscanf(args[0], "%d", &n)
	}
	sum := newSummary()
	r := rng(809)
	docs := []string{
		`<a/>`, `<a>text</a>`, `<a k="v" j="w"><b/>t1<c>x</c>t2</a>`,
		`<p:a xmlns:p="urn:p" xmlns="urn:d"><b p:k="1" k="2"/><p:c>&amp;&lt;&#x4e16;</p:c></p:a>`,
		`<?xml version="1.0"?><!-- c --><a><![CDATA[<raw>&]]><?pi x?><b xml:lang="en"> sp </b></a>`,
		`<a xmlns:x="urn:1"><x:b><c xmlns:y="urn:2"><y:d x:k="v"/></c></x:b></a>`,
		// one URI under two prefixes in disjoint scopes; a nested re-declaration that goes out of scope again
		`<feed><a:e xmlns:a="urn:i"><a:id a:k="x">1</a:id></a:e><b:e xmlns:b="urn:i"><b:id b:k="y">2</b:id></b:e></feed>`,
		`<root xmlns:p="urn:p"><r:x xmlns:r="urn:p"><r:y/></r:x><p:c p:k="1"/></root>`,
		`<root xmlns:p="urn:p"><p:x xmlns:p="urn:other"><p:y/></p:x><p:c/></root>`,
		`<root xmlns="urn:d"><x xmlns="urn:e"><y/></x><c/></root>`,
		"<a k=\"line1\nline2\" t=\"x\ty\" r=\"c&#13;&#10;d\" s=\"  lead and trail  \"><b v=\"&#9;\"/></a>",
	}
	names := []string{"a", "b", "p:c", "q:d", "e"}
	var gen func(depth int) string
	gen = func(depth int) string {
		nm := names[r.Intn(len(names))]
		attrs := ""
		switch r.Intn(12) {
		case 0: // the URI of p under a second prefix, for this subtree only
			nm, attrs = "r:"+[]string{"c", "x"}[r.Intn(2)], ` xmlns:r="urn:p"`
		case 1: // prefix q re-bound to another URI for this subtree
			nm, attrs = "q:d", ` xmlns:q="urn:q2"`
		case 2: // a default namespace for this subtree
			attrs = ` xmlns="urn:dflt"`
		}
		if r.Intn(3) == 0 {
			attrs += fmt.Sprintf(` k="%d"`, r.Intn(3))
		}
		if r.Intn(4) == 0 {
			attrs += ` p:j="é&amp;"`
		}
		if r.Intn(5) == 0 { // white space inside attribute values: literal and as character references (reported verbatim)
			attrs += ` w="` + []string{"a\tb", "a\nb", "a&#10;b", "t&#9;x&#13;", " two  spaces ", "\n"}[r.Intn(6)] + `"`
		}
		if r.Intn(6) == 0 { // values that are there and empty
			attrs += ` e=""`
		}
		var kids strings.Builder
		for k := r.Intn(4); k > 0 && depth < 4; k-- {
			switch r.Intn(4) {
			case 0:
				kids.WriteString([]string{"text", " ", "é世", "&lt;x&gt;", "<![CDATA[cd]]>", "<![CDATA[]]>"}[r.Intn(6)])
			case 1:
				kids.WriteString("<!--c-->")
			default:
				kids.WriteString(gen(depth + 1))
			}
		}
		if kids.Len() == 0 && r.Intn(2) == 0 {
			return "<" + nm + attrs + "/>"
		}
		return "<" + nm + attrs + ">" + kids.String() + "</" + nm + ">"
	}
	for i := 0; i < n; i++ {
		inner := gen(0)
		docs = append(docs, `<root xmlns:p="urn:p" xmlns:q="urn:q">`+inner+`</root>`)
	}
	// size and encoding: non-ASCII data only after a long ASCII prefix (beyond any sniffing window), declared legacy
	// encodings, a UTF-8 declaration with non-ASCII in the first bytes
	for _, padLen := range []int{900, 1024, 1100, 4200, 70000} {
		pad := strings.Repeat("<f>plain ascii filler</f>", padLen/25+1)
		docs = append(docs, `<root>`+pad+`<t k="Zoë €">naïve 世界 🙂</t></root>`)
		docs = append(docs, `<?xml version="1.0" encoding="UTF-8"?><root><t>é first</t>`+pad+`<t k="ü">später</t></root>`)
	}
	docs = append(docs, "<?xml version=\"1.0\" encoding=\"ISO-8859-1\"?><root><t k=\"\xe9\">caf\xe9 \xfc\xdf</t></root>",
		"<?xml version=\"1.0\" encoding=\"windows-1252\"?><root><t>\x80 \x99</t><u k=\"\x93q\x94\"/></root>")
	nviol := 0
	for _, text := range docs {
		ref, err := xmlRefDOM(text)
		if err != nil {
			fmt.Println("error: generated XML is not well-formed:", text, err)
			return 3
		}
		var got *xnode
		var rerr error
		pv, _ := guarded(0, func() {
			sr, e := idr.NewXMLStreamReader(strings.NewReader(text), "/*")
			if e != nil {
				rerr = e
				return
			}
			nd, e := sr.Read()
			if e != nil {
				rerr = e
				return
			}
			got = idrToX(nd.Parent)
		})
		sum.eval(strings.Contains(text, ":") || strings.Count(text, "<") > 4, M{"x": text})
		if pv != "" || rerr != nil || !sameXTree(got, ref) {
			nviol++
			if nviol <= 20 {
				gb, _ := json.Marshal(got)
				rb, _ := json.Marshal(ref)
				violation("C08", "xml-tree", fmt.Sprintf("XML %s: tree differs from the decoder's events (%v %s)", text, rerr, pv), M{"xml": text, "tree": string(gb), "reference": string(rb)})
			}
		}
	}
	sum.sample(M{"xml": docs[3]})
	sum.inc("mismatches", nviol)
	sum.done()
	_ = bytes.MinRead
	return 0
}

// ---- XMLTree.tla cases: namespace scoping

type nsDoc struct {
	N   int      `json:"n"`
	Par []int    `json:"par"`
	Pfx []string `json:"pfx"`
	Dd  []string `json:"dd"`
	Dp  []string `json:"dp"`
	Dq  []string `json:"dq"`
	Ap  []string `json:"ap"`
}
type nsCase struct {
	D   nsDoc           `json:"d"`
	Exp [][]interface{} `json:"exp"` // [kind, prefix, local, uri, depth]
	Nt  bool            `json:"nt"`
}

func (d *nsDoc) render(i int, sb *strings.Builder) {
	name := "a"
	if d.Pfx[i-1] != "" {
		name = d.Pfx[i-1] + ":a"
	}
	sb.WriteString("<" + name)
	if d.Dd[i-1] != "" {
		sb.WriteString(` xmlns="` + d.Dd[i-1] + `"`)
	}
	if d.Dp[i-1] != "" {
		sb.WriteString(` xmlns:p="` + d.Dp[i-1] + `"`)
	}
	if d.Dq[i-1] != "" {
		sb.WriteString(` xmlns:q="` + d.Dq[i-1] + `"`)
	}
	switch d.Ap[i-1] {
	case "-":
	case "":
		sb.WriteString(` k="1"`)
	default:
		sb.WriteString(` ` + d.Ap[i-1] + `:k="1"`)
	}
	sb.WriteString(">")
	for j := 1; j <= d.N; j++ {
		if d.Par[j-1] == i {
			d.render(j, sb)
		}
	}
	sb.WriteString("</" + name + ">")
}

func flattenNS(n *idr.Node, depth int, out *[][]interface{}) {
	xs := idr.XMLSpecific{}
	if idr.IsXML(n) {
		xs = idr.XMLSpecificOf(n)
	}
	switch n.Type {
	case idr.ElementNode:
		*out = append(*out, []interface{}{"E", xs.NamespacePrefix, n.Data, xs.NamespaceURI, depth})
	case idr.AttributeNode:
		*out = append(*out, []interface{}{"A", xs.NamespacePrefix, n.Data, xs.NamespaceURI, depth})
		return
	default:
		return
	}
	for c := n.FirstChild; c != nil; c = c.NextSibling {
		flattenNS(c, depth+1, out)
	}
}

// c08-ns <cases.ndjson>
func c08NS(args []string) int {
	sum := newSummary()
	nviol := 0
	err := readLines(args[0], func(line []byte) error {
		var c nsCase
		if e := json.Unmarshal(line, &c); e != nil {
			return e
		}
		var sb strings.Builder
		c.D.render(1, &sb)
		text := sb.String()
		var got [][]interface{}
		var rerr error
		pv, _ := guarded(0, func() {
			sr, e := idr.NewXMLStreamReader(strings.NewReader(text), "/*")
			if e != nil {
				rerr = e
				return
			}
			nd, e := sr.Read()
			if e != nil {
				rerr = e
				return
			}
			flattenNS(nd, 0, &got)
		})
		sum.eval(c.Nt, M{"x": text})
		if pv != "" || rerr != nil || jsonOf(got) != jsonOf(c.Exp) {
			nviol++
			if nviol <= 20 {
				violation("C08", "xml-namespace-scoping", fmt.Sprintf("XML %s: elements / attributes (kind, prefix, local, URI, depth) expected %v, the tree has %v %v %s", text, c.Exp, got, rerr, pv),
					M{"xml": text, "expected": c.Exp, "actual": got})
			}
		}
		// the same document streamed record by record (target: the children of the document element): what a record
		// declares is in scope for that record only, the records after it are built as in the whole document
		if len(c.Exp) > 0 {
			var want [][]interface{}
			skippingRootAttrs := true
			for i, e := range c.Exp {
				if i == 0 {
					continue
				}
				if skippingRootAttrs && len(e) == 5 && e[0] == "A" && fmt.Sprint(e[4]) == "1" {
					continue
				}
				skippingRootAttrs = false
				want = append(want, e)
			}
			var gotS [][]interface{}
			var serr error
			pv2, _ := guarded(0, func() {
				sr, e := idr.NewXMLStreamReader(strings.NewReader(text), "/*/*")
				if e != nil {
					serr = e
					return
				}
				for k := 0; k < 8; k++ {
					nd, e := sr.Read()
					if e == io.EOF {
						return
					}
					if e != nil {
						serr = e
						return
					}
					flattenNS(nd, 1, &gotS)
					sr.Release(nd)
				}
			})
			if pv2 != "" || serr != nil || jsonOf(gotS) != jsonOf(want) {
				nviol++
				if nviol <= 20 {
					violation("C08", "xml-namespace-scoping-streamed", fmt.Sprintf("XML %s streamed record by record (/*/*): elements / attributes expected %v, the records have %v %v %s", text, want, gotS, serr, pv2),
						M{"xml": text, "expected": want, "actual": gotS})
				}
			}
		}
		if c.Nt {
			sum.sample(M{"xml": text, "expected": c.Exp})
		}
		return nil
	})
	if err != nil {
		fmt.Println("error:", err)
		return 3
	}
	sum.inc("mismatches", nviol)
	sum.done()
	return 0
}

func init() {
	cmds["c08-ns"] = c08NS
	cmds["c08-replay"] = c08Replay
	cmds["c08-xml"] = c08XML
}

// ---- B2: random deeper JSON values; the trace carries the token stream and what the real tree converted back to
// (as a token stream); TLC runs Build / ToTokens of DocTree.tla on the logged tokens.

func genJSONToks(r interface{ Intn(int) int }, depth int, out *[]dtok) {
	scal := []dtok{{"null", ""}, {"bool", "true"}, {"bool", "false"}, {"num", "0"}, {"num", "1.5"}, {"str", ""}, {"str", "x"}}
	if depth <= 0 || r.Intn(3) == 0 {
		*out = append(*out, scal[r.Intn(len(scal))])
		return
	}
	if r.Intn(2) == 0 {
		*out = append(*out, dtok{"[", ""})
		for k := r.Intn(4); k > 0; k-- {
			genJSONToks(r, depth-1, out)
		}
		*out = append(*out, dtok{"]", ""})
		return
	}
	*out = append(*out, dtok{"{", ""})
	keys := []string{"", "a", "b", "c"}
	perm := []int{0, 1, 2, 3}
	for a := 3; a > 0; a-- {
		b := r.Intn(a + 1)
		perm[a], perm[b] = perm[b], perm[a]
	}
	nk := r.Intn(4)
	chosen := map[int]bool{}
	for k := 0; k < nk; k++ {
		chosen[perm[k]] = true
	}
	for ki := 0; ki < len(keys); ki++ { // keys in sorted order: objects are unordered, the comparison is positional
		if !chosen[ki] {
			continue
		}
		*out = append(*out, dtok{"key", keys[ki]})
		genJSONToks(r, depth-1, out)
	}
	*out = append(*out, dtok{"}", ""})
}

func valueToToks(v interface{}, keyOrder func(m map[string]interface{}) []string, out *[]dtok) {
	switch x := v.(type) {
	case nil:
		*out = append(*out, dtok{"null", ""})
	case bool:
		*out = append(*out, dtok{"bool", fmt.Sprint(x)})
	case float64:
		*out = append(*out, dtok{"num", strings.TrimSuffix(fmt.Sprintf("%v", x), ".0")})
	case string:
		*out = append(*out, dtok{"str", x})
	case []interface{}:
		*out = append(*out, dtok{"[", ""})
		for _, e := range x {
			valueToToks(e, keyOrder, out)
		}
		*out = append(*out, dtok{"]", ""})
	case map[string]interface{}:
		*out = append(*out, dtok{"{", ""})
		for _, k := range keyOrder(x) {
			*out = append(*out, dtok{"key", k})
			valueToToks(x[k], keyOrder, out)
		}
		*out = append(*out, dtok{"}", ""})
	}
}

func c08Drive(args []string) int {
	n := 300
	if len(args) > 1 {
		fmt.Sscanf(args[1], "%d", &n)
	}
	r := rng(810)
	sum := newSummary()
	var events []interface{}
	for i := 0; i < n; i++ {
		var toks []dtok
		genJSONToks(r, 2+r.Intn(3), &toks)
		text := renderJSONTokens(toks, 0, r)
		var back interface{}
		var rerr error
		pv, _ := guarded(0, func() {
			sr, e := idr.NewJSONStreamReader(strings.NewReader(text), ".")
			if e != nil {
				rerr = e
				return
			}
			nd, e := sr.Read()
			if e != nil {
				rerr = e
				return
			}
			back = normJSON(idr.J2NodeToInterface(nd, true))
		})
		if pv != "" || rerr != nil {
			violation("C08", "json-read", fmt.Sprintf("reading %s failed: %v %s", text, rerr, pv), M{"json": text})
			continue
		}
		keyOrder := func(m map[string]interface{}) []string {
			var ks []string
			for k := range m {
				ks = append(ks, k)
			}
			sort.Strings(ks)
			return ks
		}
		var backToks []dtok
		valueToToks(back, keyOrder, &backToks)
		events = append(events, M{"tr": len(events) + 1, "toks": toks, "back": backToks, "json": text})
		sum.Traces++
		sum.eval(len(toks) >= 5, M{"t": text})
		if i == 0 {
			sum.sample(M{"json": text})
		}
	}
	mustWriteNDJSON(args[0], events)
	sum.done()
	return 0
}

func init() { cmds["c08-drive"] = c08Drive }
